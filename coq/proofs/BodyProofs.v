(** Lemmas for C07 (body limits).  Everything is proved for an arbitrary representation
    of byte sequences satisfying [body_laws]; lists, strings and plain lengths are shown
    to be instances. *)
From EG.lib Require Import Base.
From EG.gen Require Import GenBody.
From EG.model Require Import Body BodyCheck.
From Coq Require Import ZifyBool.
Open Scope Z_scope.

Record body_laws {B : Type} (blen : B -> Z) (btake : Z -> B -> B) (bnil : B) : Prop := {
  bl_nonneg : forall b, 0 <= blen b;
  bl_nil : blen bnil = 0;
  bl_take_all : forall n b, blen b <= n -> btake n b = b;
  bl_take_len : forall n b, 0 <= n <= blen b -> blen (btake n b) = n;
  bl_take_zero : forall b, btake 0 b = bnil
}.

(** *** instances *)
Lemma list_laws {A} : body_laws (@zlen A) (@ztake A) [].
Proof.
  split.
  - intros b. unfold zlen. lia.
  - reflexivity.
  - intros n b H. unfold ztake, zlen in *. apply firstn_all2. lia.
  - intros n b H. unfold ztake, zlen in *. rewrite firstn_length. lia.
  - intros b. reflexivity.
Qed.

Lemma substring_all : forall s n, (String.length s <= n)%nat -> substring 0 n s = s.
Proof.
  induction s as [|a s IH]; intros [|n] H; simpl in *; try reflexivity; try lia.
  rewrite IH by lia. reflexivity.
Qed.

Lemma substring_length : forall s n, (n <= String.length s)%nat -> String.length (substring 0 n s) = n.
Proof.
  induction s as [|a s IH]; intros [|n] H; simpl in *; try reflexivity; try lia.
  rewrite IH by lia. reflexivity.
Qed.

Lemma string_laws : body_laws slen stake EmptyString.
Proof.
  split.
  - intros b. unfold slen. lia.
  - reflexivity.
  - intros n b H. unfold stake, slen in *. apply substring_all. lia.
  - intros n b H. unfold stake, slen in *. rewrite substring_length; lia.
  - intros [|a b]; reflexivity.
Qed.

Lemma len_laws : body_laws nlen ntake 0%N.
Proof.
  split; unfold nlen, ntake.
  - intros b. lia.
  - reflexivity.
  - intros n b H. lia.
  - intros n b H. lia.
  - intros b. cbn. apply N.min_0_l.
Qed.

(** the source's DefaultMaxPayloadSize is the 4 MB of the statement (re-checked whenever
    gen/GenBody.v changes) *)
Lemma default_is_spec : default_max_payload = spec_default.
Proof. reflexivity. Qed.

Lemma norm_spec : forall l, spec_norm l = norm_limit l.
Proof. intros l. unfold spec_norm, norm_limit. rewrite default_is_spec. reflexivity. Qed.

(** *** generic lemmas *)
Section Laws.
  Context {B : Type} (blen : B -> Z) (btake : Z -> B -> B) (bnil : B) (beq : B -> B -> bool).
  Hypothesis L : body_laws blen btake bnil.
  Hypothesis Heq : forall a b, beq a b = true <-> a = b.

  Notation fetch := (fetch_payload blen btake bnil).
  Notation srcw := (src_of_wire blen btake bnil).
  Notation srv := (serve blen btake bnil).
  Notation resp_ := (respond blen btake bnil).

  Lemma beq_refl : forall b, beq b b = true.
  Proof. intros b. apply Heq. reflexivity. Qed.

  (** a well-framed message of [body]: announced with its exact length, or chunked with last-chunk *)
  Definition exact_cl (body : B) : wire B := {| w_enc := EncCL (blen body); w_sent := body |}.
  Definition chunked (body : B) (term : bool) : wire B := {| w_enc := EncChunked term; w_sent := body |}.

  Lemma fetch_at_limit : forall limit body,
    0 <= norm_limit limit -> blen body <= norm_limit limit ->
    fetch limit (srcw (exact_cl body)) = Payload body /\
    fetch limit (srcw (chunked body true)) = Payload body.
  Proof.
    intros limit body Hl Hb. pose proof (bl_nonneg _ _ _ L body) as Hn.
    unfold fetch_payload, src_of_wire, exact_cl, chunked; cbn [w_enc w_sent].
    destruct (blen body <=? blen body) eqn:E1; [|lia].
    cbn [s_decl s_bytes s_clean].
    rewrite (bl_take_all _ _ _ L) by lia.
    split.
    - destruct (norm_limit limit <? 0) eqn:E2; [lia|].
      destruct (norm_limit limit <? blen body) eqn:E3; [lia|].
      destruct (0 <? blen body) eqn:E4.
      + rewrite E1. rewrite (bl_take_all _ _ _ L) by lia. reflexivity.
      + destruct (blen body =? 0) eqn:E5; [|lia].
        f_equal. rewrite <- (bl_take_all _ _ _ L 0 body) by lia.
        symmetry. apply (bl_take_zero _ _ _ L).
    - destruct (norm_limit limit <? 0) eqn:E2; [lia|].
      destruct (norm_limit limit <? -1) eqn:E3; [lia|].
      destruct (0 <? -1) eqn:E4; [lia|]. destruct (-1 =? 0) eqn:E5; [lia|].
      destruct (blen body <? norm_limit limit) eqn:E6; [reflexivity|].
      destruct (norm_limit limit <? blen body) eqn:E7; [lia|]. reflexivity.
  Qed.

  Lemma fetch_over_limit : forall limit,
    0 <= norm_limit limit ->
    (forall d sent, norm_limit limit < d ->
       fetch limit (srcw {| w_enc := EncCL d; w_sent := sent |}) = TooLarge) /\
    (forall sent term, norm_limit limit < blen sent ->
       fetch limit (srcw (chunked sent term)) = TooLarge).
  Proof.
    intros limit Hl. split.
    - intros d sent Hd. unfold fetch_payload, src_of_wire; cbn [w_enc w_sent].
      destruct (d <=? blen sent); cbn [s_decl];
        (destruct (norm_limit limit <? 0) eqn:E2; [lia|]);
        (destruct (norm_limit limit <? d) eqn:E3; [reflexivity|lia]).
    - intros sent term Hs. unfold fetch_payload, src_of_wire, chunked; cbn [w_enc w_sent s_decl s_bytes s_clean].
      destruct (norm_limit limit <? 0) eqn:E2; [lia|].
      destruct (norm_limit limit <? -1) eqn:E3; [lia|].
      destruct (0 <? -1) eqn:E4; [lia|]. destruct (-1 =? 0) eqn:E5; [lia|].
      destruct (blen sent <? norm_limit limit) eqn:E6; [lia|].
      destruct (norm_limit limit <? blen sent) eqn:E7; [reflexivity|lia].
  Qed.

  Lemma fetch_negative : forall limit s, limit < 0 -> fetch limit s = Streamed.
  Proof.
    intros limit s H. unfold fetch_payload, norm_limit.
    destruct (limit =? 0) eqn:E; [lia|]. destruct (limit <? 0) eqn:E2; [reflexivity|lia].
  Qed.

  Lemma fetch_zero_default : forall s, fetch 0 s = fetch default_max_payload s.
  Proof.
    intros s. unfold fetch_payload, norm_limit. cbn [Z.eqb].
    destruct (default_max_payload =? 0) eqn:E; reflexivity.
  Qed.

  Lemma effective_spec : forall inner outer,
    (inner <> 0 -> effective inner outer = inner) /\ (inner = 0 -> effective inner outer = outer).
  Proof. intros inner outer. unfold effective. destruct (inner =? 0) eqn:E; split; intros; lia. Qed.

  Lemma serve_depends_on_effective : forall cfg cfg' req st resp,
    effective (c_path cfg) (c_srv cfg) = effective (c_path cfg') (c_srv cfg') ->
    effective (c_pool cfg) (c_proxy cfg) = effective (c_pool cfg') (c_proxy cfg') ->
    srv cfg req st resp = srv cfg' req st resp.
  Proof.
    intros cfg cfg' req st resp H1 H2. unfold serve, respond. rewrite H1, H2. reflexivity.
  Qed.

  (** *** the checker is sound for the model: every clause holds of [serve]'s own outcome *)

  Ltac lim l := unfold fetch_payload; destruct (l <? 0) eqn:?E.

  Lemma src_decl_cl : forall d sent, s_decl (srcw {| w_enc := EncCL d; w_sent := sent |}) = d.
  Proof. intros. unfold src_of_wire; cbn [w_enc w_sent]. destruct (d <=? blen sent); reflexivity. Qed.

  (** fetch of a request/response that is complete and fits: payload = the framed body;
      or streamed with a clean source carrying the framed body *)
  Lemma fetch_fits : forall limit w,
    enc_wf (w_enc w) = true -> wire_complete blen w = true -> fits blen (norm_limit limit) w = true ->
    (0 <= norm_limit limit /\ fetch limit (srcw w) = Payload (wire_body btake bnil w)) \/
    (norm_limit limit < 0 /\ fetch limit (srcw w) = Streamed /\ s_clean (srcw w) = true /\
     s_bytes (srcw w) = wire_body btake bnil w /\ (s_decl (srcw w) <? 0) || s_clean (srcw w) = true).
  Proof.
    intros limit [e sent] Hwf Hc Hf. unfold fits, wire_len, wire_complete, wire_body, enc_wf in *.
    cbn [w_enc w_sent] in *. pose proof (bl_nonneg _ _ _ L sent) as Hn.
    unfold fetch_payload. destruct (norm_limit limit <? 0) eqn:E0.
    - right. split; [lia|]. split; [reflexivity|].
      unfold src_of_wire; cbn [w_enc w_sent]. destruct e as [d|t| |]; cbn [s_clean s_bytes s_decl].
      + rewrite Hc. cbn. repeat split; auto. rewrite orb_true_r. reflexivity.
      + subst t. cbn. repeat split; auto.
      + cbn. repeat split; auto.
      + cbn. repeat split; auto.
    - left. split; [lia|].
      unfold src_of_wire; cbn [w_enc w_sent]. destruct e as [d|t| |]; cbn [s_clean s_bytes s_decl].
      + rewrite Hc. cbn [s_clean s_bytes s_decl].
        destruct (norm_limit limit <? d) eqn:E1; [lia|].
        destruct (0 <? d) eqn:E2.
        * rewrite (bl_take_len _ _ _ L) by lia.
          destruct (d <=? d) eqn:E3; [|lia].
          rewrite (bl_take_all _ _ _ L d (btake d sent)); [reflexivity|].
          rewrite (bl_take_len _ _ _ L) by lia. lia.
        * destruct (d =? 0) eqn:E3; [|lia]. assert (d = 0) by lia. subst d.
          rewrite (bl_take_zero _ _ _ L). reflexivity.
      + subst t.
        destruct (norm_limit limit <? -1) eqn:E1; [lia|].
        destruct (0 <? -1) eqn:E2; [lia|]. destruct (-1 =? 0) eqn:E3; [lia|].
        destruct (blen sent <? norm_limit limit) eqn:E4; [reflexivity|].
        destruct (norm_limit limit <? blen sent) eqn:E5; [lia|]. reflexivity.
      + destruct (norm_limit limit <? 0) eqn:E1; [lia|]. reflexivity.
      + destruct (norm_limit limit <? -1) eqn:E1; [lia|].
        destruct (0 <? -1) eqn:E2; [lia|]. destruct (-1 =? 0) eqn:E3; [lia|].
        destruct (blen sent <? norm_limit limit) eqn:E4; [reflexivity|].
        destruct (norm_limit limit <? blen sent) eqn:E5; [lia|]. reflexivity.
  Qed.

  Lemma fetch_over : forall limit w,
    over blen (norm_limit limit) w = true -> fetch limit (srcw w) = TooLarge.
  Proof.
    intros limit [e sent] Ho. unfold over, wire_len in Ho. cbn [w_enc w_sent] in Ho.
    pose proof (bl_nonneg _ _ _ L sent) as Hn.
    assert (H0 : 0 <= norm_limit limit) by lia.
    destruct (fetch_over_limit limit H0) as [Hcl Hch].
    destruct e as [d|t| |].
    - apply Hcl. lia.
    - apply (Hch sent t). lia.
    - lia.
    - (* close-delimited: same source as chunked with last-chunk *)
      replace (srcw {| w_enc := EncClose; w_sent := sent |}) with (srcw (chunked sent true)) by reflexivity.
      apply Hch. lia.
  Qed.

  (** a body shorter than announced, not over the limit: read error, or an unclean stream *)
  Lemma fetch_short : forall limit w,
    enc_wf (w_enc w) = true -> wire_short blen w = true -> over blen (norm_limit limit) w = false ->
    (0 <= norm_limit limit /\ fetch limit (srcw w) = ReadErr) \/
    (norm_limit limit < 0 /\ fetch limit (srcw w) = Streamed /\ s_clean (srcw w) = false /\ 0 <= s_decl (srcw w)).
  Proof.
    intros limit [e sent] Hwf Hs Ho. unfold wire_short, over, wire_len, enc_wf in *. cbn [w_enc w_sent] in *.
    destruct e as [d|t| |]; try discriminate.
    pose proof (bl_nonneg _ _ _ L sent) as Hn.
    unfold fetch_payload, src_of_wire; cbn [w_enc w_sent].
    destruct (d <=? blen sent) eqn:E; [lia|]. cbn [s_decl s_bytes s_clean].
    destruct (norm_limit limit <? 0) eqn:E0.
    - right. repeat split; try reflexivity; lia.
    - left. split; [lia|].
      destruct (norm_limit limit <? d) eqn:E1; [lia|].
      destruct (0 <? d) eqn:E2; [|lia]. rewrite E. reflexivity.
  Qed.

  Lemma implb_intro : forall a b : bool, (a = true -> b = true) -> implb a b = true.
  Proof. intros [|] b H; cbn; auto. Qed.

  Lemma respond_sound : forall cfg got st resp heads,
    enc_wf (w_enc resp) = true ->
    let o := obs_of bnil (resp_ cfg got st resp) heads in
    let seff := norm_limit (effective (c_pool cfg) (c_proxy cfg)) in
    implb (over blen seff resp) ((500 <=? ob_status o) && (ob_status o <? 600) && beq (ob_body o) bnil) = true /\
    implb (wire_complete blen resp && fits blen seff resp)
          ((ob_status o =? st) && beq (ob_body o) (wire_body btake bnil resp) && ob_frame o) = true /\
    implb (wire_short blen resp && negb (over blen seff resp)) ((400 <=? ob_status o) || negb (ob_frame o)) = true /\
    o_dispatched (resp_ cfg got st resp) = true /\ o_backend (resp_ cfg got st resp) = Some got.
  Proof.
    intros cfg got st resp heads Hwf o seff. subst o seff. unfold respond.
    set (lim := effective (c_pool cfg) (c_proxy cfg)).
    repeat split.
    - apply implb_intro. intros Ho. rewrite (fetch_over lim resp Ho). cbn.
      rewrite beq_refl. reflexivity.
    - apply implb_intro. intros H. apply andb_true_iff in H as [Hc Hf].
      destruct (fetch_fits lim resp Hwf Hc Hf) as [[_ E]|[_ [E [Hcl [Hb Hfr]]]]]; rewrite E; cbn.
      + rewrite Z.eqb_refl, beq_refl. reflexivity.
      + rewrite Z.eqb_refl, Hb, beq_refl, Hfr. reflexivity.
    - apply implb_intro. intros H. apply andb_true_iff in H as [Hs Ho].
      apply negb_true_iff in Ho.
      destruct (fetch_short lim resp Hwf Hs Ho) as [[_ E]|[_ [E [Hcl Hd]]]]; rewrite E; cbn.
      + reflexivity.
      + rewrite Hcl. destruct (s_decl (srcw resp) <? 0) eqn:E2; [lia|]. cbn. apply orb_true_r.
    - destruct (fetch lim (srcw resp)); reflexivity.
    - destruct (fetch lim (srcw resp)); reflexivity.
  Qed.

  Lemma checker_sound_norm : forall cfg req st resp heads,
    heads_ok (srv cfg req st resp) heads = true ->
    prop_serve_with blen btake bnil beq norm_limit cfg req st resp (obs_of bnil (srv cfg req st resp) heads) = true.
  Proof.
    intros cfg req st resp heads Hh. unfold prop_serve_with.
    destruct (enc_wf (w_enc req) && enc_wf (w_enc resp)) eqn:Ewf; [|reflexivity].
    apply andb_true_iff in Ewf as [Wq Wp]. cbn [negb].
    set (lim := effective (c_path cfg) (c_srv cfg)).
    set (ceff := norm_limit lim).
    set (seff := norm_limit (effective (c_pool cfg) (c_proxy cfg))).
    destruct (over blen ceff req) eqn:Eo.
    - (* oversized: 413, undispatched *)
      assert (E : srv cfg req st resp = fail bnil 413 false).
      { unfold serve. fold lim. rewrite (fetch_over lim req Eo). reflexivity. }
      rewrite E in *. cbn in Hh. cbn [implb obs_of fail o_status o_backend ob_status ob_heads ob_complete].
      assert (Hp : wire_complete blen req && fits blen ceff req = false).
      { unfold over, fits in *. lia. }
      rewrite Hp. cbn [implb]. cbn [andb negb]. rewrite andb_false_r. cbn [implb].
      rewrite Hh. reflexivity.
    - cbn [implb negb andb]. rewrite andb_true_r.
      destruct (wire_complete blen req && fits blen ceff req) eqn:Ep.
      + apply andb_true_iff in Ep as [Hc Hf].
        assert (Hns : wire_short blen req = false).
        { unfold wire_short, wire_complete in *. destruct (w_enc req); try reflexivity. lia. }
        rewrite Hns. cbn [andb implb].
        assert (E : exists got, srv cfg req st resp = resp_ cfg got st resp /\ got = wire_body btake bnil req).
        { unfold serve. fold lim.
          destruct (fetch_fits lim req Wq Hc Hf) as [[_ E]|[_ [E [Hcl [Hb _]]]]]; rewrite E.
          - eexists. split; reflexivity.
          - rewrite Hcl. eexists. split; [reflexivity|exact Hb]. }
        destruct E as [got [E Hg]]. rewrite E.
        destruct (respond_sound cfg got st resp heads Wp) as [R1 [R2 [R3 [R4 R5]]]].
        fold seff in R1, R2, R3. rewrite R1, R2, R3.
        cbn [obs_of ob_complete ob_bbody]. rewrite R5. subst got. rewrite beq_refl. reflexivity.
      + cbn [implb].
        destruct (wire_short blen req) eqn:Es; [|reflexivity]. cbn [andb implb].
        assert (Eo' : over blen (norm_limit lim) req = false) by exact Eo.
        unfold serve. fold lim.
        destruct (fetch_short lim req Wq Es Eo') as [[_ E]|[_ [E [Hcl Hd]]]]; rewrite E.
        * reflexivity.
        * rewrite Hcl. reflexivity.
  Qed.

  Theorem checker_sound : forall cfg req st resp heads,
    heads_ok (srv cfg req st resp) heads = true ->
    prop_serve blen btake bnil beq cfg req st resp (obs_of bnil (srv cfg req st resp) heads) = true.
  Proof.
    intros cfg req st resp heads Hh. rewrite <- (checker_sound_norm cfg req st resp heads Hh).
    unfold prop_serve, prop_serve_with. rewrite !norm_spec. reflexivity.
  Qed.

  (** *** the clauses, stated directly on [serve] *)

  Theorem oversized_request_413 : forall cfg req st resp,
    over blen (norm_limit (effective (c_path cfg) (c_srv cfg))) req = true ->
    srv cfg req st resp = fail bnil 413 false.
  Proof.
    intros cfg req st resp Ho. unfold serve. rewrite (fetch_over _ req Ho). reflexivity.
  Qed.

  Lemma respond_backend : forall cfg got st resp,
    o_dispatched (resp_ cfg got st resp) = true /\ o_backend (resp_ cfg got st resp) = Some got.
  Proof.
    intros. unfold respond. destruct (fetch _ (srcw resp)); split; reflexivity.
  Qed.

  Theorem within_limit_forwarded : forall cfg req st resp,
    enc_wf (w_enc req) = true -> wire_complete blen req = true ->
    fits blen (norm_limit (effective (c_path cfg) (c_srv cfg))) req = true ->
    o_dispatched (srv cfg req st resp) = true /\
    o_backend (srv cfg req st resp) = Some (wire_body btake bnil req).
  Proof.
    intros cfg req st resp Wq Hc Hf. unfold serve.
    destruct (fetch_fits _ req Wq Hc Hf) as [[_ E]|[_ [E [Hcl [Hb _]]]]]; rewrite E.
    - apply respond_backend.
    - rewrite Hcl, Hb. apply respond_backend.
  Qed.

  (** the request was accepted and the backend received [wire_body req] *)
  Definition accepted (cfg : config) (req : wire B) : Prop :=
    enc_wf (w_enc req) = true /\ wire_complete blen req = true /\
    fits blen (norm_limit (effective (c_path cfg) (c_srv cfg))) req = true.

  Lemma accepted_serve : forall cfg req st resp, accepted cfg req ->
    srv cfg req st resp = resp_ cfg (wire_body btake bnil req) st resp.
  Proof.
    intros cfg req st resp [Wq [Hc Hf]]. unfold serve.
    destruct (fetch_fits _ req Wq Hc Hf) as [[_ E]|[_ [E [Hcl [Hb _]]]]]; rewrite E.
    - reflexivity.
    - rewrite Hcl, Hb. reflexivity.
  Qed.

  Theorem short_request_is_error : forall cfg req st resp,
    enc_wf (w_enc req) = true -> wire_short blen req = true ->
    400 <= o_status (srv cfg req st resp) < 500 /\ o_backend (srv cfg req st resp) = None /\
    o_body (srv cfg req st resp) = bnil.
  Proof.
    intros cfg req st resp Wq Hs. unfold serve.
    destruct (over blen (norm_limit (effective (c_path cfg) (c_srv cfg))) req) eqn:Eo.
    - rewrite (fetch_over _ req Eo). cbn. repeat split; lia.
    - destruct (fetch_short _ req Wq Hs Eo) as [[_ E]|[_ [E [Hcl Hd]]]]; rewrite E.
      + cbn. repeat split; lia.
      + rewrite Hcl. cbn. repeat split; lia.
  Qed.

  Theorem big_response_withheld : forall cfg req st resp, accepted cfg req ->
    over blen (norm_limit (effective (c_pool cfg) (c_proxy cfg))) resp = true ->
    o_status (srv cfg req st resp) = 500 /\ o_body (srv cfg req st resp) = bnil.
  Proof.
    intros cfg req st resp Ha Ho. rewrite (accepted_serve _ _ _ _ Ha). unfold respond.
    rewrite (fetch_over _ resp Ho). split; reflexivity.
  Qed.

  Theorem response_within_limit_delivered : forall cfg req st resp, accepted cfg req ->
    enc_wf (w_enc resp) = true -> wire_complete blen resp = true ->
    fits blen (norm_limit (effective (c_pool cfg) (c_proxy cfg))) resp = true ->
    o_status (srv cfg req st resp) = st /\ o_body (srv cfg req st resp) = wire_body btake bnil resp /\
    o_frame_ok (srv cfg req st resp) = true.
  Proof.
    intros cfg req st resp Ha Wp Hc Hf. rewrite (accepted_serve _ _ _ _ Ha). unfold respond.
    destruct (fetch_fits _ resp Wp Hc Hf) as [[_ E]|[_ [E [Hcl [Hb Hfr]]]]]; rewrite E; cbn.
    - repeat split.
    - rewrite Hb, Hfr. repeat split.
  Qed.

  (** a response shorter than announced: buffered -> 500 with an empty body;
      streamed (-1) -> the framing the client sees is broken.  Never a well-framed success. *)
  Theorem short_response_not_a_success : forall cfg req st resp, accepted cfg req ->
    enc_wf (w_enc resp) = true -> wire_short blen resp = true ->
    let o := srv cfg req st resp in
    (o_status o = 500 /\ o_body o = bnil) \/
    (norm_limit (effective (c_pool cfg) (c_proxy cfg)) < 0 /\ o_frame_ok o = false).
  Proof.
    intros cfg req st resp Ha Wp Hs o. subst o. rewrite (accepted_serve _ _ _ _ Ha). unfold respond.
    destruct (over blen (norm_limit (effective (c_pool cfg) (c_proxy cfg))) resp) eqn:Eo.
    - rewrite (fetch_over _ resp Eo). left. split; reflexivity.
    - destruct (fetch_short _ resp Wp Hs Eo) as [[_ E]|[Hn [E [Hcl Hd]]]]; rewrite E.
      + left. split; reflexivity.
      + right. split; [exact Hn|]. cbn. rewrite Hcl.
        destruct (s_decl (srcw resp) <? 0) eqn:E2; [lia|]. reflexivity.
  Qed.

  (** *** histories with reloads and a memoryCache: the limit in force *)
  Definition seff_of (g : config * Z) : Z := norm_limit (effective (c_pool (fst g)) (c_proxy (fst g))).

  Lemma fetch_payload_bound : forall limit s b,
    fetch limit s = Payload b -> blen b <= norm_limit limit.
  Proof.
    intros limit [d bytes cl] b H. unfold fetch_payload in H. cbn [s_decl s_bytes s_clean] in H.
    pose proof (bl_nonneg _ _ _ L bytes) as Hn.
    destruct (norm_limit limit <? 0) eqn:E0; [discriminate|].
    destruct (norm_limit limit <? d) eqn:E1; [discriminate|].
    destruct (0 <? d) eqn:E2.
    - destruct (d <=? blen bytes) eqn:E3; [|discriminate]. inversion H as [Hb].
      rewrite (bl_take_len _ _ _ L) by lia. lia.
    - destruct (d =? 0) eqn:E3.
      + inversion H as [Hb]. rewrite <- Hb, (bl_nil _ _ _ L). lia.
      + destruct (blen bytes <? norm_limit limit) eqn:E4.
        * destruct cl; inversion H as [Hb]; rewrite <- Hb; lia.
        * destruct (norm_limit limit <? blen bytes) eqn:E5; [discriminate|].
          destruct cl; inversion H as [Hb]; rewrite <- Hb; lia.
  Qed.

  Lemma fetch_streamed_negative : forall limit s, fetch limit s = Streamed -> norm_limit limit < 0.
  Proof.
    intros limit s H. unfold fetch_payload in H.
    destruct (norm_limit limit <? 0) eqn:E0; [lia|].
    destruct (norm_limit limit <? s_decl s); [discriminate|].
    destruct (0 <? s_decl s); [destruct (s_decl s <=? blen (s_bytes s)); discriminate|].
    destruct (s_decl s =? 0); [discriminate|].
    destruct (blen (s_bytes s) <? norm_limit limit); [destruct (s_clean s); discriminate|].
    destruct (norm_limit limit <? blen (s_bytes s)); [discriminate|]. destruct (s_clean s); discriminate.
  Qed.

  Lemma respond_body_bound : forall cfg got st resp,
    0 <= norm_limit (effective (c_pool cfg) (c_proxy cfg)) ->
    blen (o_body (resp_ cfg got st resp)) <= norm_limit (effective (c_pool cfg) (c_proxy cfg)).
  Proof.
    intros cfg got st resp H. unfold respond.
    destruct (fetch (effective (c_pool cfg) (c_proxy cfg)) (srcw resp)) as [b| | |] eqn:E; cbn [o_body].
    - apply (fetch_payload_bound _ _ _ E).
    - rewrite (bl_nil _ _ _ L). exact H.
    - rewrite (bl_nil _ _ _ L). exact H.
    - apply fetch_streamed_negative in E. lia.
  Qed.

  Lemma serve_body_bound : forall cfg req st resp,
    0 <= norm_limit (effective (c_pool cfg) (c_proxy cfg)) ->
    blen (o_body (srv cfg req st resp)) <= norm_limit (effective (c_pool cfg) (c_proxy cfg)).
  Proof.
    intros cfg req st resp H. unfold serve.
    assert (F : forall code d, blen (o_body (fail bnil code d)) <= norm_limit (effective (c_pool cfg) (c_proxy cfg))).
    { intros code d. unfold fail. cbn [o_body]. rewrite (bl_nil _ _ _ L). exact H. }
    destruct (fetch (effective (c_path cfg) (c_srv cfg)) (srcw req)).
    - apply respond_body_bound, H.
    - apply F.
    - apply F.
    - destruct (s_clean (srcw req)); [apply respond_body_bound, H|apply F].
  Qed.

  (** every entry of the cache fits the response limit of the generation that holds it *)
  Definition cache_fits (g : config * Z) (st : option (Z * B)) : Prop :=
    forall ent, st = Some ent -> 0 <= seff_of g /\ blen (snd ent) <= seff_of g.

  Lemma hstep_bound : forall g st get req status resp,
    cache_fits g st ->
    (0 <= seff_of g -> blen (o_body (fst (hstep blen btake bnil g st get req status resp))) <= seff_of g) /\
    cache_fits g (snd (hstep blen btake bnil g st get req status resp)).
  Proof.
    intros g st get req status resp Hc. unfold hstep.
    pose proof (serve_body_bound (fst g) req status resp) as Hb. fold (seff_of g) in Hb.
    destruct st as [ent|].
    - destruct (o_dispatched (srv (fst g) req status resp) && get && (0 <? snd g)); cbn [fst snd].
      + split; [intros H; apply (Hc ent eq_refl)|exact Hc].
      + split; [exact Hb|exact Hc].
    - cbn [fst snd]. split; [exact Hb|].
      match goal with |- cache_fits _ (if ?c then _ else _) => destruct c eqn:E end; [|intros ent H; discriminate].
      intros ent H. inversion H. subst ent. cbn [snd].
      repeat (apply andb_true_iff in E as [E ?]).
      assert (Hz : 0 <= seff_of g) by (unfold seff_of; lia). split; [exact Hz|apply Hb, Hz].
  Qed.

  Fixpoint bounded (l : list ((config * Z) * bool * wire B * Z * wire B)) (outs : list (outcome B)) : Prop :=
    match l, outs with
    | [], [] => True
    | (g, _, _, _, _) :: l', o :: outs' => (0 <= seff_of g -> blen (o_body o) <= seff_of g) /\ bounded l' outs'
    | _, _ => False
    end.

  (** across any sequence of mux and pipeline reloads, with or without a memoryCache, a body
      delivered under a non-negative effective serverMaxBodySize never exceeds THAT limit -
      the one of the generation that serves the request, also when it comes from the cache *)
  Theorem limit_in_force : forall l, bounded l (hrun blen btake bnil None None l).
  Proof.
    assert (G : forall l prev st, (forall p, prev = Some p -> cache_fits p st) ->
                bounded l (hrun blen btake bnil prev st l)).
    { induction l as [|[[[[g get] req] status] resp] t IH]; intros prev st Hp; cbn [hrun bounded]; [exact I|].
      set (st0 := match prev with Some p => if pipe_same p g then st else None | None => None end).
      assert (H0 : cache_fits g st0).
      { subst st0. destruct prev as [p|]; [|intros ent H; discriminate].
        destruct (pipe_same p g) eqn:E; [|intros ent H; discriminate].
        intros ent H. destruct (Hp p eq_refl ent H) as [A Bd].
        unfold pipe_same in E. apply andb_true_iff in E as [E _]. apply andb_true_iff in E as [E1 E2].
        unfold seff_of in *. assert (Q1 : c_pool (fst p) = c_pool (fst g)) by lia.
        assert (Q2 : c_proxy (fst p) = c_proxy (fst g)) by lia. rewrite <- Q1, <- Q2. split; assumption. }
      destruct (hstep_bound g st0 get req status resp H0) as [Hb Hc].
      destruct (hstep blen btake bnil g st0 get req status resp) as [o st1]. cbn [fst snd] in *.
      cbn [bounded]. split; [exact Hb|]. apply IH. intros p Hpe. inversion Hpe. subst p. exact Hc. }
    intros l. apply G. intros p H. discriminate.
  Qed.
End Laws.

(** *** the length-level model is the image of any byte-level model *)
Section Hom.
  Context {B B' : Type} (blen : B -> Z) (btake : Z -> B -> B) (bnil : B)
          (blen' : B' -> Z) (btake' : Z -> B' -> B') (bnil' : B') (h : B -> B').
  Hypothesis Hlen : forall b, blen' (h b) = blen b.
  Hypothesis Htake : forall n b, h (btake n b) = btake' n (h b).
  Hypothesis Hnil : h bnil = bnil'.

  Definition map_wire (w : wire B) : wire B' := {| w_enc := w_enc w; w_sent := h (w_sent w) |}.
  Definition map_src (s : src B) : src B' :=
    {| s_decl := s_decl s; s_bytes := h (s_bytes s); s_clean := s_clean s |}.
  Definition map_fetched (f : fetched B) : fetched B' :=
    match f with Payload b => Payload (h b) | TooLarge => TooLarge | ReadErr => ReadErr | Streamed => Streamed end.
  Definition map_outcome (o : outcome B) : outcome B' :=
    {| o_status := o_status o; o_body := h (o_body o); o_frame_ok := o_frame_ok o;
       o_dispatched := o_dispatched o;
       o_backend := match o_backend o with Some b => Some (h b) | None => None end |}.

  Lemma src_hom : forall w, src_of_wire blen' btake' bnil' (map_wire w) = map_src (src_of_wire blen btake bnil w).
  Proof.
    intros [e sent]. unfold src_of_wire, map_wire, map_src; cbn [w_enc w_sent].
    destruct e as [d|t| |]; cbn [s_decl s_bytes s_clean]; try rewrite Hnil; try reflexivity.
    rewrite Hlen. destruct (d <=? blen sent); cbn [s_decl s_bytes s_clean]; rewrite ?Htake; reflexivity.
  Qed.

  Lemma fetch_hom : forall limit s,
    fetch_payload blen' btake' bnil' limit (map_src s) = map_fetched (fetch_payload blen btake bnil limit s).
  Proof.
    intros limit [d b c]. unfold fetch_payload, map_src; cbn [s_decl s_bytes s_clean]. rewrite Hlen.
    destruct (norm_limit limit <? 0); [reflexivity|].
    destruct (norm_limit limit <? d); [reflexivity|].
    destruct (0 <? d).
    { destruct (d <=? blen b); cbn [map_fetched]; rewrite ?Htake; reflexivity. }
    destruct (d =? 0); [cbn [map_fetched]; rewrite Hnil; reflexivity|].
    destruct (blen b <? norm_limit limit); [destruct c; reflexivity|].
    destruct (norm_limit limit <? blen b); [reflexivity|]. destruct c; reflexivity.
  Qed.

  Lemma respond_hom : forall cfg got st resp,
    respond blen' btake' bnil' cfg (h got) st (map_wire resp) = map_outcome (respond blen btake bnil cfg got st resp).
  Proof.
    intros. unfold respond. rewrite src_hom, fetch_hom.
    destruct (fetch_payload blen btake bnil _ (src_of_wire blen btake bnil resp));
      cbn [map_fetched map_outcome o_status o_body o_frame_ok o_dispatched o_backend map_src s_decl s_bytes s_clean];
      rewrite <- ?Hnil; reflexivity.
  Qed.

  Theorem serve_hom : forall cfg req st resp,
    serve blen' btake' bnil' cfg (map_wire req) st (map_wire resp) = map_outcome (serve blen btake bnil cfg req st resp).
  Proof.
    intros. unfold serve. rewrite src_hom, fetch_hom.
    destruct (fetch_payload blen btake bnil _ (src_of_wire blen btake bnil req)); cbn [map_fetched].
    - apply respond_hom.
    - unfold fail, map_outcome; cbn. rewrite <- Hnil. reflexivity.
    - unfold fail, map_outcome; cbn. rewrite <- Hnil. reflexivity.
    - cbn [map_src s_clean s_bytes]. destruct (s_clean (src_of_wire blen btake bnil req)).
      + apply respond_hom.
      + unfold fail, map_outcome; cbn. rewrite <- Hnil. reflexivity.
  Qed.
End Hom.

Definition list_len_N {A} (l : list A) : N := N.of_nat (List.length l).

Theorem len_model_agrees : forall A cfg (req : wire (list A)) st resp,
  serve nlen ntake 0%N cfg (map_wire list_len_N req) st (map_wire list_len_N resp)
  = map_outcome list_len_N (serve zlen ztake [] cfg req st resp).
Proof.
  intros A. apply serve_hom.
  - intros b. unfold nlen, list_len_N, zlen. lia.
  - intros n b. unfold ntake, list_len_N, ztake. rewrite firstn_length. lia.
  - reflexivity.
Qed.

(** *** the clauses for bodies as lists of bytes of any type [A] (what props/C07.v states) *)
Section ListInstance.
  Context {A : Type}.
  Notation LW := (wire (list A)).
  Definition cl_exact (body : list A) : LW := {| w_enc := EncCL (zlen body); w_sent := body |}.
  Definition chunked_l (body : list A) (term : bool) : LW := {| w_enc := EncChunked term; w_sent := body |}.
  Definition client_limit (cfg : config) : Z := norm_limit (effective (c_path cfg) (c_srv cfg)).
  Definition server_limit (cfg : config) : Z := norm_limit (effective (c_pool cfg) (c_proxy cfg)).
  Definition accepted_l (cfg : config) (req : LW) : Prop := accepted zlen cfg req.

  Lemma l_at_limit : forall limit (body : list A),
    0 <= norm_limit limit -> zlen body <= norm_limit limit ->
    fetch_list limit (src_list (cl_exact body)) = Payload body /\
    fetch_list limit (src_list (chunked_l body true)) = Payload body.
  Proof. exact (fetch_at_limit zlen ztake [] list_laws). Qed.

  Lemma l_over_limit : forall limit, 0 <= norm_limit limit ->
    (forall d (sent : list A), norm_limit limit < d ->
       fetch_list limit (src_list {| w_enc := EncCL d; w_sent := sent |}) = TooLarge) /\
    (forall (sent : list A) term, norm_limit limit < zlen sent ->
       fetch_list limit (src_list (chunked_l sent term)) = TooLarge).
  Proof. exact (fetch_over_limit zlen ztake []). Qed.

  Lemma l_negative : forall limit (s : src (list A)), limit < 0 -> fetch_list limit s = Streamed.
  Proof. exact (fetch_negative zlen ztake []). Qed.

  Lemma l_zero_default : forall (s : src (list A)), fetch_list 0 s = fetch_list default_max_payload s.
  Proof. exact (fetch_zero_default zlen ztake []). Qed.

  Lemma l_precedence :
    (forall inner outer, (inner <> 0 -> effective inner outer = inner) /\ (inner = 0 -> effective inner outer = outer)) /\
    (forall cfg cfg' (req : LW) st resp,
       effective (c_path cfg) (c_srv cfg) = effective (c_path cfg') (c_srv cfg') ->
       effective (c_pool cfg) (c_proxy cfg) = effective (c_pool cfg') (c_proxy cfg') ->
       serve_list cfg req st resp = serve_list cfg' req st resp).
  Proof. split; [exact effective_spec | exact (serve_depends_on_effective zlen ztake [])]. Qed.

  Lemma l_413 : forall cfg (req : LW) st resp,
    over zlen (client_limit cfg) req = true ->
    serve_list cfg req st resp =
    {| o_status := 413; o_body := []; o_frame_ok := true; o_dispatched := false; o_backend := None |}.
  Proof. exact (oversized_request_413 zlen ztake [] list_laws). Qed.

  Lemma l_within : forall cfg (req : LW) st resp, accepted_l cfg req ->
    o_dispatched (serve_list cfg req st resp) = true /\
    o_backend (serve_list cfg req st resp) = Some (wire_body ztake [] req).
  Proof.
    intros cfg req st resp [W [C F]]. exact (within_limit_forwarded zlen ztake [] list_laws cfg req st resp W C F).
  Qed.

  Lemma l_short : 
    (forall cfg (req : LW) st resp,
       enc_wf (w_enc req) = true -> wire_short zlen req = true ->
       400 <= o_status (serve_list cfg req st resp) < 500 /\ o_backend (serve_list cfg req st resp) = None /\
       o_body (serve_list cfg req st resp) = []) /\
    (forall cfg (req : LW) st resp, accepted_l cfg req ->
       enc_wf (w_enc resp) = true -> wire_short zlen resp = true ->
       let o := serve_list cfg req st resp in
       (o_status o = 500 /\ o_body o = []) \/ (server_limit cfg < 0 /\ o_frame_ok o = false)).
  Proof.
    split; [exact (short_request_is_error zlen ztake [] list_laws)
           | exact (short_response_not_a_success zlen ztake [] list_laws)].
  Qed.

  Lemma l_big_response : forall cfg (req : LW) st resp, accepted_l cfg req ->
    over zlen (server_limit cfg) resp = true ->
    o_status (serve_list cfg req st resp) = 500 /\ o_body (serve_list cfg req st resp) = [].
  Proof. exact (big_response_withheld zlen ztake [] list_laws). Qed.

  Lemma l_response_ok : forall cfg (req : LW) st resp, accepted_l cfg req ->
    enc_wf (w_enc resp) = true -> wire_complete zlen resp = true -> fits zlen (server_limit cfg) resp = true ->
    o_status (serve_list cfg req st resp) = st /\ o_body (serve_list cfg req st resp) = wire_body ztake [] resp /\
    o_frame_ok (serve_list cfg req st resp) = true.
  Proof. exact (response_within_limit_delivered zlen ztake [] list_laws). Qed.

  Lemma l_limit_in_force : forall (l : list ((config * Z) * bool * LW * Z * LW)),
    bounded zlen l (hrun zlen ztake [] None None l).
  Proof. exact (limit_in_force zlen ztake [] list_laws). Qed.
End ListInstance.

(** non-vacuity of [limit_in_force]: cached under 1000, limit lowered to 100, same GET again:
    the new generation starts with an empty cache, asks the backend and answers 500 *)
Example reload_cache_nonvacuous :
  let g1 := ({| c_srv := 0; c_path := 0; c_pool := 0; c_proxy := 1000 |}, 2000) in
  let g2 := ({| c_srv := 0; c_path := 0; c_pool := 0; c_proxy := 100 |}, 2000) in
  let get := {| w_enc := EncNone; w_sent := [] |} in
  let ans := cl_exact (repeat 7%N 600) in
  map (fun o => (o_status o, zlen (o_body o), match o_backend o with Some _ => true | None => false end))
      (hrun zlen ztake [] None None [(g1, true, get, 200, ans); (g1, true, get, 200, ans); (g2, true, get, 200, ans)])
  = [(200, 600, true); (200, 600, false); (500, 0, true)].
Proof. vm_compute. reflexivity. Qed.

(** non-vacuity: a 16-byte limit at path level over a 64-byte server limit; a 16-byte body
    passes in both framings, a 17-byte one is refused, and the clauses' hypotheses are
    satisfiable *)
Example body_nonvacuous :
  let cfg := {| c_srv := 64; c_path := 16; c_pool := 0; c_proxy := -1 |} in
  let b16 := repeat 7%N 16 in
  let b17 := repeat 7%N 17 in
  accepted_l cfg (cl_exact b16) /\ accepted_l cfg (chunked_l b16 true) /\
  over zlen (client_limit cfg) (chunked_l b17 true) = true /\
  over zlen (client_limit cfg) (cl_exact b17) = true /\
  o_status (serve_list cfg (cl_exact b16) 200 (cl_exact b17)) = 200 /\
  o_status (serve_list cfg (cl_exact b17) 200 (cl_exact b17)) = 413 /\
  wire_short zlen {| w_enc := EncCL 9; w_sent := b16 ++ b16 |} = false /\
  wire_short zlen {| w_enc := EncCL 40; w_sent := b16 |} = true /\
  o_frame_ok (serve_list cfg (cl_exact b16) 200 {| w_enc := EncCL 40; w_sent := b16 |}) = false /\
  o_status (serve_list {| c_srv := 64; c_path := 16; c_pool := 20; c_proxy := -1 |}
                       (cl_exact b16) 200 {| w_enc := EncCL 40; w_sent := b16 |}) = 500.
Proof. cbv zeta. unfold accepted_l, accepted. repeat split; vm_compute; reflexivity. Qed.
