(** C17 proofs, part 2: the property clauses for the HTTP side (Semaphore + LimitListener). *)
From EG.lib Require Import Base.
From EG.model Require Import Sem.
From EG.proofs Require Import SemProofs.
From Coq Require Import ZifyBool.
Open Scope Z_scope.

Definition reachable (s : lstate) : Prop :=
  exists sz n ls, 0 < sz /\ 0 <= n /\ Forall label_ok ls /\ s = lrun ideal (linit ideal sz n) ls.

Lemma reachable_Inv s : reachable s -> Inv s.
Proof. intros (sz & n & ls & H1 & H2 & H3 & ->). now apply reachable_inv. Qed.

Lemma reachable_step s l : reachable s -> label_ok l -> reachable (lstep ideal s l).
Proof.
  intros (sz & n & ls & H1 & H2 & H3 & ->) Hl. exists sz, n, (ls ++ [l]). repeat split; auto.
  - apply Forall_app. split; auto.
  - unfold lrun. now rewrite fold_left_app.
Qed.

(** ** the accounting invariant, as stated in DESIGN *)
Lemma accounting s : reachable s ->
  cur (ws s) = size (ws s) - applied_cap s + used s /\
  applied_cap s <= size (ws s) /\ 0 <= cur (ws s) <= size (ws s) /\
  crashed s = false /\ panics s = 0 /\ doomed s = 0.
Proof.
  intros R. pose proof (reachable_Inv _ R) as I. pose proof (inv_cur_nonneg _ I).
  destruct I. unfold used. repeat split; auto; lia.
Qed.

(** ** the cap *)

Lemma settled_spec s : settled s = true <-> pend s = [] /\ count_who WAdj (wq (ws s)) = 0.
Proof.
  unfold settled. rewrite andb_true_iff. split.
  - intros [H1 H2]. split; [destruct (pend s); [auto|discriminate] | lia].
  - intros [H1 H2]. rewrite H1. split; [reflexivity | lia].
Qed.

Lemma settled_applied s : Inv s -> settled s = true -> applied_cap s = real s.
Proof.
  intros I S. apply settled_spec in S as [P Q]. unfold applied_cap. rewrite P.
  rewrite (count_adj_zero_qshr _ _ (i_wq s I) Q). cbn. lia.
Qed.

(** in every reachable state: permits in use never exceed what the semaphore's bookkeeping
    implements; with no capacity change outstanding that is exactly realCapacity *)
Lemma cap_general s : reachable s -> used s <= applied_cap s.
Proof. intros R. destruct (accounting _ R) as (A & B & C & _). lia. Qed.

Lemma cap_settled s : reachable s -> settled s = true -> used s <= real s.
Proof.
  intros R S. pose proof (cap_general _ R). rewrite (settled_applied _ (reachable_Inv _ R) S) in H. exact H.
Qed.

(** ** what a Release can wake *)

Lemma count_acc_le_wsum sz q : wq_ok sz q -> count_who WAcc q <= wsum q - qshr q.
Proof. intros H. rewrite (wsum_split _ _ H). lia. Qed.

(** a caller's release in a state that satisfies the invariant: effect on [used] *)
Lemma l_release_used s0 n :
  cur (ws s0) - n >= 0 ->
  exists wk rest c',
    notify (size (ws s0)) (cur (ws s0) - n) (wq (ws s0)) = (c', wk, rest) /\
    used (l_release s0 n) = used s0 + count_who WAcc wk /\
    opened (l_release s0 n) = opened s0 /\ real (l_release s0 n) = real s0 /\
    pend (l_release s0 n) = pend s0.
Proof.
  intros H. unfold l_release. destruct (cur (ws s0) - n <? 0) eqn:E; [lia|].
  destruct (notify _ _ _) as [[c' wk] rest] eqn:N. exists wk, rest, c'. split; auto.
  unfold used, olen, wake, set_ws. cbn. repeat split; lia.
Qed.

(** nothing is woken when the head of the queue is a shrink that still does not fit, and when
    it fits exactly nothing behind it fits *)
Lemma notify_behind_shrink sz c q c' wk rest x n t :
  wq_ok sz q -> q = (x, n) :: t -> x = WAdj -> sz - c <= n -> c <= sz ->
  notify sz c q = (c', wk, rest) -> count_who WAcc wk = 0.
Proof.
  intros Hq -> -> Hn Hc N. cbn [notify] in N.
  destruct (sz - c <? n) eqn:E.
  - inversion N; subst. reflexivity.
  - destruct (notify sz (c + n) t) as [[c1 wk1] r1] eqn:N1. inversion N; subst.
    inversion Hq as [|? ? Hw Ht]; subst.
    assert (Hcn : c + n <= sz) by lia.
    pose proof (notify_room _ _ _ _ _ _ N1 Hcn) as Hroom.
    destruct (notify_spec _ _ _ _ _ _ N1) as (Hs & _).
    rewrite Hs in Ht. apply wq_ok_app in Ht as [Hwk _].
    pose proof (count_acc_le_wsum _ _ Hwk). pose proof (qshr_nonneg _ _ Hwk).
    pose proof (count_who_nonneg WAcc wk1).
    rewrite count_who_cons. cbn [fst who_eqb]. lia.
Qed.

(** at most [sz - c] acquirers are woken *)
Lemma notify_acc_bound sz c q c' wk rest :
  wq_ok sz q -> c <= sz -> notify sz c q = (c', wk, rest) -> count_who WAcc wk <= sz - c.
Proof.
  intros Hq Hc N. pose proof (notify_room _ _ _ _ _ _ N Hc).
  destruct (notify_spec _ _ _ _ _ _ N) as (Hs & _). rewrite Hs in Hq. apply wq_ok_app in Hq as [Hwk _].
  pose proof (count_acc_le_wsum _ _ Hwk). pose proof (qshr_nonneg _ _ Hwk). lia.
Qed.

(** ** no growth while a shrink heads the queue *)



Lemma zsum_nonpos p : only_shrinks p -> zsum p <= 0.
Proof. induction 1 as [|d p Hd _ IH]; [rewrite zsum_nil; lia | rewrite zsum_cons; lia]. Qed.

Lemma over_cap_at_shrink_head s :
  reachable s -> only_shrinks (pend s) -> shrink_at_head s -> real s < used s.
Proof.
  intros R P (n & t & Q). pose proof (reachable_Inv _ R) as I.
  pose proof (i_head s I) as Hh. rewrite Q in Hh. cbn [head_blocked snd] in Hh.
  pose proof (i_acct s I) as A. pose proof (i_wq s I) as W. rewrite Q in W.
  inversion W as [|? ? Hw Wt]; subst. pose proof (qshr_nonneg _ _ Wt).
  pose proof (zsum_nonpos _ P). unfold applied_cap in A. rewrite Q, qshr_cons in A. cbn [fst snd] in A.
  unfold used. lia.
Qed.

Lemma no_growth_at_shrink_head s l :
  reachable s -> only_shrinks (pend s) -> shrink_at_head s ->
  used (lstep ideal s l) <= used s.
Proof.
  intros R P (n & t & Q). pose proof (reachable_Inv _ R) as I.
  pose proof (inv_cur_nonneg _ I) as Hc0.
  destruct I as [Hsz Hcr Hpa Hdo Hre Hhe Hacct Hcap Hcur Hwq Hhd Hpe Hnd Hdj].
  rewrite Q in Hhd. cbn [head_blocked snd] in Hhd.
  pose proof (olen_nonneg s) as Hol.
  unfold lstep. rewrite Hcr.
  destruct l as [ | c | | c | m | i].
  - (* LAcquire: the queue is not empty *)
    unfold w_acquire. rewrite Q. cbn [is_nil]. rewrite andb_false_r.
    destruct (size (ws s) <? 1); unfold used, olen, set_ws; cbn; lia.
  - destruct ((0 <? held s) && negb (mem_N c (opened s)) && negb (mem_N c (closed s)));
      unfold used, olen; cbn [held opened List.length]; lia.
  - (* LFail *)
    destruct (0 <? held s) eqn:G; [|lia].
    match goal with |- used (l_release ?s0 1) <= _ => set (s0' := s0) end.
    assert (Hu : used s0' = used s - 1) by (unfold used, olen, s0'; cbn; lia).
    assert (Hcur1 : cur (ws s0') - 1 >= 0).
    { unfold s0'. cbn [ws]. unfold applied_cap, olen in *. lia. }
    destruct (l_release_used s0' 1 Hcur1) as (wk & rest & c' & N & U & _).
    unfold s0' in N. cbn [ws] in N.
    assert (Hb1 : size (ws s) - (cur (ws s) - 1) <= n) by lia.
    assert (Hb2 : cur (ws s) - 1 <= size (ws s)) by lia.
    pose proof (notify_behind_shrink _ _ _ _ _ _ _ _ _ Hwq Q eq_refl Hb1 Hb2 N) as Z0.
    lia.
  - (* LClose *)
    destruct (mem_N c (opened s)) eqn:G; [|lia].
    apply mem_N_In in G. pose proof (length_remove_N c _ Hnd G) as HL.
    match goal with |- used (l_release ?s0 1) <= _ => set (s0' := s0) end.
    assert (Hu : used s0' = used s - 1) by (unfold used, olen, s0'; cbn [held opened]; lia).
    assert (Hcur1 : cur (ws s0') - 1 >= 0).
    { unfold s0'. cbn [ws]. unfold applied_cap, olen in *. lia. }
    destruct (l_release_used s0' 1 Hcur1) as (wk & rest & c' & N & U & _).
    unfold s0' in N. cbn [ws] in N.
    assert (Hb1 : size (ws s) - (cur (ws s) - 1) <= n) by lia.
    assert (Hb2 : cur (ws s) - 1 <= size (ws s)) by lia.
    pose proof (notify_behind_shrink _ _ _ _ _ _ _ _ _ Hwq Q eq_refl Hb1 Hb2 N) as Z0.
    lia.
  - unfold used, olen. cbn. lia.
  - (* LRun: only shrinks are pending, and they queue up behind the head *)
    destruct (nth_error (pend s) i) as [d|] eqn:Ei; [|lia].
    pose proof (nth_error_Forall _ _ _ _ P Ei) as Hd. cbn beta in Hd.
    destruct (0 <? d) eqn:Dp; [lia|].
    destruct (d <? 0) eqn:Dn.
    + unfold w_acquire, set_pend.
      cbn [ws size cur wq real pend held opened closed ndone doomed panics crashed].
      rewrite Q. cbn [is_nil]. rewrite andb_false_r.
      destruct (size (ws s) <? - d); unfold used, olen, set_ws; cbn; lia.
    + unfold used, olen, set_pend. cbn. lia.
Qed.

(** a later acquirer queues up behind any waiting shrink (FIFO) *)
Lemma later_acquirer_blocks s :
  0 < count_who WAdj (wq (ws s)) -> crashed s = false ->
  used (lstep ideal s LAcquire) = used s /\
  (doomed (lstep ideal s LAcquire) = doomed s ->
   wq (ws (lstep ideal s LAcquire)) = wq (ws s) ++ [(WAcc, 1)]).
Proof.
  intros H Hcr. unfold lstep. rewrite Hcr. unfold w_acquire.
  destruct (wq (ws s)) as [|w t] eqn:Q; [rewrite count_who_nil in H; lia|].
  cbn [is_nil]. rewrite andb_false_r.
  destruct (size (ws s) <? 1); unfold used, olen, set_ws; cbn; split; auto; try lia.
Qed.

(** ** once a change has been applied: nothing is accepted at or above the cap *)
Lemma no_accept_at_cap s l :
  reachable s -> settled s = true -> real s <= used s -> used (lstep ideal s l) <= used s.
Proof.
  intros R S Hfull. pose proof (reachable_Inv _ R) as I.
  pose proof (cap_settled _ R S) as Hle.
  pose proof (settled_applied _ I S) as Happ.
  apply settled_spec in S as [Pe Qz].
  destruct I as [Hsz Hcr Hpa Hdo Hre Hhe Hacct Hcap Hcur Hwq Hhd Hpe Hnd Hdj].
  pose proof (olen_nonneg s) as Hol.
  assert (Hfullcur : cur (ws s) = size (ws s)) by (unfold used in *; lia).
  unfold lstep. rewrite Hcr.
  destruct l as [ | c | | c | m | i].
  - unfold w_acquire.
    replace (1 <=? size (ws s) - cur (ws s)) with false by lia. cbn [andb].
    destruct (size (ws s) <? 1); unfold used, olen, set_ws; cbn; lia.
  - destruct ((0 <? held s) && negb (mem_N c (opened s)) && negb (mem_N c (closed s)));
      unfold used, olen; cbn [held opened List.length]; lia.
  - destruct (0 <? held s) eqn:G; [|lia].
    match goal with |- used (l_release ?s0 1) <= _ => set (s0' := s0) end.
    assert (Hu : used s0' = used s - 1) by (unfold used, olen, s0'; cbn; lia).
    assert (Hcur1 : cur (ws s0') - 1 >= 0) by (unfold s0'; cbn [ws]; lia).
    destruct (l_release_used s0' 1 Hcur1) as (wk & rest & c' & N & U & _).
    unfold s0' in N. cbn [ws] in N.
    assert (Hb2 : cur (ws s) - 1 <= size (ws s)) by lia.
    pose proof (notify_acc_bound _ _ _ _ _ _ Hwq Hb2 N). lia.
  - destruct (mem_N c (opened s)) eqn:G; [|lia].
    apply mem_N_In in G. pose proof (length_remove_N c _ Hnd G) as HL.
    match goal with |- used (l_release ?s0 1) <= _ => set (s0' := s0) end.
    assert (Hu : used s0' = used s - 1) by (unfold used, olen, s0'; cbn [held opened]; lia).
    assert (Hcur1 : cur (ws s0') - 1 >= 0) by (unfold s0'; cbn [ws]; lia).
    destruct (l_release_used s0' 1 Hcur1) as (wk & rest & c' & N & U & _).
    unfold s0' in N. cbn [ws] in N.
    assert (Hb2 : cur (ws s) - 1 <= size (ws s)) by lia.
    pose proof (notify_acc_bound _ _ _ _ _ _ Hwq Hb2 N). lia.
  - unfold used, olen. cbn. lia.
  - rewrite Pe. destruct i; cbn [nth_error]; lia.
Qed.

(** ** no established connection is dropped (any quirks, any state) *)
Lemma opened_l_release s n : opened (l_release s n) = opened s.
Proof.
  unfold l_release. destruct (cur (ws s) - n <? 0); [reflexivity|].
  destruct (notify _ _ _) as [[c' wk] rest]. reflexivity.
Qed.

Lemma no_drop q s l c : In c (opened s) -> l <> LClose c -> In c (opened (lstep q s l)).
Proof.
  intros Hin Hne. unfold lstep. destruct (crashed s); auto.
  destruct l as [ | c' | | c' | m | i].
  - destruct (w_acquire (ws s) WAcc 1) as [w []]; auto.
  - destruct ((0 <? held s) && negb (mem_N c' (opened s)) && negb (mem_N c' (closed s))); auto.
    cbn [opened]. now right.
  - destruct (0 <? held s); auto. now rewrite opened_l_release.
  - destruct (mem_N c' (opened s)); auto. rewrite opened_l_release. cbn [opened].
    apply In_remove_N. split; auto. congruence.
  - auto.
  - destruct (nth_error (pend s) i) as [d|]; auto.
    destruct (0 <? d).
    + destruct (q_grow_release_unchecked q).
      * destruct (cur (ws s) - d <? 0); cbn [opened]; auto. now rewrite opened_l_release.
      * destruct (pool s <? d); auto. cbn [opened]. now rewrite opened_l_release.
    + destruct (d <? 0); auto.
      destruct (w_acquire (ws (set_pend s (remove_nth i (pend s)))) WAdj (- d)) as [w []]; auto.
Qed.

(** ** released capacity is reusable *)

(** nobody waits while a permit is free (settled states) *)
Lemma no_waiter_while_free s :
  reachable s -> settled s = true -> wq (ws s) <> [] -> used s = real s.
Proof.
  intros R S Q. pose proof (reachable_Inv _ R) as I.
  pose proof (cap_settled _ R S). pose proof (settled_applied _ I S) as Happ.
  destruct I as [Hsz Hcr Hpa Hdo Hre Hhe Hacct Hcap Hcur Hwq Hhd Hpe Hnd Hdj].
  destruct (wq (ws s)) as [|[x n] t] eqn:E; [congruence|].
  cbn [head_blocked snd] in Hhd. inversion Hwq as [|? ? Hw _]; subst.
  apply settled_spec in S as [_ Qz]. rewrite E, count_who_cons in Qz. cbn [fst] in Qz.
  pose proof (count_who_nonneg WAdj t).
  unfold waiter_ok in Hw. cbn [fst snd] in Hw. destruct x; cbn [who_eqb] in Qz; [|lia].
  unfold used in *. lia.
Qed.

(** closing an open connection hands its permit to the longest waiting acceptor at once ... *)
Lemma close_wakes_waiter s c t :
  reachable s -> settled s = true -> In c (opened s) -> wq (ws s) = (WAcc, 1) :: t ->
  held (lstep ideal s (LClose c)) = held s + 1 /\
  wq (ws (lstep ideal s (LClose c))) = t /\
  used (lstep ideal s (LClose c)) = used s.
Proof.
  intros R S Hin Q. pose proof (reachable_Inv _ R) as I.
  assert (Hne : wq (ws s) <> []) by (rewrite Q; discriminate).
  pose proof (no_waiter_while_free _ R S Hne) as Hfull.
  pose proof (settled_applied _ I S) as Happ.
  destruct I as [Hsz Hcr Hpa Hdo Hre Hhe Hacct Hcap Hcur Hwq Hhd Hpe Hnd Hdj].
  pose proof (length_remove_N c _ Hnd Hin) as HL.
  assert (Hfullcur : cur (ws s) = size (ws s)) by (unfold used in *; lia).
  unfold lstep. rewrite Hcr. apply mem_N_In in Hin. rewrite Hin.
  unfold l_release. cbn [ws]. replace (cur (ws s) - 1 <? 0) with false by lia.
  rewrite Q. cbn [notify]. replace (size (ws s) - (cur (ws s) - 1) <? 1) with false by lia.
  destruct (notify (size (ws s)) (cur (ws s) - 1 + 1) t) as [[c1 wk1] r1] eqn:N.
  assert (Hnil : wk1 = [] /\ r1 = t).
  { destruct t as [|[x n] t']; cbn [notify] in N; [inversion N; auto|].
    rewrite Q in Hwq. inversion Hwq as [|? ? _ Hwt]; subst. inversion Hwt as [|? ? Hw _]; subst.
    unfold waiter_ok in Hw. cbn [fst snd] in Hw.
    replace (size (ws s) - (cur (ws s) - 1 + 1) <? n) with true in N by (destruct x; lia).
    inversion N; auto. }
  destruct Hnil as [-> ->].
  unfold wake, set_ws, used, olen. cbn. unfold olen in *. repeat split; lia.
Qed.

(** ... and with nobody waiting the next acquirer gets it immediately *)
Lemma close_then_acquire s c :
  reachable s -> settled s = true -> In c (opened s) -> wq (ws s) = [] ->
  let s1 := lstep ideal s (LClose c) in
  used s1 = used s - 1 /\ held (lstep ideal s1 LAcquire) = held s1 + 1.
Proof.
  intros R S Hin Q. pose proof (reachable_Inv _ R) as I. pose proof (inv_cur_nonneg _ I) as Hc0.
  destruct I as [Hsz Hcr Hpa Hdo Hre Hhe Hacct Hcap Hcur Hwq Hhd Hpe Hnd Hdj].
  pose proof (length_remove_N c _ Hnd Hin) as HL. pose proof (olen_nonneg s) as Hol.
  assert (Hc1 : 1 <= cur (ws s)).
  { unfold olen in *. destruct (opened s); [inversion Hin|]. cbn [List.length] in *. lia. }
  cbv zeta.
  assert (F : let s1 := lstep ideal s (LClose c) in
              used s1 = used s - 1 /\ cur (ws s1) = cur (ws s) - 1 /\ wq (ws s1) = [] /\
              crashed s1 = false /\ size (ws s1) = size (ws s)).
  { cbv zeta. unfold lstep. rewrite Hcr. pose proof Hin as Hin'. apply mem_N_In in Hin'. rewrite Hin'.
    unfold l_release. cbn [ws]. replace (cur (ws s) - 1 <? 0) with false by lia.
    rewrite Q. cbn [notify]. unfold wake, set_ws, used, olen. cbn. unfold olen in *. repeat split; auto; lia. }
  cbv zeta in F. destruct F as (F1 & F2 & F3 & F4 & F5). split; [exact F1|].
  set (s1 := lstep ideal s (LClose c)) in *.
  unfold lstep. rewrite F4. unfold w_acquire. rewrite F3, F2, F5. cbn [is_nil].
  replace (1 <=? size (ws s) - (cur (ws s) - 1)) with true by lia. cbn. lia.
Qed.

(** ** Close releases exactly once *)
Lemma close_idempotent q s c : lstep q (lstep q s (LClose c)) (LClose c) = lstep q s (LClose c).
Proof.
  remember (lstep q s (LClose c)) as r eqn:Er.
  assert (Hr : crashed r = true \/ mem_N c (opened r) = false).
  { subst r. unfold lstep. destruct (crashed s) eqn:Hcr; [left; exact Hcr|].
    destruct (mem_N c (opened s)) eqn:G; [|right; exact G].
    right. rewrite opened_l_release. cbn [opened].
    destruct (mem_N c (remove_N c (opened s))) eqn:E; auto.
    apply mem_N_In in E. apply In_remove_N in E. tauto. }
  unfold lstep. destruct Hr as [H|H]; rewrite H; [reflexivity|]. destruct (crashed r); reflexivity.
Qed.

Lemma close_of_closed_is_noop s c : reachable s -> In c (closed s) -> lstep ideal s (LClose c) = s.
Proof.
  intros R Hin. pose proof (reachable_Inv _ R) as I. unfold lstep. rewrite (i_crash s I).
  destruct (mem_N c (opened s)) eqn:G; auto. apply mem_N_In in G. exfalso. exact (i_disj s I c G Hin).
Qed.

(** exactly one permit per Close of an open connection *)
Lemma close_releases_one s c :
  reachable s -> In c (opened s) ->
  exists wk, cur (ws (lstep ideal s (LClose c))) = cur (ws s) - 1 + wsum wk /\
             wq (ws s) = wk ++ wq (ws (lstep ideal s (LClose c))).
Proof.
  intros R Hin. pose proof (reachable_Inv _ R) as I. pose proof (inv_cur_nonneg _ I) as Hc0.
  destruct I as [Hsz Hcr Hpa Hdo Hre Hhe Hacct Hcap Hcur Hwq Hhd Hpe Hnd Hdj].
  pose proof (olen_nonneg s) as Hol.
  assert (Hc1 : 1 <= cur (ws s)).
  { unfold olen in *. destruct (opened s); [inversion Hin|]. cbn [List.length] in *. lia. }
  unfold lstep. rewrite Hcr. apply mem_N_In in Hin. rewrite Hin.
  unfold l_release. cbn [ws]. replace (cur (ws s) - 1 <? 0) with false by lia.
  destruct (notify _ _ _) as [[c' wk] rest] eqn:N.
  destruct (notify_spec _ _ _ _ _ _ N) as (Hq & Hc' & _).
  exists wk. unfold wake, set_ws. cbn. split; auto.
Qed.
