(** C06 - a concrete injective oracle, refutation witnesses for the three
    defect flags, non-vacuity instances (all closed by vm_compute). *)
From EG.lib Require Import Base.
From EG.model Require Import Validator.
From EG.proofs Require Import ValidatorProofsStr ValidatorProofs.
Open Scope string_scope.

(** [toy]: "sha" = hex, "mac k m" = hex k | hex m, "base64" = identity (the
    lenient decoder drops '=' padding), JWT header segment = its alg. *)
Definition toy : oracle :=
  {| o_ck := fun s => if String.eqb s "x-me-date" then "X-Me-Date" else s;
     o_re := fun p v => String.eqb p v;
     o_b64std := fun s => Some s;
     o_jhdr := fun s => Some s;
     o_jclaims := fun _ => Some (JAbsent, JAbsent, JAbsent);
     o_b64canon := fun s => Some (strip_both (fun a => Ascii.eqb a "="%char) s);
     o_jmac := fun _ k m => hex_of_string (k ++ "|" ++ m);
     o_ptime := fun s => Some (0%Z, s, stake 8 s);
     o_puint := fun _ => Some 300%Z;
     o_sha := hex_of_string;
     o_mac := fun k m => hex_of_string k ++ "|" ++ hex_of_string m |}.

Definition ishexc (a : ascii) : bool :=
  let n := N_of_ascii a in ((48 <=? n) && (n <=? 57) || (97 <=? n) && (n <=? 102))%N.

Lemma hex2_ishex a t : all_chars ishexc t = true -> all_chars ishexc (hex2 false a t) = true.
Proof. intro H. destruct a as [[] [] [] [] [] [] [] []]; cbn; exact H. Qed.

Lemma hex_ishex s : all_chars ishexc (hex_of_string s) = true.
Proof. induction s as [|a s IH]; [reflexivity|]. cbn [hex_of_string]. apply hex2_ishex, IH. Qed.

Lemma toy_ideal : oracle_ideal toy.
Proof.
  constructor; cbn [toy o_mac o_sha].
  - intros k m k' m' E. cbn [append] in E.
    apply sep_inj in E as [E1 E2];
      try (apply (all_chars_nochar ishexc); [reflexivity|apply hex_ishex]).
    apply hex_of_string_inj in E1, E2. auto.
  - apply hex_of_string_inj.
  - intro a. apply (all_chars_nochar ishexc); [reflexivity|apply hex_ishex].
Qed.

Lemma toy_jmac_inj : forall alg k m m', o_jmac toy alg k m = o_jmac toy alg k m' -> m = m'.
Proof.
  intros alg k m m' E. cbn [toy o_jmac] in E. apply hex_of_string_inj in E.
  apply append_inv_head in E. cbn [append] in E. congruence.
Qed.

(** ** signature witnesses *)
Definition wcfg : sig_cfg :=
  {| s_lit := default_literal; s_exclude_body := false; s_ttl := 0; s_keys := [("AKID", "SECRET")] |}.

Definition wdate : string := "20220102T030405Z".

Definition wparams : sparams :=
  {| p_presign := false; p_keyid := "AKID"; p_scopes := ["payments"]; p_signed := "host;content-type;x-me-date";
     p_tag := ""; p_time := (0%Z, wdate, "20220102"); p_expire := 0%Z |}.

(** the request as the client builds it before signing; [body] is what the client hashes *)
Definition wbase (body : string) : request :=
  {| r_method := "POST"; r_escpath := "/pay"; r_query := [("memo", ["a b"])]; r_host := "example.com";
     r_headers := [("Content-Type", ["application/json"]); ("X-Me-Date", [wdate])];
     r_payload := body; r_cookie := None |}.

(** the reference client: tag over its own covered tuple (body included) *)
Definition wtag (body : string) : string :=
  expected_tag toy default_literal wparams "SECRET" (covered_of ideal toy wcfg wparams (wbase body)).

(** the request on the wire: signed for [signed_body], carrying [sent_body] *)
Definition wsent (signed_body sent_body : string) : request :=
  {| r_method := "POST"; r_escpath := "/pay"; r_query := [("memo", ["a b"])]; r_host := "example.com";
     r_headers := [("Authorization",
                    ["ME-HMAC-SHA256 Credential=AKID/20220102/payments/megaease_request, SignedHeaders=host;content-type;x-me-date, Signature="
                     ++ wtag signed_body]);
                   ("Content-Type", ["application/json"]); ("X-Me-Date", [wdate])];
     r_payload := sent_body; r_cookie := None |}.

Definition wconfig : config := {| c_headers := None; c_jwt := None; c_sig := Some wcfg; c_basic := None |}.

Definition q_sig : quirks :=
  {| q_sig_verifies_drained_body := true; q_basic_split_all_colons := false; q_jwt_sig_lenient_b64 := false |}.
Definition q_basic : quirks :=
  {| q_sig_verifies_drained_body := false; q_basic_split_all_colons := true; q_jwt_sig_lenient_b64 := false |}.
Definition q_jwt : quirks :=
  {| q_sig_verifies_drained_body := false; q_basic_split_all_colons := false; q_jwt_sig_lenient_b64 := true |}.

Lemma refuted_sig :
  (* a body added to a request signed without one passes, a correctly signed bodied request is refused *)
  handle q_sig toy wconfig (wsent "" "{evil}") 0 0 = Pass /\
  handle ideal toy wconfig (wsent "" "{evil}") 0 0 = Reject 401 3 /\
  handle q_sig toy wconfig (wsent "{good}" "{good}") 0 0 = Reject 401 3 /\
  handle ideal toy wconfig (wsent "{good}" "{good}") 0 0 = Pass.
Proof. vm_compute. repeat split; reflexivity. Qed.

(** ** basic auth witnesses *)
Definition wusers : list (string * string) := [("bob", "pa"); ("frank", "pa:ss"); ("carol", "pässwörd")].
Definition wbasic_cfg : config := {| c_headers := None; c_jwt := None; c_sig := None; c_basic := Some wusers |}.
Definition wbasic (creds : string) : request :=
  {| r_method := "GET"; r_escpath := "/"; r_query := []; r_host := "example.com";
     r_headers := [("Authorization", ["Basic " ++ creds])]; r_payload := ""; r_cookie := None |}.

Lemma refuted_basic :
  handle q_basic toy wbasic_cfg (wbasic "bob:pa:zz") 0 0 = Pass /\
  handle ideal toy wbasic_cfg (wbasic "bob:pa:zz") 0 0 = Reject 401 5 /\
  handle q_basic toy wbasic_cfg (wbasic "frank:pa:ss") 0 0 = Reject 401 5 /\
  handle ideal toy wbasic_cfg (wbasic "frank:pa:ss") 0 0 = Pass.
Proof. vm_compute. repeat split; reflexivity. Qed.

(** ** jwt witnesses *)
Definition wjwt : jwt_cfg := {| j_alg := "HS256"; j_secret := "6d79"; j_cookie := "" |}.
Definition wjwt_cfg : config := {| c_headers := None; c_jwt := Some wjwt; c_sig := None; c_basic := None |}.
Definition wtoken : string := "HS256.claims." ++ o_jmac toy "HS256" "6d79" "HS256.claims".
Definition wbearer (tok : string) : request :=
  {| r_method := "GET"; r_escpath := "/"; r_query := []; r_host := "example.com";
     r_headers := [("Authorization", ["Bearer " ++ tok])]; r_payload := ""; r_cookie := None |}.

Lemma refuted_jwt :
  handle ideal toy wjwt_cfg (wbearer wtoken) 0 0 = Pass /\
  wtoken ++ "=" <> wtoken /\
  handle q_jwt toy wjwt_cfg (wbearer (wtoken ++ "=")) 0 0 = Pass /\
  handle ideal toy wjwt_cfg (wbearer (wtoken ++ "=")) 0 0 = Reject 401 2.
Proof. vm_compute. repeat split; try reflexivity. discriminate. Qed.

(** ** non-vacuity: the hypotheses of the signature theorems hold for a concrete accepted request *)
Lemma mget_all_nonl m : Forall (fun kv : string * list string => Forall nonl (snd kv)) m ->
  forall k, Forall nonl (mget_all k m).
Proof.
  induction m as [|[k' vs] m IH]; intros F k; simpl; [constructor|].
  inversion F; subst. destruct (String.eqb k k'); auto.
Qed.

Lemma nonvacuous :
  oracle_ideal toy /\ req_wf (wsent "{good}" "{good}") /\ s_keys wcfg <> [] /\
  (exists p, init_from_request toy (s_lit wcfg) (wsent "{good}" "{good}") = Some p /\ nonl (p_signed p)) /\
  sig_ok ideal toy wcfg (wsent "{good}" "{good}") 0 = true /\
  sig_ok ideal toy wcfg (wsent "{good}" "{tampered}") 0 = false /\
  jwt_token_ok ideal toy wjwt 0 wtoken = true /\
  basic_ok ideal toy wusers (wbasic "carol:pässwörd") = true.
Proof.
  split; [exact toy_ideal|]. split.
  - constructor; try reflexivity. apply mget_all_nonl. repeat constructor.
  - split; [discriminate|]. split.
    + eexists. split; [vm_compute; reflexivity|reflexivity].
    + vm_compute. repeat split; reflexivity.
Qed.
