(** C15, fan-out: for the ideal model the set of clients served does not depend on
    the order in which the subscribers are visited; each quirk is refuted. *)
From EG.lib Require Import Base BrokerMap.
From EG.model Require Import Broker.
From Coq Require Import Permutation.
Open Scope Z_scope.

Section FanProofs.
  Variable matches : string -> bool.

  Lemma smem_In x l : existsb (String.eqb x) l = true <-> In x l.
  Proof.
    rewrite existsb_exists. split.
    - intros [y [I E]]. apply String.eqb_eq in E. subst. exact I.
    - intro I. exists x. split; [exact I | apply String.eqb_refl].
  Qed.

  Lemma nodup_s_In x l : In x (nodup_s l) <-> In x l.
  Proof.
    induction l as [|a t IH]; simpl; [tauto|].
    destruct (existsb (String.eqb a) t) eqn:E.
    - rewrite IH. split; [tauto|]. intros [H|H]; [subst; apply smem_In; exact E | exact H].
    - simpl. rewrite IH. tauto.
  Qed.

  Lemma nodup_s_NoDup l : NoDup (nodup_s l).
  Proof.
    induction l as [|a t IH]; simpl; [constructor|].
    destruct (existsb (String.eqb a) t) eqn:E; [exact IH|].
    constructor; [|exact IH]. rewrite nodup_s_In. intro I. apply smem_In in I. congruence.
  Qed.

  Lemma subscribers_spec subs c :
    In c (subscribers matches subs) <-> exists f qs, In (c, f, qs) subs /\ matches f = true.
  Proof.
    unfold subscribers. rewrite nodup_s_In, in_map_iff. split.
    - intros [[[c' f] qs] [E I]]. simpl in E. subst c'. apply filter_In in I as [I M]. simpl in M.
      exists f, qs. split; assumption.
    - intros [f [qs [I M]]]. exists (c, f, qs). split; [reflexivity|]. apply filter_In. split; assumption.
  Qed.

  Lemma subscribers_NoDup subs : NoDup (subscribers matches subs).
  Proof. apply nodup_s_NoDup. Qed.

  Lemma msubs_spec subs c x :
    In x (msubs matches subs c) <-> exists f, In (c, f, x) subs /\ matches f = true.
  Proof.
    unfold msubs. rewrite in_map_iff. split.
    - intros [[[c' f] qs] [E I]]. simpl in E. subst qs. apply filter_In in I as [I M]. simpl in M.
      apply andb_true_iff in M as [M1 M2]. apply String.eqb_eq in M1. subst c'. exists f. split; assumption.
    - intros [f [I M]]. exists (c, f, x). split; [reflexivity|]. apply filter_In. split; [exact I|].
      simpl. rewrite String.eqb_refl, M. reflexivity.
  Qed.

  Lemma max_list_ge l : forall x, In x l -> x <= max_list l.
  Proof.
    unfold max_list. induction l as [|a t IH]; simpl; intros x H; [destruct H|].
    destruct H as [E|I]; [subst; lia|].
    specialize (IH x I). lia.
  Qed.

  Lemma max_list_nonneg l : 0 <= max_list l.
  Proof. unfold max_list. induction l as [|a t IH]; simpl; lia. Qed.

  Lemma max_list_witness l qos : 0 < qos -> qos <= max_list l -> exists x, In x l /\ qos <= x.
  Proof.
    intros P. unfold max_list. induction l as [|a t IH]; simpl; intro H; [lia|].
    destruct (Z_le_gt_dec qos a) as [L|G].
    - exists a. split; [left; reflexivity | exact L].
    - destruct IH as [x [I Lx]]; [lia|]. exists x. split; [right; exact I | exact Lx].
  Qed.

  (** with the low-QoS check continuing instead of returning, the loop is a filter *)
  Lemma deliver_ideal_In q connected qos rep order c :
    q_mqtt_lowqos_return q = false ->
    In c (deliver q connected qos rep order) <-> In c order /\ qos <= rep c /\ connected c = true.
  Proof.
    intro Q. induction order as [|a t IH]; simpl; [tauto|].
    rewrite Q. destruct (rep a <? qos) eqn:E.
    - apply Z.ltb_lt in E. rewrite IH. split; [tauto|]. intros [[H|H] [H1 H2]]; [subst; lia | tauto].
    - apply Z.ltb_ge in E. destruct (connected a) eqn:C.
      + simpl. rewrite IH. split; [intros [H|H]; [subst; tauto | tauto] | tauto].
      + rewrite IH. split; [tauto|]. intros [[H|H] [H1 H2]]; [subst; congruence | tauto].
  Qed.

  Lemma deliver_sub q connected qos rep order c :
    In c (deliver q connected qos rep order) -> In c order.
  Proof.
    induction order as [|a t IH]; simpl; [tauto|].
    destruct (rep a <? qos); [destruct (q_mqtt_lowqos_return q); simpl; tauto|].
    destruct (connected a); simpl; tauto.
  Qed.

  Lemma deliver_NoDup q connected qos rep order :
    NoDup order -> NoDup (deliver q connected qos rep order).
  Proof.
    induction 1 as [|a t N ND IH]; simpl; [constructor|].
    destruct (rep a <? qos); [destruct (q_mqtt_lowqos_return q); [constructor | exact IH]|].
    destruct (connected a); [|exact IH].
    constructor; [|exact IH]. intro I. apply deliver_sub in I. contradiction.
  Qed.

  (** the theorem: every visit order that enumerates the subscriber map serves exactly
      the connected clients holding a matching subscription of QoS >= q *)
  Theorem delivery_order_independent subs connected qos choice order :
    (forall s, In s subs -> 0 <= snd s) ->
    (forall c, In c order <-> In c (subscribers matches subs)) ->
    forall c, In c (fanout matches ideal subs connected qos choice order)
              <-> eligible matches subs connected qos c.
  Proof.
    intros NN ORD c. unfold fanout, eligible.
    rewrite deliver_ideal_In by reflexivity. rewrite ORD, subscribers_spec.
    unfold reported. simpl. split.
    - intros [[f [qs [I M]]] [L C]]. split; [exact C|].
      destruct (Z_le_gt_dec qos 0) as [Le|Gt].
      + exists f, qs. repeat split; try assumption. specialize (NN _ I). simpl in NN. lia.
      + apply max_list_witness in L as [x [Ix Lx]]; [|lia].
        apply msubs_spec in Ix as [f' [I' M']]. exists f', x. tauto.
    - intros [C [f [qs [I [M L]]]]]. split; [exists f, qs; tauto|]. split; [|exact C].
      assert (In qs (msubs matches subs c)) as Iq by (apply msubs_spec; exists f; tauto).
      apply max_list_ge in Iq. lia.
  Qed.

  (** two visit orders serve the same clients, each exactly once *)
  Theorem delivery_same_set subs connected qos choice1 choice2 o1 o2 :
    (forall s, In s subs -> 0 <= snd s) ->
    NoDup o1 -> NoDup o2 ->
    (forall c, In c o1 <-> In c (subscribers matches subs)) ->
    (forall c, In c o2 <-> In c (subscribers matches subs)) ->
    Permutation (fanout matches ideal subs connected qos choice1 o1)
                (fanout matches ideal subs connected qos choice2 o2).
  Proof.
    intros NN N1 N2 O1 O2. apply NoDup_Permutation.
    - apply deliver_NoDup. exact N1.
    - apply deliver_NoDup. exact N2.
    - intro c. rewrite (delivery_order_independent subs connected qos choice1 o1 NN O1 c).
      rewrite (delivery_order_independent subs connected qos choice2 o2 NN O2 c). tauto.
  Qed.
End FanProofs.

(** a QoS-0 copy is dropped only when the queue is full: see BrokerProofsSess.publish_qos0 *)

Definition only_lowqos_return : quirks :=
  {| q_mqtt_lowqos_return := true; q_mqtt_overlap_last_qos := false; q_takeover_teardown_unguarded := false |}.
Definition only_overlap_last_qos : quirks :=
  {| q_mqtt_lowqos_return := false; q_mqtt_overlap_last_qos := true; q_takeover_teardown_unguarded := false |}.

(** two subscribers of the same filter, one at QoS 0 visited first: the QoS-1 subscriber is not served *)
Theorem refuted_lowqos_return :
  exists matches subs connected qos choice order c,
    (forall s, In s subs -> 0 <= snd s) /\
    (forall x, In x order <-> In x (subscribers matches subs)) /\
    eligible matches subs connected qos c /\
    ~ In c (fanout matches only_lowqos_return subs connected qos choice order).
Proof.
  exists (fun _ => true), [("c0", "a/b", 0); ("c1", "a/b", 1)]%string, (fun _ => true), 1,
         (fun _ => 0%nat), ["c0"; "c1"]%string, "c1"%string.
  split; [intros s [E|[E|[]]]; subst; simpl; lia|].
  split; [intro x; vm_compute; tauto|].
  split.
  - split; [reflexivity|]. exists "a/b"%string, 1. split; [right; left; reflexivity|]. split; [reflexivity | lia].
  - vm_compute. tauto.
Qed.

(** one client, subscriptions a/# at QoS 1 and a/b at QoS 0, the latter visited last: not served at QoS 1 *)
Theorem refuted_overlap_last_qos :
  exists matches subs connected qos choice order c,
    (forall s, In s subs -> 0 <= snd s) /\
    (forall x, In x order <-> In x (subscribers matches subs)) /\
    eligible matches subs connected qos c /\
    ~ In c (fanout matches only_overlap_last_qos subs connected qos choice order).
Proof.
  exists (fun _ => true), [("c0", "a/#", 1); ("c0", "a/b", 0)]%string, (fun _ => true), 1,
         (fun _ => 1%nat), ["c0"]%string, "c0"%string.
  split; [intros s [E|[E|[]]]; subst; simpl; lia|].
  split; [intro x; vm_compute; tauto|].
  split.
  - split; [reflexivity|]. exists "a/#"%string, 1. split; [left; reflexivity|]. split; [reflexivity | lia].
  - vm_compute. tauto.
Qed.

Example fan_nonvacuous :
  let m := fun f => orb (String.eqb f "a/b") (String.eqb f "a/+") in
  let subs := [("c0", "a/b", 0); ("c1", "a/+", 1); ("c2", "a/b", 1); ("c2", "x", 0)]%string in
  fanout m ideal subs (fun c => negb (String.eqb c "c2")) 1 (fun _ => 0%nat) ["c2"; "c0"; "c1"]%string = ["c1"]%string
  /\ subscribers m subs = ["c0"; "c1"; "c2"]%string.
Proof. vm_compute. split; reflexivity. Qed.
