(** C15, session side: retransmission until PUBACK, none afterwards, packet ids,
    QoS-0 drop only when full, client PUBLISH -> backend + PUBACK with the same id. *)
From EG.lib Require Import Base BrokerMap.
From EG.model Require Import RL Session.
Open Scope Z_scope.

Notation zget_set_same := (aget_aset_same Z.eqb z_eqb_spec).
Notation zget_set_other := (aget_aset_other Z.eqb z_eqb_spec).
Notation zget_del_same := (aget_adel_same Z.eqb).
Notation zget_del_other := (aget_adel_other Z.eqb z_eqb_spec).

(** ** QoS 0 *)
Lemma publish_qos0 s m full :
  snd (publish s 0 m full) = if full then [] else [Pkt (nextID s) 0 m].
Proof. reflexivity. Qed.

Lemma qos0_drop_only_if_full s m full :
  snd (publish s 0 m full) = [] <-> full = true.
Proof. rewrite publish_qos0. destruct full; split; intro H; try reflexivity; discriminate. Qed.

Lemma publish_qos1 s m full :
  snd (publish s 1 m full) = [Pkt (nextID s) 1 m] /\
  zget (nextID s) (pending (fst (publish s 1 m full))) = Some m.
Proof. unfold publish; simpl. split; [reflexivity | apply zget_set_same]. Qed.

(** ** the queue and the oldest pending message *)
Definition nonpending (p : list (Z * msg)) (l : list Z) : Prop := forall j, In j l -> zget j p = None.

Lemma drop_acked_found p l1 id t :
  nonpending p l1 -> zget id p <> None -> drop_acked p (l1 ++ id :: t) = id :: t.
Proof.
  induction l1 as [|a l IH]; simpl; intros NP H.
  - destruct (zget id p); [reflexivity | contradiction].
  - rewrite (NP a (or_introl eq_refl)). apply IH; [|exact H]. intros j I. apply NP. right. exact I.
Qed.

Lemma drop_acked_spec p qu :
  match drop_acked p qu with
  | [] => nonpending p qu
  | id :: t => exists l1, qu = l1 ++ id :: t /\ nonpending p l1 /\ zget id p <> None
  end.
Proof.
  induction qu as [|a l IH]; simpl.
  - intros j [].
  - destruct (zget a p) eqn:E.
    + exists []. split; [reflexivity|]. split; [intros j []|]. congruence.
    + destruct (drop_acked p l) as [|id t].
      * intros j [H|H]; [subst; exact E | apply IH; exact H].
      * destruct IH as [l1 [Q [NP H]]]. exists (a :: l1). split; [simpl; rewrite Q; reflexivity|].
        split; [|exact H]. intros j [J|J]; [subst; exact E | apply NP; exact J].
Qed.

Lemma oldest_spec s id m :
  oldest s = Some (id, m) <->
  exists l1 t, queue s = l1 ++ id :: t /\ nonpending (pending s) l1 /\ zget id (pending s) = Some m.
Proof.
  unfold oldest. split.
  - pose proof (drop_acked_spec (pending s) (queue s)) as D.
    destruct (drop_acked (pending s) (queue s)) as [|i t]; [discriminate|].
    destruct D as [l1 [Q [NP H]]]. destruct (zget i (pending s)) eqn:E; [|discriminate].
    intro X. inversion X; subst. exists l1, t. tauto.
  - intros [l1 [t [Q [NP H]]]]. rewrite Q, drop_acked_found; [rewrite H; reflexivity | exact NP | congruence].
Qed.

(** every pending id is still in the queue *)
Definition wf (s : sess) : Prop := forall id m, zget id (pending s) = Some m -> In id (queue s).

Lemma wf0 : wf sess0.
Proof. intros id m H. discriminate. Qed.

Lemma pending_nil_get (p : list (Z * msg)) : p <> [] -> exists id m, zget id p = Some m.
Proof.
  destruct p as [|[k v] t]; [congruence|]. intros _. exists k, v. simpl. rewrite Z.eqb_refl. reflexivity.
Qed.

Lemma wf_step s o : wf s -> wf (fst (sstep s o)).
Proof.
  intro W. destruct o as [q m full|id|]; simpl.
  - unfold publish. destruct (q =? 0); [exact W|]. destruct (q =? 1); [|exact W].
    unfold wf; simpl. intros id m' H. apply in_or_app. destruct (Z.eq_dec id (nextID s)) as [E|N].
    + right. left. symmetry. exact E.
    + left. rewrite zget_set_other in H by exact N. exact (W _ _ H).
  - intros j m H. simpl in H. destruct (Z.eq_dec j id) as [E|N].
    + subst. rewrite zget_del_same in H. discriminate.
    + rewrite zget_del_other in H by exact N. exact (W _ _ H).
  - unfold tick. destruct (pending s) as [|x p'] eqn:P; [intros j m H; discriminate|].
    rewrite <- P.
    pose proof (drop_acked_spec (pending s) (queue s)) as D.
    destruct (drop_acked (pending s) (queue s)) as [|i t] eqn:E; [exact W|].
    destruct D as [l1 [Q [NP H]]]. unfold wf; simpl. intros j m Hj.
    pose proof (W j m Hj) as I.
    rewrite Q in I. apply in_app_or in I as [I|I]; [|exact I].
    rewrite (NP j I) in Hj. discriminate.
Qed.

Lemma wf_run s ops : wf s -> wf (sfinal s ops).
Proof.
  unfold sfinal. revert s. induction ops as [|o t IH]; intros s W; simpl; [exact W|].
  pose proof (wf_step s o W) as W1. destruct (sstep s o) as [s1 e1]. simpl in W1.
  specialize (IH s1 W1). destruct (srun s1 t) as [s2 e2]. exact IH.
Qed.

(** a pending message has an oldest pending message in front of it (possibly itself) *)
Lemma pending_has_oldest s id m : wf s -> zget id (pending s) = Some m -> exists o, oldest s = Some o.
Proof.
  intros W H. unfold oldest. pose proof (drop_acked_spec (pending s) (queue s)) as D.
  destruct (drop_acked (pending s) (queue s)) as [|i t].
  - rewrite (D id (W _ _ H)) in H. discriminate.
  - destruct D as [l1 [Q [NP X]]]. destruct (zget i (pending s)) as [mi|]; [exists (i, mi); reflexivity | contradiction].
Qed.

(** every pending message becomes the oldest once its predecessors in the queue are acknowledged *)
Lemma becomes_oldest s id m l1 t :
  queue s = l1 ++ id :: t -> nonpending (pending s) l1 -> zget id (pending s) = Some m ->
  oldest s = Some (id, m).
Proof. intros Q NP H. apply oldest_spec. exists l1, t. tauto. Qed.

(** one firing of the ticker re-emits the oldest pending message, same id, same payload, and
    leaves it pending *)
Lemma tick_emits_oldest s id m :
  oldest s = Some (id, m) ->
  snd (tick s) = [Pkt id 1 m] /\ pending (fst (tick s)) = pending s /\ oldest (fst (tick s)) = Some (id, m).
Proof.
  intro O. pose proof O as O2. apply oldest_spec in O as [l1 [t [Q [NP H]]]].
  unfold tick. destruct (pending s) as [|x p'] eqn:P; [discriminate|].
  rewrite <- P in NP, H |- *.
  rewrite Q, drop_acked_found; [|exact NP | congruence].
  rewrite H. simpl. split; [reflexivity|]. split; [reflexivity|].
  apply oldest_spec. exists [], t. simpl. split; [reflexivity|]. split; [intros j []|exact H].
Qed.

(** ** retransmission until acknowledged *)

(** the further history contains neither the PUBACK of [id] nor a QoS-1 publish whose fresh packet id
    collides with an id still in the queue (impossible with fewer than 2^16 publishes, [fresh_if_few]) *)
Fixpoint no_ack_no_reuse (id : Z) (s : sess) (ops : list sop) : Prop :=
  match ops with
  | [] => True
  | o :: t =>
      match o with
      | SPuback j => j <> id
      | SPublish q _ _ => q = 1 -> ~ In (nextID s) (queue s)
      | STick => True
      end /\ no_ack_no_reuse id (fst (sstep s o)) t
  end.

(** what the ticker firings of a history emit, firing by firing *)
Fixpoint tick_outputs (s : sess) (ops : list sop) : list (list emit) :=
  match ops with
  | [] => []
  | o :: t =>
      match o with
      | STick => [snd (tick s)]
      | _ => []
      end ++ tick_outputs (fst (sstep s o)) t
  end.

Lemma oldest_preserved s o id m :
  wf s -> oldest s = Some (id, m) ->
  match o with
  | SPuback j => j <> id
  | SPublish q _ _ => q = 1 -> ~ In (nextID s) (queue s)
  | STick => True
  end ->
  oldest (fst (sstep s o)) = Some (id, m).
Proof.
  intros W O C. destruct o as [q m' full|j|]; simpl.
  - unfold publish. destruct (q =? 0) eqn:Q0; [exact O|]. destruct (q =? 1) eqn:Q1; [|exact O].
    apply Z.eqb_eq in Q1. specialize (C Q1). simpl.
    apply oldest_spec in O as [l1 [t [Q [NP H]]]]. apply oldest_spec. simpl.
    exists l1, (t ++ [nextID s]). split; [rewrite Q, <- app_assoc; reflexivity|].
    assert (forall j, In j (queue s) -> j <> nextID s) as F by (intros j I E; subst; contradiction).
    split.
    + intros j I. rewrite zget_set_other; [apply NP; exact I|]. apply F. rewrite Q. apply in_or_app. left. exact I.
    + rewrite zget_set_other; [exact H|]. apply F. rewrite Q. apply in_or_app. right. left. reflexivity.
  - apply oldest_spec in O as [l1 [t [Q [NP H]]]]. apply oldest_spec. simpl.
    exists l1, t. split; [exact Q|]. split.
    + intros i I. destruct (Z.eq_dec i j) as [E|N]; [subst; apply zget_del_same|].
      rewrite zget_del_other by exact N. apply NP. exact I.
    + rewrite zget_del_other; [exact H|]. intro E. subst. contradiction.
  - apply (tick_emits_oldest s id m O).
Qed.

Theorem resend_until_ack s id m ops :
  wf s -> oldest s = Some (id, m) -> no_ack_no_reuse id s ops ->
  Forall (fun e => e = [Pkt id 1 m]) (tick_outputs s ops) /\
  oldest (sfinal s ops) = Some (id, m).
Proof.
  unfold sfinal. revert s. induction ops as [|o t IH]; intros s W O C; simpl.
  - split; [constructor | exact O].
  - destruct C as [C1 C2].
    pose proof (oldest_preserved s o id m W O C1) as O1.
    pose proof (wf_step s o W) as W1.
    destruct (IH _ W1 O1 C2) as [F1 F2].
    split.
    + apply Forall_app. split; [|exact F1].
      destruct o; try constructor; [|constructor]. apply (tick_emits_oldest s id m O).
    + destruct (sstep s o) as [s1 e1]. simpl in *. destruct (srun s1 t) as [s2 e2]. exact F2.
Qed.

(** a pending message stays pending, with its payload, until its own PUBACK (or until its id is reused) *)
Fixpoint no_ack_no_assign (id : Z) (s : sess) (ops : list sop) : Prop :=
  match ops with
  | [] => True
  | o :: t =>
      match o with
      | SPuback j => j <> id
      | SPublish q _ _ => q = 1 -> nextID s <> id
      | STick => True
      end /\ no_ack_no_assign id (fst (sstep s o)) t
  end.

Lemma pending_step_other s o id :
  match o with
  | SPuback j => j <> id
  | SPublish q _ _ => q = 1 -> nextID s <> id
  | STick => True
  end ->
  zget id (pending (fst (sstep s o))) = zget id (pending s).
Proof.
  intro C. destruct o as [q m full|j|]; simpl.
  - unfold publish. destruct (q =? 0); [reflexivity|]. destruct (q =? 1) eqn:Q1; [|reflexivity].
    apply Z.eqb_eq in Q1. simpl. apply zget_set_other. intro E. apply (C Q1). symmetry. exact E.
  - apply zget_del_other. intro E. apply C. symmetry. exact E.
  - unfold tick. destruct (pending s) eqn:P; [simpl; reflexivity|].
    destruct (drop_acked (p :: l) (queue s)); simpl; rewrite ?P; reflexivity.
Qed.

Theorem pending_until_ack s id ops :
  no_ack_no_assign id s ops -> zget id (pending (sfinal s ops)) = zget id (pending s).
Proof.
  unfold sfinal. revert s. induction ops as [|o t IH]; intros s C; simpl; [reflexivity|].
  destruct C as [C1 C2]. pose proof (pending_step_other s o id C1) as P1. specialize (IH _ C2).
  destruct (sstep s o) as [s1 e1]. simpl in *. destruct (srun s1 t) as [s2 e2]. simpl in *. congruence.
Qed.

(** ** nothing is retransmitted after the acknowledgement *)
Fixpoint no_assign (id : Z) (s : sess) (ops : list sop) : Prop :=
  match ops with
  | [] => True
  | o :: t =>
      match o with
      | SPublish _ _ _ => nextID s <> id
      | _ => True
      end /\ no_assign id (fst (sstep s o)) t
  end.

Lemma tick_emits_pending s e : In e (snd (tick s)) -> exists id m, e = Pkt id 1 m /\ zget id (pending s) = Some m.
Proof.
  unfold tick. destruct (pending s) as [|x p'] eqn:P; [intros []|]. rewrite <- P.
  destruct (drop_acked (pending s) (queue s)) as [|i t]; [intros []|].
  cbn [snd]. destruct (zget i (pending s)) eqn:E; [|intros []]. intros [H|[]]. exists i, m. rewrite <- H. tauto.
Qed.

Theorem no_emit_while_not_pending s id ops :
  zget id (pending s) = None -> no_assign id s ops ->
  forall q m, ~ In (Pkt id q m) (semits s ops).
Proof.
  unfold semits. revert s. induction ops as [|o t IH]; intros s NP C q m; simpl; [tauto|].
  destruct C as [C1 C2].
  assert (zget id (pending (fst (sstep s o))) = None /\ ~ In (Pkt id q m) (snd (sstep s o))) as [NP1 NE].
  { destruct o as [q' m' full|j|]; simpl.
    - unfold publish. destruct (q' =? 0).
      + simpl. split; [exact NP|]. destruct full; simpl; [tauto|]. intros [H|[]]. inversion H. congruence.
      + destruct (q' =? 1); simpl.
        * split; [rewrite zget_set_other; [exact NP | congruence]|]. intros [H|[]]. inversion H. congruence.
        * split; [exact NP | tauto].
    - split; [|tauto]. destruct (Z.eq_dec id j) as [E|N]; [subst; apply zget_del_same|].
      rewrite zget_del_other by exact N. exact NP.
    - split.
      + pose proof (pending_step_other s STick id I) as X. simpl in X. rewrite X. exact NP.
      + intro I. apply tick_emits_pending in I as [i [m0 [E H]]]. inversion E; subst. congruence. }
  specialize (IH _ NP1 C2 q m).
  destruct (sstep s o) as [s1 e1]. simpl in *. destruct (srun s1 t) as [s2 e2]. simpl in *.
  intro I. apply in_app_or in I as [I|I]; contradiction.
Qed.

Theorem no_resend_after_ack s id ops :
  no_assign id (puback s id) ops -> forall q m, ~ In (Pkt id q m) (semits (puback s id) ops).
Proof. apply no_emit_while_not_pending. simpl. apply zget_del_same. Qed.

(** ** packet ids *)
Fixpoint count_pub (ops : list sop) : Z :=
  match ops with
  | [] => 0
  | SPublish _ _ _ :: t => 1 + count_pub t
  | _ :: t => count_pub t
  end.

Lemma count_pub_nonneg ops : 0 <= count_pub ops.
Proof. induction ops as [|[| |] t IH]; cbn [count_pub]; lia. Qed.

Lemma nextID_step s o :
  nextID (fst (sstep s o)) = match o with SPublish _ _ _ => wrap16 (nextID s + 1) | _ => nextID s end.
Proof.
  destruct o as [q m full|j|]; simpl.
  - unfold publish. destruct (q =? 0); [reflexivity|]. destruct (q =? 1); reflexivity.
  - reflexivity.
  - unfold tick. destruct (pending s); [reflexivity|]. destruct (drop_acked _ _); reflexivity.
Qed.

(** the id given to a message is not given to any of the next 2^16 - 1 messages *)
Lemma nextID_run s ops :
  0 <= nextID s < 65536 -> nextID (sfinal s ops) = wrap16 (nextID s + count_pub ops).
Proof.
  unfold sfinal. revert s. induction ops as [|o t IH]; intros s B.
  - cbn. unfold wrap16. rewrite Z.add_0_r, Z.mod_small by exact B. reflexivity.
  - pose proof (nextID_step s o) as N1.
    assert (0 <= nextID (fst (sstep s o)) < 65536) as B1.
    { rewrite N1. destruct o; try exact B. unfold wrap16. apply Z.mod_pos_bound. lia. }
    specialize (IH _ B1).
    cbn [srun]. destruct (sstep s o) as [s1 e1]. cbn [fst] in *. destruct (srun s1 t) as [s2 e2]. cbn [fst] in *.
    rewrite IH, N1. unfold wrap16. destruct o; cbn [count_pub]; try reflexivity.
    rewrite Zplus_mod_idemp_l. f_equal. lia.
Qed.

Theorem ids_unique_while_pending s ops :
  0 <= nextID s < 65536 -> 0 < count_pub ops < 65536 -> nextID (sfinal s ops) <> nextID s.
Proof.
  intros B C. rewrite nextID_run by exact B. unfold wrap16. intro E.
  assert ((nextID s + count_pub ops) mod 65536 = nextID s mod 65536) as E2
      by (rewrite E; symmetry; apply Z.mod_small; exact B).
  apply Z.eq_sym in E2. rewrite Z.mod_small in E2 by exact B.
  pose proof (Z.div_mod (nextID s + count_pub ops) 65536 ltac:(lia)) as D.
  assert (0 <= (nextID s + count_pub ops) / 65536 <= 1) as Q.
  { split; [apply Z.div_pos; lia|]. apply Z.div_le_upper_bound; lia. }
  lia.
Qed.

(** with fewer than 2^16 publishes in the whole history a fresh id never collides with the queue *)
Definition below (s : sess) : Prop :=
  forall j, In j (queue s) -> 0 <= j < nextID s.

Lemma step_below s o :
  below s -> 0 <= nextID s -> nextID s + (match o with SPublish _ _ _ => 1 | _ => 0 end) < 65536 ->
  below (fst (sstep s o)) /\ nextID (fst (sstep s o)) = nextID s + (match o with SPublish _ _ _ => 1 | _ => 0 end).
Proof.
  intros B P C. rewrite nextID_step. destruct o as [q m full|j|].
  - assert (wrap16 (nextID s + 1) = nextID s + 1) as W by (unfold wrap16; apply Z.mod_small; lia).
    rewrite W. split; [|reflexivity]. cbn [sstep]. unfold publish, below.
    destruct (q =? 0); [|destruct (q =? 1)]; cbn [fst queue nextID]; rewrite W; intros i I.
    + specialize (B i I). lia.
    + apply in_app_or in I as [I|[I|[]]]; [specialize (B i I); lia | subst; lia].
    + specialize (B i I). lia.
  - split; [exact B | lia].
  - split; [|lia]. cbn [sstep]. unfold tick, below. destruct (pending s) as [|x p'] eqn:PE; cbn [fst queue nextID].
    + intros i [].
    + rewrite <- PE. pose proof (drop_acked_spec (pending s) (queue s)) as D.
      destruct (drop_acked (pending s) (queue s)) as [|i t0]; cbn [fst queue nextID]; [exact B|].
      destruct D as [l1 [Q _]]. intros y I. apply B. rewrite Q. apply in_or_app. right. exact I.
Qed.

Lemma run_below ops : forall s, below s -> 0 <= nextID s -> nextID s + count_pub ops < 65536 ->
   nextID (sfinal s ops) = nextID s + count_pub ops /\ below (sfinal s ops).
Proof.
  unfold sfinal. induction ops as [|o t IH]; intros s B P C.
  - cbn. split; [lia | exact B].
  - pose proof (count_pub_nonneg t) as CN.
    assert (count_pub (o :: t) = (match o with SPublish _ _ _ => 1 | _ => 0 end) + count_pub t) as CE
        by (destruct o; cbn [count_pub]; lia).
    rewrite CE in *.
    destruct (step_below s o B P ltac:(destruct o; lia)) as [B1 N1].
    destruct (IH (fst (sstep s o)) B1 ltac:(rewrite N1; destruct o; lia) ltac:(rewrite N1; lia)) as [R1 R2].
    cbn [srun]. destruct (sstep s o) as [s1 e1]. cbn [fst] in *. destruct (srun s1 t) as [s2 e2]. cbn [fst] in *.
    split; [rewrite R1, N1; lia | exact R2].
Qed.

Lemma fresh_if_few ops :
  count_pub ops < 65536 ->
  nextID (sfinal sess0 ops) = count_pub ops /\ below (sfinal sess0 ops).
Proof.
  intro C. destruct (run_below ops sess0) as [A B]; [intros j [] | cbn; lia | cbn [sess0 nextID]; lia|].
  split; [rewrite A; cbn [sess0 nextID]; lia | exact B].
Qed.

Corollary fresh_id_not_in_queue ops :
  count_pub ops < 65536 -> ~ In (nextID (sfinal sess0 ops)) (queue (sfinal sess0 ops)).
Proof. intros C I. destruct (fresh_if_few ops C) as [_ B]. specialize (B _ I). lia. Qed.

(** ** client PUBLISH *)
Theorem puback_same_id has_pipe lim p v :
  snd (mqtt_acquire lim 0 (cp_size p)) = true ->
  cp_qos p = 1 ->
  (has_pipe = true -> v = VPass) ->
  snd (fst (cpub_step has_pipe lim p v)) =
    (if has_pipe then [Backend (cp_tag p)] else []) ++ [Puback (cp_id p)].
Proof.
  intros OK Q V. unfold cpub_step. destruct (mqtt_acquire lim 0 (cp_size p)) as [lim' ok]. simpl in OK. subst ok.
  simpl. rewrite Q. simpl. destruct has_pipe; simpl; [rewrite (V eq_refl)|]; reflexivity.
Qed.

(** and nothing is acknowledged or handed on when the limiter refuses, nothing acknowledged when the
    pipeline drops or disconnects *)
Lemma cpub_no_ack has_pipe lim p v id :
  In (Puback id) (snd (fst (cpub_step has_pipe lim p v))) ->
  snd (mqtt_acquire lim 0 (cp_size p)) = true /\ cp_qos p = 1 /\ id = cp_id p /\ (has_pipe = true -> v = VPass).
Proof.
  unfold cpub_step. destruct (mqtt_acquire lim 0 (cp_size p)) as [lim' ok]. destruct ok; simpl; [|tauto].
  destruct (cp_qos p =? 1) eqn:Q.
  - apply Z.eqb_eq in Q. destruct has_pipe; simpl.
    + destruct v; simpl; intros H; repeat (destruct H as [H|H]; try discriminate; try tauto).
      inversion H. tauto.
    + intros [H|[]]. inversion H. repeat split; try tauto. discriminate.
  - destruct has_pipe; simpl; [|tauto]. destruct v; simpl; intros H; repeat (destruct H as [H|H]; try discriminate; try tauto).
Qed.

Example sess_nonvacuous :
  let ops := [SPublish 1 10 false; SPublish 1 11 false; STick; SPuback 0; STick; STick] in
  semits sess0 ops = [Pkt 0 1 10; Pkt 1 1 11; Pkt 0 1 10; Pkt 1 1 11; Pkt 1 1 11] /\
  oldest (sfinal sess0 ops) = Some (1, 11) /\ no_ack_no_reuse 1 (sfinal sess0 (firstn 4 ops)) [STick; STick].
Proof. vm_compute. repeat split; intros; tauto. Qed.
