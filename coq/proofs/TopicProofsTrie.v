(** C14 proofs, part 2: the trie.  [insert] / [remove] change [at_path] at exactly one
    filter; the frontier loop equals the depth-first search; the depth-first search
    returns exactly the clients stored at the filters that match the topic.
    Every induction is over a level list; children are reached through [alookup]. *)
From EG.lib Require Import Base.
From EG.model Require Import Topic.
Open Scope string_scope.
Open Scope list_scope.

(** *** association lists *)
Lemma alookup_aremove {A} (k k' : string) (l : list (string * A)) :
  alookup k (aremove k' l) = if k =? k' then None else alookup k l.
Proof.
  induction l as [|[k0 v] t IH]; simpl.
  - destruct (k =? k'); reflexivity.
  - destruct (k0 =? k') eqn:E0; simpl.
    + apply String.eqb_eq in E0. subst k0. rewrite IH.
      destruct (k =? k'); reflexivity.
    + rewrite IH. destruct (k =? k0) eqn:E1; [|reflexivity].
      apply String.eqb_eq in E1. subst k0. rewrite E0. reflexivity.
Qed.

Lemma alookup_aset {A} (k k' : string) (v : A) (l : list (string * A)) :
  alookup k (aset k' v l) = if k =? k' then Some v else alookup k l.
Proof.
  unfold aset. simpl. rewrite alookup_aremove. destruct (k =? k'); reflexivity.
Qed.

Lemma In_aremove {A} (k k' : string) (v : A) (l : list (string * A)) :
  In (k, v) (aremove k' l) <-> k <> k' /\ In (k, v) l.
Proof.
  unfold aremove. rewrite filter_In. simpl. split.
  - intros [H1 H2]. split; [|exact H1]. intro E. subst k'. rewrite String.eqb_refl in H2. discriminate.
  - intros [H1 H2]. split; [exact H2|]. apply negb_true_iff. now apply String.eqb_neq.
Qed.

Lemma In_aset {A} (k k' : string) (v v' : A) (l : list (string * A)) :
  In (k, v) (aset k' v' l) <-> (k = k' /\ v = v') \/ (k <> k' /\ In (k, v) l).
Proof.
  unfold aset. simpl. rewrite In_aremove. split.
  - intros [E|H]; [left; injection E; auto | right; exact H].
  - intros [[-> ->]|H]; [left; reflexivity | right; exact H].
Qed.

Lemma aremove_noop {A} (k : string) (l : list (string * A)) :
  (forall v, ~ In (k, v) l) -> aremove k l = l.
Proof.
  induction l as [|[k0 v0] t IH]; intro H; [reflexivity|].
  simpl. destruct (k0 =? k) eqn:E.
  - apply String.eqb_eq in E. subst k0. exfalso. apply (H v0). left. reflexivity.
  - simpl. f_equal. apply IH. intros v Hv. apply (H v). right. exact Hv.
Qed.

(** *** nodes *)
Lemma at_path_empty (ls : list level) : at_path ls empty_node = [].
Proof. destruct ls; reflexivity. Qed.

Lemma is_empty_eq (n : node) : is_empty n = true -> n = empty_node.
Proof. destruct n as [[|c cl] [|ch chl]]; simpl; intro H; try discriminate; reflexivity. Qed.

Lemma child_node (l : level) cl ch : child l (Node cl ch) = alookup l ch.
Proof. reflexivity. Qed.

Definition lev_eq_dec : forall a b : list level, {a = b} + {a <> b} := list_eq_dec string_dec.

(** *** insert *)
Lemma insert_same : forall ls c q n,
  at_path ls (insert ls c q n) = aset c q (at_path ls n).
Proof.
  induction ls as [|l r IH]; intros c q n.
  - reflexivity.
  - cbn [insert at_path]. rewrite child_node, alookup_aset, String.eqb_refl.
    rewrite IH. destruct (child l n) as [m|]; [reflexivity|].
    now rewrite at_path_empty.
Qed.

Lemma insert_other : forall ls ls' c q n,
  ls' <> ls -> at_path ls' (insert ls c q n) = at_path ls' n.
Proof.
  induction ls as [|l r IH]; intros ls' c q n Hne.
  - destruct ls' as [|l' r']; [congruence|]. reflexivity.
  - destruct ls' as [|l' r']; [reflexivity|].
    cbn [insert at_path]. rewrite child_node, alookup_aset.
    destruct (l' =? l) eqn:E.
    + apply String.eqb_eq in E. subst l'.
      assert (Hr : r' <> r) by congruence.
      rewrite (IH r' c q _ Hr). unfold child.
      destruct (alookup l (nchildren n)); [reflexivity|]. apply at_path_empty.
    + reflexivity.
Qed.

(** [at_path] changes at the inserted filter only *)
Theorem insert_spec : forall ls ls' c q n,
  at_path ls' (insert ls c q n) =
    if lev_eq_dec ls' ls then aset c q (at_path ls n) else at_path ls' n.
Proof.
  intros. destruct (lev_eq_dec ls' ls) as [->|Hne].
  - apply insert_same.
  - now apply insert_other.
Qed.

(** *** remove *)
Lemma remove_opt_none : forall ls c n, remove_opt ls c n = None -> at_path ls n = [].
Proof.
  induction ls as [|l r IH]; intros c n H; [discriminate|].
  cbn [remove_opt] in H. cbn [at_path].
  destruct (child l n) as [m|]; [|reflexivity].
  destruct (remove_opt r c m) eqn:Er; [discriminate|]. now apply (IH c).
Qed.

Lemma remove_opt_some : forall ls c n n',
  remove_opt ls c n = Some n' ->
  at_path ls n' = aremove c (at_path ls n) /\
  forall ls', ls' <> ls -> at_path ls' n' = at_path ls' n.
Proof.
  induction ls as [|l r IH]; intros c n n' H.
  - injection H as <-. split; [reflexivity|].
    intros [|l' r'] Hne; [congruence | reflexivity].
  - cbn [remove_opt] in H.
    destruct (child l n) as [m|] eqn:Ec; [|discriminate].
    destruct (remove_opt r c m) as [m'|] eqn:Er; [|discriminate].
    injection H as <-. destruct (IH c m m' Er) as [IH1 IH2].
    destruct (is_empty m') eqn:Ee.
    + (* the child became empty and is pruned: it had no clients anywhere *)
      apply is_empty_eq in Ee. subst m'. split.
      * cbn [at_path]. rewrite child_node, alookup_aremove, String.eqb_refl, Ec.
        rewrite <- IH1. now rewrite at_path_empty.
      * intros [|l' r'] Hne; [reflexivity|].
        cbn [at_path]. rewrite child_node, alookup_aremove.
        destruct (l' =? l) eqn:E.
        -- apply String.eqb_eq in E. subst l'. rewrite Ec.
           assert (Hr : r' <> r) by congruence.
           rewrite <- (IH2 r' Hr). now rewrite at_path_empty.
        -- reflexivity.
    + split.
      * cbn [at_path]. rewrite child_node, alookup_aset, String.eqb_refl, Ec. exact IH1.
      * intros [|l' r'] Hne; [reflexivity|].
        cbn [at_path]. rewrite child_node, alookup_aset.
        destruct (l' =? l) eqn:E.
        -- apply String.eqb_eq in E. subst l'. rewrite Ec.
           assert (Hr : r' <> r) by congruence. exact (IH2 r' Hr).
        -- reflexivity.
Qed.

Lemma remove_same : forall ls c n, at_path ls (remove ls c n) = aremove c (at_path ls n).
Proof.
  intros ls c n. unfold remove. destruct (remove_opt ls c n) as [n'|] eqn:E.
  - apply (remove_opt_some _ _ _ _ E).
  - rewrite (remove_opt_none _ _ _ E). reflexivity.
Qed.

Lemma remove_other : forall ls ls' c n, ls' <> ls -> at_path ls' (remove ls c n) = at_path ls' n.
Proof.
  intros ls ls' c n Hne. unfold remove. destruct (remove_opt ls c n) as [n'|] eqn:E.
  - now apply (remove_opt_some _ _ _ _ E).
  - reflexivity.
Qed.

(** [at_path] changes at the removed filter only, pruning included *)
Theorem remove_spec : forall ls ls' c n,
  at_path ls' (remove ls c n) =
    if lev_eq_dec ls' ls then aremove c (at_path ls n) else at_path ls' n.
Proof.
  intros. destruct (lev_eq_dec ls' ls) as [->|Hne].
  - apply remove_same.
  - now apply remove_other.
Qed.

(** structural pruning: removing the only subscriber of a filter from a trie that holds
    nothing else gives back the empty trie (every node of the branch is deleted) *)
Lemma remove_opt_insert_empty : forall ls c q,
  remove_opt ls c (insert ls c q empty_node) = Some empty_node.
Proof.
  induction ls as [|l r IH]; intros c q.
  - cbn. rewrite String.eqb_refl. reflexivity.
  - cbn [insert remove_opt]. rewrite child_node, alookup_aset, String.eqb_refl.
    change (child l empty_node) with (@None node). cbv iota.
    rewrite IH. cbn [is_empty empty_node nclients nchildren].
    unfold aset. cbn [aremove filter fst]. rewrite String.eqb_refl. reflexivity.
Qed.

Theorem remove_prunes : forall ls c q, remove ls c (insert ls c q empty_node) = empty_node.
Proof. intros. unfold remove. now rewrite remove_opt_insert_empty. Qed.

(** *** the Go frontier loop = depth-first search (same set of collected entries) *)
Lemma in_opt_list {A} (x : A) (o : option A) : In x (opt_list o) <-> o = Some x.
Proof.
  destruct o; simpl; split; intro H.
  - destruct H as [->|[]]. reflexivity.
  - injection H as ->. now left.
  - destruct H.
  - discriminate.
Qed.

Lemma in_descend (t : level) (n m : node) :
  In m (descend t n) <-> child "+" n = Some m \/ (is_wild_level t = false /\ child t n = Some m).
Proof.
  unfold descend. rewrite in_app_iff, in_opt_list.
  destruct (is_wild_level t); simpl.
  - split; [intros [H|[]]; now left | intros [H|[H _]]; [now left | discriminate]].
  - rewrite in_opt_list. split; [intros [H|H]; auto | intros [H|[_ H]]; auto].
Qed.

Lemma find1_cons_in (t : level) (r : list level) (n : node) (x : cid * qos) :
  In x (find1 (t :: r) n) <->
  In x (hash_clients n) \/ exists m, In m (descend t n) /\ In x (find1 r m).
Proof.
  cbn [find1]. rewrite !in_app_iff. split.
  - intros [H|[H|H]].
    + now left.
    + right. destruct (child "+" n) as [m|] eqn:E; [|destruct H].
      exists m. split; [apply in_descend; now left | exact H].
    + right. destruct (is_wild_level t) eqn:Ew; [destruct H|].
      destruct (child t n) as [m|] eqn:E; [|destruct H].
      exists m. split; [apply in_descend; right; auto | exact H].
  - intros [H|[m [Hm Hx]]]; [now left|].
    apply in_descend in Hm as [Hm|[Hw Hm]].
    + right. left. now rewrite Hm.
    + right. right. now rewrite Hw, Hm.
Qed.

Theorem find_frontier_spec : forall ts cur ans x,
  In x (find_frontier ts cur ans) <->
  In x ans \/ exists n, In n cur /\ In x (find1 ts n).
Proof.
  induction ts as [|t r IH]; intros cur ans x.
  - cbn [find_frontier find1]. rewrite in_app_iff, in_flat_map. reflexivity.
  - cbn [find_frontier].
    assert (K : In x (ans ++ flat_map hash_clients cur) \/
                (exists m, In m (flat_map (descend t) cur) /\ In x (find1 r m)) <->
                In x ans \/ exists n, In n cur /\ In x (find1 (t :: r) n)).
    { rewrite in_app_iff, in_flat_map. split.
      - intros [[H|[n [Hn Hx]]]|[m [Hm Hx]]].
        + now left.
        + right. exists n. split; [exact Hn|]. apply find1_cons_in. now left.
        + apply in_flat_map in Hm as [n [Hn Hm]]. right. exists n. split; [exact Hn|].
          apply find1_cons_in. right. exists m. auto.
      - intros [H|[n [Hn Hx]]]; [left; now left|].
        apply find1_cons_in in Hx as [Hx|[m [Hm Hx]]].
        + left. right. exists n. auto.
        + right. exists m. split; [|exact Hx]. apply in_flat_map. exists n. auto. }
    destruct (flat_map (descend t) cur) as [|m0 next] eqn:En.
    + rewrite <- K. split; [intro H; now left | intros [H|[m [[] _]]]; exact H].
    + rewrite IH. exact K.
Qed.

Theorem find_frontier_eq_find1 : forall ts n x,
  In x (find_frontier ts [n] []) <-> In x (find1 ts n).
Proof.
  intros. rewrite find_frontier_spec. split.
  - intros [[]|[m [[<-|[]] H]]]. exact H.
  - intro H. right. exists n. split; [now left | exact H].
Qed.

(** *** what the search returns, for ANY topic level list (wildcard characters in a
    topic name included): the entries stored at the filters related to the topic by
    [gomatches]; on topic names [gomatches] is the MQTT relation [matches]. *)
Inductive gomatches : list level -> list level -> Prop :=
| G_nil : gomatches [] []
| G_hash : forall ts, gomatches ["#"] ts
| G_plus : forall fs t ts, gomatches fs ts -> gomatches ("+" :: fs) (t :: ts)
| G_lit : forall l fs ts, is_wild_level l = false -> gomatches fs ts -> gomatches (l :: fs) (l :: ts).

Lemma hash_clients_at (n : node) : hash_clients n = at_path ["#"] n.
Proof. unfold hash_clients. cbn [at_path]. destruct (child "#" n); reflexivity. Qed.

Theorem find1_spec : forall ts n x,
  In x (find1 ts n) <-> exists fl, gomatches fl ts /\ In x (at_path fl n).
Proof.
  induction ts as [|t r IH]; intros n x.
  - cbn [find1]. rewrite in_app_iff, hash_clients_at. split.
    + intros [H|H]; [exists []; split; [constructor | exact H] | exists ["#"]; split; [constructor | exact H]].
    + intros [fl [Hm Hx]]. inversion Hm; subst; [now left | now right].
  - rewrite find1_cons_in, hash_clients_at. split.
    + intros [H|[m [Hm Hx]]].
      * exists ["#"]. split; [constructor | exact H].
      * apply IH in Hx as [fl [Hg Hx]]. apply in_descend in Hm as [Hm|[Hw Hm]].
        -- exists ("+" :: fl). split; [now constructor|]. cbn [at_path]. now rewrite Hm.
        -- exists (t :: fl). split; [now constructor|]. cbn [at_path]. now rewrite Hm.
    + intros [fl [Hm Hx]]. inversion Hm as [| ts0 | fs t0 ts0 Hg | l fs ts0 Hw Hg]; subst.
      * now left.
      * right. cbn [at_path] in Hx. destruct (child "+" n) as [m|] eqn:E; [|destruct Hx].
        exists m. split; [apply in_descend; now left|]. apply IH. exists fs. auto.
      * right. cbn [at_path] in Hx. destruct (child t n) as [m|] eqn:E; [|destruct Hx].
        exists m. split; [apply in_descend; right; auto|]. apply IH. exists fs. auto.
Qed.

Lemma gomatches_matches (fl ts : list level) : gomatches fl ts -> matches fl ts.
Proof. induction 1; now constructor. Qed.

Lemma matches_gomatches (fl ts : list level) : topic_name ts -> matches fl ts -> gomatches fl ts.
Proof.
  intros Hn Hm. induction Hm as [| ts | fs t ts _ IH | l fs ts _ IH].
  - constructor.
  - constructor.
  - inversion Hn; subst. constructor. now apply IH.
  - inversion Hn as [|? ? [H1 H2] Ht]; subst. constructor; [|now apply IH].
    unfold is_wild_level. apply orb_false_iff. split; now apply String.eqb_neq.
Qed.
