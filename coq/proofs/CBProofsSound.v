(** C08: SOUNDNESS of the trace checker used as [prop].

    [chk_run] accepting an observed history implies the clauses of the contract, stated
    about positions of the history in terms of notions that are defined from the raw history
    alone (not by running the checker):

    - [cur rp]      : the (state, stateID) shown by the newest step ((CLOSED, 1) initially);
    - [entry rp]    : the step that entered the current epoch = the newest step whose shown
                      (state, id) differs from its predecessor's (none in the initial epoch);
      [entered]     : its clock (the creation time in the initial epoch);
    - [body rp]     : the steps after the entry step (all showing the current (state, id));
    - [epoch_results]: the results recorded in [body] with the current id (the others - results
                      of calls admitted in an earlier state - never enter any window);
    - [trials rp]   : the acquisitions admitted in the current epoch (entry step included).

    Histories are lists of steps, NEWEST FIRST ([history_before k] = the first [k] steps). *)
From EG.lib Require Import Base.
From EG.model Require Import CB CBCheck.
From Coq Require Import ZifyBool.
Open Scope Z_scope.

Definition step := (op * obs)%type.
Definition shown (x : step) : st * Z := let '(_, (_, s, i)) := x in (s, i).
Definition cur (rp : list step) : st * Z := match rp with [] => (Closed, 1) | x :: _ => shown x end.
Definition sid_eqb (a b : st * Z) : bool := st_eqb (fst a) (fst b) && (snd a =? snd b).

Fixpoint entry (rp : list step) : option step :=
  match rp with
  | [] => None
  | x :: older => if sid_eqb (shown x) (cur older) then entry older else Some x
  end.

Fixpoint body (rp : list step) : list step :=
  match rp with
  | [] => []
  | x :: older => if sid_eqb (shown x) (cur older) then x :: body older else []
  end.

Definition entered (t0 : Z) (rp : list step) : Z :=
  match entry rp with Some x => op_now (fst x) | None => t0 end.

Fixpoint results (pol : policy) (id : Z) (l : list step) : list (Z * res) :=
  match l with
  | [] => []
  | (ORec now i err dur, (f, _, _)) :: t =>
      if (i =? id) && negb f then (sec_of now, classify pol err dur) :: results pol id t
      else results pol id t
  | _ :: t => results pol id t
  end.

Definition epoch_results (pol : policy) (rp : list step) : list (Z * res) :=
  results pol (snd (cur rp)) (body rp).

Fixpoint admitted (l : list step) : Z :=
  match l with
  | [] => 0
  | (OAcq _, (true, _, _)) :: t => 1 + admitted t
  | _ :: t => admitted t
  end.

Definition entry_trial (rp : list step) : Z :=
  match entry rp with Some (OAcq _, (true, HalfOpen, _)) => 1 | _ => 0 end.

Definition trials (rp : list step) : Z := admitted (body rp) + entry_trial rp.

Definition history_before (k : nat) (ops : list op) (obs : list obs) : list step :=
  rev (combine (firstn k ops) (firstn k obs)).

(** ** the checker's state is exactly these notions (whatever the history) *)
Definition chk_fold (pol : policy) (h : chk) (tr : list step) : chk :=
  fold_left (fun h x => chk_next (op_now (fst x)) (fst x) pol h (snd x)) tr h.

Lemma st_eqb_eq a b : st_eqb a b = true <-> a = b.
Proof. destruct a, b; simpl; split; congruence. Qed.

Lemma sid_eqb_eq a b : sid_eqb a b = true <-> a = b.
Proof.
  destruct a as [a1 a2], b as [b1 b2]. unfold sid_eqb. cbn [fst snd].
  rewrite andb_true_iff, st_eqb_eq, Z.eqb_eq. split; [intros [-> ->]; reflexivity | intro E; inversion E; auto].
Qed.

Definition decl_inv (pol : policy) (t0 : Z) (h : chk) (rp : list step) : Prop :=
  (h_state h, h_id h) = cur rp /\ h_transit h = entered t0 rp /\
  h_log h = epoch_results pol rp /\ (fst (cur rp) = HalfOpen -> h_trials h = trials rp).

Lemma decl_inv_step pol t0 h rp o ob :
  decl_inv pol t0 h rp ->
  decl_inv pol t0 (chk_next (op_now o) o pol h ob) ((o, ob) :: rp).
Proof.
  intros (Hc & Ht & Hl & Hn). destruct ob as [[f s'] i'].
  unfold decl_inv, chk_next, epoch_results, trials, entered, entry_trial.
  cbn [cur shown entry body].
  assert (Etest : negb (i' =? h_id h) || negb (st_eqb s' (h_state h)) = negb (sid_eqb (s', i') (cur rp))).
  { rewrite <- Hc. unfold sid_eqb. cbn [fst snd]. destruct (i' =? h_id h), (st_eqb s' (h_state h)); reflexivity. }
  rewrite Etest. change (shown (o, (f, s', i'))) with (s', i').
  destruct (sid_eqb (s', i') (cur rp)) eqn:Es; cbn [negb].
  - (* same epoch *)
    apply sid_eqb_eq in Es.
    assert (Es1 : s' = fst (cur rp)) by (rewrite <- Es; reflexivity).
    assert (Es2 : i' = snd (cur rp)) by (rewrite <- Es; reflexivity).
    assert (Hs : h_state h = fst (cur rp)) by (rewrite <- Hc; reflexivity).
    assert (Hi : h_id h = snd (cur rp)) by (rewrite <- Hc; reflexivity).
    clear Etest. subst s' i'.
    destruct o as [now | now id err dur]; cbn [h_state h_id h_transit h_log h_trials fst snd results admitted].
    + split; [rewrite Hc; destruct (cur rp); reflexivity|]. split; [exact Ht|]. split; [exact Hl|].
      intro Hh. specialize (Hn Hh). rewrite Hs, Hh.
      unfold trials, entry_trial in Hn. destruct f; lia.
    + split; [rewrite Hc; destruct (cur rp); reflexivity|]. split; [exact Ht|].
      split.
      * rewrite Hi, Hl. unfold epoch_results. reflexivity.
      * intro Hh. specialize (Hn Hh). unfold trials, entry_trial in Hn.
        destruct f; exact Hn.
  - (* a new epoch is entered by this step *)
    cbn [h_state h_id h_transit h_log h_trials fst snd results admitted op_now].
    split; [reflexivity|]. split; [reflexivity|]. split; [reflexivity|].
    intro Hh. subst s'. destruct o, f; reflexivity.
Qed.

Lemma decl_inv_init pol t0 : decl_inv pol t0 (chk_init t0) [].
Proof. unfold decl_inv, chk_init. cbn. repeat split; auto; discriminate. Qed.

Lemma decl_inv_fold pol t0 : forall tr h rp,
  decl_inv pol t0 h rp -> decl_inv pol t0 (chk_fold pol h tr) (rev tr ++ rp).
Proof.
  induction tr as [|[o ob] t IH]; intros h rp H; [exact H|].
  unfold chk_fold. cbn [fold_left rev fst snd]. rewrite <- app_assoc. cbn [app].
  apply IH. now apply decl_inv_step.
Qed.

(** ** an accepted history passes the step check at every position *)
Lemma chk_run_steps pol : forall ops obs h,
  chk_run pol h ops obs = true ->
  List.length ops = List.length obs /\
  forall k o ob, nth_error ops k = Some o -> nth_error obs k = Some ob ->
    fst (chk_step pol o (chk_fold pol h (combine (firstn k ops) (firstn k obs))) ob) = true.
Proof.
  induction ops as [|o t IH]; intros [|ob bt] h H; cbn [chk_run] in H; try discriminate.
  - split; [reflexivity|]. intros [|k] ? ? E; discriminate E.
  - assert (E : chk_step pol o h ob = (fst (chk_step pol o h ob), chk_next (op_now o) o pol h ob)) by reflexivity.
    rewrite E in H. apply andb_true_iff in H as [H1 H2].
    destruct (IH _ _ H2) as [L S]. split; [cbn [List.length]; lia|].
    intros [|k] o' ob' E1 E2; cbn [nth_error] in E1, E2.
    + injection E1 as <-. injection E2 as <-. exact H1.
    + exact (S k o' ob' E1 E2).
Qed.

(** ** the clauses, per step, about the history before it *)
Definition tripped (pol : policy) (v : list res) : Prop :=
  let n := Z.of_nat (List.length v) in
  p_fthr pol <= 100 * cnt is_fail v / n \/ p_sthr pol <= 100 * cnt is_slow v / n.

Lemma trips_iff pol v : trips pol v = true <-> tripped pol v.
Proof. unfold trips, tripped, srate. rewrite orb_true_iff, !Z.leb_le. tauto. Qed.

Definition maxwait_over (pol : policy) (t0 : Z) (rp : list step) (now : Z) : Prop :=
  0 < p_maxwait pol /\ p_maxwait pol < now - entered t0 rp.

Definition acq_clause (pol : policy) (t0 : Z) (rp : list step) (now : Z) (ob : obs) : Prop :=
  let '(flag, s', i') := ob in
  match fst (cur rp) with
  | Closed => flag = true /\ (s', i') = cur rp
  | Open =>
      (now - entered t0 rp < p_wait pol -> flag = false /\ (s', i') = cur rp) /\
      (p_wait pol <= now - entered t0 rp ->
         flag = (0 <? p_perm pol) /\ (s', i') = (HalfOpen, snd (cur rp) + 1))
  | HalfOpen =>
      (trials rp < p_perm pol -> flag = true /\ (s', i') = cur rp) /\
      (p_perm pol <= trials rp ->
         flag = false /\
         (maxwait_over pol t0 rp now -> (s', i') = (Open, snd (cur rp) + 1)) /\
         (~ maxwait_over pol t0 rp now -> (s', i') = cur rp))
  end.

Definition rec_clause (pol : policy) (t0 : Z) (rp : list step) (now id : Z) (err : bool) (dur : Z) (ob : obs) : Prop :=
  let '(flag, s', i') := ob in
  let log' := (sec_of now, classify pol err dur) :: epoch_results pol rp in
  (id <> snd (cur rp) -> flag = false /\ (s', i') = cur rp) /\
  (id = snd (cur rp) ->
     match fst (cur rp) with
     | Open => (s', i') = cur rp
     | Closed =>
         (p_size pol <= 0 -> (s', i') = cur rp) /\
         (0 < p_size pol ->
            flag = false /\
            let v := view (pol_kind pol) (sec_of now) log' in
            (p_min pol <= Z.of_nat (List.length v) /\ tripped pol v -> (s', i') = (Open, snd (cur rp) + 1)) /\
            (~ (p_min pol <= Z.of_nat (List.length v) /\ tripped pol v) -> (s', i') = cur rp))
     | HalfOpen =>
         (p_perm pol <= 0 -> (s', i') = cur rp) /\
         (0 < p_perm pol ->
            flag = false /\
            let v := view (KCount (p_perm pol)) (sec_of now) log' in
            let need := Z.min (p_min pol) (p_perm pol) in
            (Z.of_nat (List.length v) < need -> (s', i') = cur rp) /\
            (need <= Z.of_nat (List.length v) -> tripped pol v -> (s', i') = (Open, snd (cur rp) + 1)) /\
            (need <= Z.of_nat (List.length v) -> ~ tripped pol v -> (s', i') = (Closed, snd (cur rp) + 1)))
     end).

Definition step_clause (pol : policy) (t0 : Z) (rp : list step) (o : op) (ob : obs) : Prop :=
  match o with
  | OAcq now => acq_clause pol t0 rp now ob
  | ORec now id err dur => rec_clause pol t0 rp now id err dur ob
  end.

Lemma same_iff h s' i' : same h s' i' = true <-> (s', i') = (h_state h, h_id h).
Proof.
  unfold same. rewrite andb_true_iff, st_eqb_eq, Z.eqb_eq.
  split; [intros [-> ->]; reflexivity | intro E; inversion E; auto].
Qed.

Lemma moved_iff h t s' i' : moved h t s' i' = true <-> (s', i') = (t, h_id h + 1).
Proof.
  unfold moved. rewrite andb_true_iff, st_eqb_eq, Z.eqb_eq.
  split; [intros [-> ->]; reflexivity | intro E; inversion E; auto].
Qed.

Lemma acq_sound pol t0 h rp now ob :
  decl_inv pol t0 h rp -> chk_acquire pol now h ob = true -> acq_clause pol t0 rp now ob.
Proof.
  intros (Hc & Ht & Hl & Hn) H. destruct ob as [[flag s'] i'].
  assert (Hs : h_state h = fst (cur rp)) by (rewrite <- Hc; reflexivity).
  assert (Hi : h_id h = snd (cur rp)) by (rewrite <- Hc; reflexivity).
  unfold chk_acquire in H. unfold acq_clause, maxwait_over. rewrite <- Ht, <- Hi, <- Hc.
  cbn [fst snd]. rewrite <- Hs in Hn. destruct (h_state h) eqn:Es.
  - apply andb_true_iff in H as [H1 H2]. apply same_iff in H2; rewrite ?Es in H2. auto.
  - specialize (Hn eq_refl). rewrite <- Hn.
    destruct (Z.ltb_spec (h_trials h) (p_perm pol)) as [Lt | Ge].
    + apply andb_true_iff in H as [H1 H2]. apply same_iff in H2; rewrite ?Es in H2. split; [auto | lia].
    + apply andb_true_iff in H as [H1 H2]. apply negb_true_iff in H1.
      split; [lia|]. intros _. split; [exact H1|].
      destruct (Z.ltb_spec 0 (p_maxwait pol)), (Z.ltb_spec (p_maxwait pol) (now - h_transit h));
        cbn [andb] in H2; (apply moved_iff in H2 || (apply same_iff in H2; rewrite ?Es in H2)); split; intros; auto; lia.
  - destruct (Z.ltb_spec (now - h_transit h) (p_wait pol)) as [Lt | Ge].
    + apply andb_true_iff in H as [H1 H2]. apply negb_true_iff in H1. apply same_iff in H2; rewrite ?Es in H2.
      split; [auto | lia].
    + apply andb_true_iff in H as [H1 H2]. apply eqb_prop in H1. apply moved_iff in H2.
      split; [lia | auto].
Qed.

Lemma rec_sound pol t0 h rp now id err dur ob :
  decl_inv pol t0 h rp ->
  match chk_record pol now id (classify pol err dur) h ob with Some b => b | None => true end = true ->
  rec_clause pol t0 rp now id err dur ob.
Proof.
  intros (Hc & Ht & Hl & Hn) H. destruct ob as [[flag s'] i'].
  assert (Hs : h_state h = fst (cur rp)) by (rewrite <- Hc; reflexivity).
  assert (Hi : h_id h = snd (cur rp)) by (rewrite <- Hc; reflexivity).
  unfold chk_record in H. unfold rec_clause. rewrite <- Hl, <- Hi, <- Hc.
  destruct (Z.eqb_spec id (h_id h)) as [E | N]; cbn [negb] in H.
  2:{ apply andb_true_iff in H as [H1 H2]. apply negb_true_iff in H1. apply same_iff in H2; rewrite ?Es in H2.
      split; [auto | intro; contradiction]. }
  split; [intro; contradiction|]. intros _.
  cbn [fst snd]. destruct (h_state h) eqn:Es.
  - destruct (Z.leb_spec (p_size pol) 0) as [Le | Gt].
    + apply same_iff in H; rewrite ?Es in H. split; [auto | lia].
    + split; [lia|]. intros _. apply andb_true_iff in H as [H1 H2]. apply negb_true_iff in H1.
      split; [exact H1|]. cbv zeta.
      set (v := view (pol_kind pol) (sec_of now) ((sec_of now, classify pol err dur) :: h_log h)) in *.
      destruct (Z.leb_spec (p_min pol) (Z.of_nat (List.length v))) as [M | M]; cbn [andb] in H2.
      * destruct (trips pol v) eqn:T.
        -- apply moved_iff in H2. apply trips_iff in T. split; [auto | tauto].
        -- apply same_iff in H2; rewrite ?Es in H2. split; [|auto]. intros [_ T']. apply trips_iff in T'. congruence.
      * apply same_iff in H2; rewrite ?Es in H2. split; [intros [? _]; lia | auto].
  - destruct (Z.leb_spec (p_perm pol) 0) as [Le | Gt].
    + apply same_iff in H; rewrite ?Es in H. split; [auto | lia].
    + split; [lia|]. intros _. apply andb_true_iff in H as [H1 H2]. apply negb_true_iff in H1.
      split; [exact H1|]. cbv zeta.
      set (v := view (KCount (p_perm pol)) (sec_of now) ((sec_of now, classify pol err dur) :: h_log h)) in *.
      destruct (Z.ltb_spec (Z.of_nat (List.length v)) (Z.min (p_min pol) (p_perm pol))) as [M | M].
      * apply same_iff in H2; rewrite ?Es in H2. repeat split; auto; lia.
      * destruct (trips pol v) eqn:T.
        -- apply moved_iff in H2. apply trips_iff in T. repeat split; auto; try lia; tauto.
        -- apply moved_iff in H2. repeat split; auto; try lia.
           intros _ T'. apply trips_iff in T'. congruence.
  - apply same_iff in H; rewrite ?Es in H. exact H.
Qed.

(** *** the soundness theorem *)
Theorem checker_sound : forall pol t0 ops obs,
  chk_run pol (chk_init t0) ops obs = true ->
  List.length ops = List.length obs /\
  forall k o ob, nth_error ops k = Some o -> nth_error obs k = Some ob ->
    step_clause pol t0 (history_before k ops obs) o ob.
Proof.
  intros pol t0 ops obs H. destruct (chk_run_steps pol ops obs _ H) as [L S].
  split; [exact L|]. intros k o ob E1 E2. specialize (S k o ob E1 E2).
  pose proof (decl_inv_fold pol t0 (combine (firstn k ops) (firstn k obs)) _ [] (decl_inv_init pol t0)) as I.
  rewrite app_nil_r in I. fold (history_before k ops obs) in I.
  unfold chk_step in S. cbn [fst] in S.
  destruct o as [now | now id err dur]; cbn [step_clause].
  - exact (acq_sound _ _ _ _ _ _ I S).
  - exact (rec_sound _ _ _ _ _ _ _ _ _ I S).
Qed.

Lemma pair_eq (s' : st) (i' : Z) p : (s', i') = p -> s' = fst p /\ i' = snd p.
Proof. intros <-. auto. Qed.

(** ** the clauses of the property, read off an accepted history *)
Section Accepted.
  Variables (pol : policy) (t0 : Z) (ops : list op) (obs : list obs).
  Hypothesis ACC : chk_run pol (chk_init t0) ops obs = true.

  Let H k := history_before k ops obs.

  (** a call is short-circuited only while the breaker is OPEN, or HALF_OPEN with the
      permitted number of trial calls already admitted; while CLOSED every call passes *)
  Lemma sound_short_circuit_only_when_open : forall k now flag s' i',
    nth_error ops k = Some (OAcq now) -> nth_error obs k = Some (flag, s', i') ->
    (fst (cur (H k)) = Closed -> flag = true /\ (s', i') = cur (H k)) /\
    (flag = false ->
       fst (cur (H k)) = Open \/ (fst (cur (H k)) = HalfOpen /\ p_perm pol <= trials (H k))) /\
    (fst (cur (H k)) = Open -> now - entered t0 (H k) < p_wait pol -> flag = false /\ (s', i') = cur (H k)).
  Proof.
    intros k now flag s' i' E1 E2.
    destruct (checker_sound _ _ _ _ ACC) as [_ S]. specialize (S k _ _ E1 E2).
    cbn [step_clause acq_clause] in S. fold (H k) in S.
    destruct (fst (cur (H k))) eqn:Es.
    - destruct S as [S1 S2]. repeat split; auto; try discriminate. intro; congruence.
    - destruct S as [S1 S2]. split; [discriminate|]. split; [|discriminate].
      intro F. right. split; [reflexivity|].
      destruct (Z.lt_ge_cases (trials (H k)) (p_perm pol)) as [Lt | Ge]; [|exact Ge].
      destruct (S1 Lt) as [T _]. congruence.
    - destruct S as [S1 S2]. split; [discriminate|]. split; [auto|]. intros _. exact S1.
  Qed.

  Lemma open_cond_dec now r (log : list (Z * res)) :
    let v := view (pol_kind pol) (sec_of now) ((sec_of now, r) :: log) in
    {p_min pol <= Z.of_nat (List.length v) /\ tripped pol v} + {~ (p_min pol <= Z.of_nat (List.length v) /\ tripped pol v)}.
  Proof.
    cbv zeta. unfold tripped.
    set (v := view _ _ _).
    destruct (Z_le_dec (p_min pol) (Z.of_nat (List.length v)));
    destruct (Z_le_dec (p_fthr pol) (100 * cnt is_fail v / Z.of_nat (List.length v)));
    destruct (Z_le_dec (p_sthr pol) (100 * cnt is_slow v / Z.of_nat (List.length v))); tauto.
  Qed.

  (** the breaker opens (from CLOSED) exactly when a result recorded with the current id brings
      the window - the last slidingWindowSize results / the results of the last window seconds,
      of this epoch - to at least minimumNumberOfCalls with a failure or slow rate at or above
      its threshold *)
  Lemma sound_opens_exactly_at_threshold : forall k o flag s' i',
    0 < p_size pol ->
    nth_error ops k = Some o -> nth_error obs k = Some (flag, s', i') ->
    fst (cur (H k)) = Closed ->
    (s' = Open <->
     exists now id err dur, o = ORec now id err dur /\ id = snd (cur (H k)) /\
       let v := view (pol_kind pol) (sec_of now)
                     ((sec_of now, classify pol err dur) :: epoch_results pol (H k)) in
       p_min pol <= Z.of_nat (List.length v) /\ tripped pol v) /\
    (s' = Open -> i' = snd (cur (H k)) + 1 /\ flag = false) /\
    (s' <> Open -> (s', i') = cur (H k)).
  Proof.
    intros k o flag s' i' Hsz E1 E2 Es.
    destruct (checker_sound _ _ _ _ ACC) as [_ S]. specialize (S k _ _ E1 E2). fold (H k) in S.
    destruct o as [now | now id err dur]; cbn [step_clause acq_clause rec_clause] in S.
    - rewrite Es in S. destruct S as [S1 S2].
      assert (s' = Closed) by (destruct (pair_eq _ _ _ S2); congruence).
      split; [|split]; try (intro; congruence).
      split; [congruence | intros (? & ? & ? & ? & X & _); discriminate X].
    - destruct S as [S1 S2].
      destruct (Z.eq_dec id (snd (cur (H k)))) as [Ei | Ni].
      + specialize (S2 Ei). rewrite Es in S2. destruct S2 as [_ S2]. destruct (S2 Hsz) as (F & A & B).
        cbv zeta in A, B.
        destruct (open_cond_dec now (classify pol err dur) (epoch_results pol (H k))) as [C | C].
        * specialize (A C). inversion A; subst s' i'.
          split; [|split]; auto; try congruence.
          split; [intros _; exists now, id, err, dur; auto | reflexivity].
        * specialize (B C). assert (s' = Closed) by (destruct (pair_eq _ _ _ B); congruence).
          split; [|split]; try (intro; congruence).
          split; [congruence|]. intros (n' & id' & e' & d' & X & _ & Y). inversion X; subst. tauto.
      + destruct (S1 Ni) as [F B]. assert (s' = Closed) by (destruct (pair_eq _ _ _ B); congruence).
        split; [|split]; try (intro; congruence).
        split; [congruence|]. intros (n' & id' & e' & d' & X & Y & _). inversion X; subst. contradiction.
  Qed.

  (** after waitDurationInOpenState the next call enters HALF_OPEN and is the first trial; in
      HALF_OPEN a call is admitted iff fewer than permitted trials were admitted in this epoch
      (so exactly the first [permitted] are); maxWait reopens; the trials' results decide *)
  Lemma sound_half_open_trials : forall k now flag s' i',
    nth_error ops k = Some (OAcq now) -> nth_error obs k = Some (flag, s', i') ->
    (fst (cur (H k)) = Open -> p_wait pol <= now - entered t0 (H k) ->
       flag = (0 <? p_perm pol) /\ (s', i') = (HalfOpen, snd (cur (H k)) + 1)) /\
    (fst (cur (H k)) = HalfOpen ->
       (flag = true <-> trials (H k) < p_perm pol) /\
       (flag = true -> (s', i') = cur (H k)) /\
       (flag = false -> maxwait_over pol t0 (H k) now -> (s', i') = (Open, snd (cur (H k)) + 1)) /\
       (flag = false -> ~ maxwait_over pol t0 (H k) now -> (s', i') = cur (H k))).
  Proof.
    intros k now flag s' i' E1 E2.
    destruct (checker_sound _ _ _ _ ACC) as [_ S]. specialize (S k _ _ E1 E2).
    cbn [step_clause acq_clause] in S. fold (H k) in S.
    split; intro Es; rewrite Es in S; destruct S as [S1 S2]; [exact S2|].
    destruct (Z.lt_ge_cases (trials (H k)) (p_perm pol)) as [Lt | Ge].
    - destruct (S1 Lt) as [F B]. subst flag. repeat split; auto; try discriminate.
    - destruct (S2 Ge) as (F & A & B). subst flag. repeat split; auto; try discriminate; lia.
  Qed.

  Lemma sound_trials_decide : forall k now id err dur flag s' i',
    0 < p_perm pol ->
    nth_error ops k = Some (ORec now id err dur) -> nth_error obs k = Some (flag, s', i') ->
    fst (cur (H k)) = HalfOpen -> id = snd (cur (H k)) ->
    let v := view (KCount (p_perm pol)) (sec_of now)
                  ((sec_of now, classify pol err dur) :: epoch_results pol (H k)) in
    let need := Z.min (p_min pol) (p_perm pol) in
    flag = false /\
    (Z.of_nat (List.length v) < need -> (s', i') = cur (H k)) /\
    (need <= Z.of_nat (List.length v) -> tripped pol v -> (s', i') = (Open, snd (cur (H k)) + 1)) /\
    (need <= Z.of_nat (List.length v) -> ~ tripped pol v -> (s', i') = (Closed, snd (cur (H k)) + 1)).
  Proof.
    intros k now id err dur flag s' i' Hp E1 E2 Es Ei.
    destruct (checker_sound _ _ _ _ ACC) as [_ S]. specialize (S k _ _ E1 E2).
    cbn [step_clause rec_clause] in S. fold (H k) in S. destruct S as [_ S].
    specialize (S Ei). rewrite Es in S. destruct S as [_ S]. exact (S Hp).
  Qed.

  (** *** ids: every step keeps (state, id) or moves to id + 1 *)
  Fixpoint chain (rp : list step) : Prop :=
    match rp with
    | [] => True
    | x :: older => (shown x = cur older \/ snd (shown x) = snd (cur older) + 1) /\ chain older
    end.

  Lemma chain_ids : forall rp, chain rp ->
    forall y, In y rp -> snd (shown y) <= snd (cur rp) /\ (snd (shown y) = snd (cur rp) -> shown y = cur rp).
  Proof.
    induction rp as [|x older IH]; intros C y Hin; [destruct Hin|].
    cbn [chain] in C. destruct C as [P C]. cbn [cur]. destruct Hin as [-> | Hin]; [split; [lia | auto]|].
    destruct (IH C y Hin) as [Le Eq].
    destruct P as [P | P]; [rewrite P; auto|]. split; [lia|]. intro; lia.
  Qed.

  Lemma step_progress rp o ob :
    step_clause pol t0 rp o ob -> shown (o, ob) = cur rp \/ snd (shown (o, ob)) = snd (cur rp) + 1.
  Proof.
    destruct ob as [[flag s'] i']. cbn [shown].
    destruct o as [now | now id err dur]; cbn [step_clause acq_clause rec_clause]; intro S.
    - destruct (fst (cur rp)) eqn:Es.
      + left. apply S.
      + destruct S as [S1 S2]. destruct (Z.lt_ge_cases (trials rp) (p_perm pol)) as [Lt | Ge].
        * left. apply (S1 Lt).
        * destruct (S2 Ge) as (_ & A & B).
          destruct (Z_lt_dec 0 (p_maxwait pol)), (Z_lt_dec (p_maxwait pol) (now - entered t0 rp)).
          -- right. rewrite A by (split; assumption). reflexivity.
          -- left. apply B. unfold maxwait_over. lia.
          -- left. apply B. unfold maxwait_over. lia.
          -- left. apply B. unfold maxwait_over. lia.
      + destruct S as [S1 S2]. destruct (Z.lt_ge_cases (now - entered t0 rp) (p_wait pol)) as [Lt | Ge].
        * left. apply (S1 Lt).
        * right. destruct (S2 Ge) as [_ A]. rewrite A. reflexivity.
    - destruct S as [S1 S2]. destruct (Z.eq_dec id (snd (cur rp))) as [Ei | Ni]; [|left; apply (S1 Ni)].
      specialize (S2 Ei). destruct (fst (cur rp)) eqn:Es.
      + destruct S2 as [A B]. destruct (Z.le_gt_cases (p_size pol) 0) as [Le | Gt]; [left; auto|].
        destruct (B ltac:(lia)) as (_ & B1 & B2). cbv zeta in B1, B2.
        destruct (open_cond_dec now (classify pol err dur) (epoch_results pol rp)) as [C | C].
        * right. rewrite (B1 C). reflexivity.
        * left. exact (B2 C).
      + destruct S2 as [A B]. destruct (Z.le_gt_cases (p_perm pol) 0) as [Le | Gt]; [left; auto|].
        destruct (B ltac:(lia)) as (_ & B1 & B2 & B3). cbv zeta in B1, B2, B3.
        set (v := view (KCount (p_perm pol)) (sec_of now) ((sec_of now, classify pol err dur) :: epoch_results pol rp)) in *.
        destruct (Z.lt_ge_cases (Z.of_nat (List.length v)) (Z.min (p_min pol) (p_perm pol))) as [Lt | Ge]; [left; auto|].
        right.
        assert (D : tripped pol v \/ ~ tripped pol v).
        { unfold tripped.
          destruct (Z_le_dec (p_fthr pol) (100 * cnt is_fail v / Z.of_nat (List.length v)));
          destruct (Z_le_dec (p_sthr pol) (100 * cnt is_slow v / Z.of_nat (List.length v))); tauto. }
        destruct D as [D | D]; [rewrite (B2 Ge D) | rewrite (B3 Ge D)]; reflexivity.
      + left. exact S2.
  Qed.

  Lemma firstn_succ {A} : forall (l : list A) k x, nth_error l k = Some x -> firstn (S k) l = firstn k l ++ [x].
  Proof.
    induction l as [|a l IH]; intros [|k] x E; cbn [nth_error] in E; try discriminate.
    - injection E as <-. reflexivity.
    - cbn [firstn app]. f_equal. rewrite <- IH by exact E. reflexivity.
  Qed.

  Lemma combine_snoc {A B} : forall (a : list A) (b : list B) x y,
    List.length a = List.length b -> combine (a ++ [x]) (b ++ [y]) = combine a b ++ [(x, y)].
  Proof.
    induction a as [|a0 a IH]; intros [|b0 b] x y L; cbn [List.length] in L; try discriminate; [reflexivity|].
    cbn [app combine]. f_equal. apply IH. lia.
  Qed.

  Lemma history_succ k o ob :
    nth_error ops k = Some o -> nth_error obs k = Some ob -> H (S k) = (o, ob) :: H k.
  Proof.
    intros E1 E2. unfold H, history_before.
    rewrite (firstn_succ _ _ _ E1), (firstn_succ _ _ _ E2), combine_snoc, rev_app_distr; [reflexivity|].
    assert (k < List.length ops)%nat by (apply nth_error_Some; congruence).
    assert (k < List.length obs)%nat by (apply nth_error_Some; congruence).
    rewrite !firstn_length. lia.
  Qed.

  Lemma accepted_chain : forall k, (k <= List.length ops)%nat -> chain (H k).
  Proof.
    destruct (checker_sound _ _ _ _ ACC) as [L S].
    induction k as [|k IH]; intro Hk; [exact I|].
    destruct (nth_error ops k) as [o|] eqn:E1; [|apply nth_error_None in E1; lia].
    destruct (nth_error obs k) as [ob|] eqn:E2; [|apply nth_error_None in E2; lia].
    rewrite (history_succ _ _ _ E1 E2). cbn [chain]. split; [|apply IH; lia].
    apply step_progress. exact (S k o ob E1 E2).
  Qed.

  (** results reported for a state the breaker has left have no effect: if the id carried by
      a result was shown at an earlier step [y] and the breaker has since left that (state, id),
      the step changes nothing and the result never enters the window *)
  Lemma sound_stale_results_no_effect : forall k now id err dur flag s' i' y,
    nth_error ops k = Some (ORec now id err dur) -> nth_error obs k = Some (flag, s', i') ->
    In y (H k) -> snd (shown y) = id -> shown y <> cur (H k) ->
    id <> snd (cur (H k)) /\ flag = false /\ (s', i') = cur (H k) /\
    epoch_results pol (H (S k)) = epoch_results pol (H k).
  Proof.
    intros k now id err dur flag s' i' y E1 E2 Hin Hid Hne.
    assert (Hk : (k <= List.length ops)%nat).
    { assert (k < List.length ops)%nat by (apply nth_error_Some; congruence). lia. }
    destruct (chain_ids _ (accepted_chain k Hk) y Hin) as [Le Eq].
    assert (N : id <> snd (cur (H k))) by (intro C; apply Hne, Eq; congruence).
    destruct (checker_sound _ _ _ _ ACC) as [_ S]. specialize (S k _ _ E1 E2).
    cbn [step_clause rec_clause] in S. fold (H k) in S. destruct S as [S _]. destruct (S N) as [F B].
    split; [exact N|]. split; [exact F|]. split; [exact B|].
    rewrite (history_succ _ _ _ E1 E2). unfold epoch_results. cbn [cur shown body].
    assert (T : sid_eqb (s', i') (cur (H k)) = true) by (apply sid_eqb_eq; exact B).
    rewrite T. cbn [results]. rewrite B. cbn [snd] .
    destruct (Z.eqb_spec id (snd (cur (H k)))); [contradiction | reflexivity].
  Qed.
End Accepted.

(** ** what the history-derived notions are, with explicit quantifiers *)

(** the history (newest first) splits into the steps of the current epoch, all showing the
    current (state, id), then the step that entered it (showing it too, unlike its
    predecessor), then the older steps; in the initial epoch there is no entry step and
    the current (state, id) is (CLOSED, 1) *)
Lemma epoch_split : forall rp,
  (forall x, In x (body rp) -> shown x = cur rp) /\
  match entry rp with
  | Some e => exists older, rp = body rp ++ e :: older /\ shown e = cur rp /\ shown e <> cur older
  | None => rp = body rp /\ cur rp = (Closed, 1)
  end.
Proof.
  induction rp as [|x older IH]; [split; [intros ? []|split; reflexivity]|].
  cbn [body entry cur]. destruct (sid_eqb (shown x) (cur older)) eqn:E.
  - apply sid_eqb_eq in E. destruct IH as [IH1 IH2]. split.
    + intros y [<- | Hy]; [reflexivity|]. rewrite E. now apply IH1.
    + destruct (entry older) as [e|].
      * destruct IH2 as (o2 & R & S1 & S2). exists o2. rewrite E. cbn [app]. rewrite <- R. auto.
      * destruct IH2 as [R C]. rewrite E. cbn [app]. rewrite <- R. auto.
  - split; [intros ? []|]. exists older. repeat split; auto.
    intro C. rewrite <- C in E. assert (sid_eqb (shown x) (shown x) = true) by now apply sid_eqb_eq. congruence.
Qed.

(** the window's raw material: exactly the results recorded, without panic, with the
    current id by the steps of the current epoch (entry step excluded) *)
Lemma results_spec pol id : forall l e,
  In e (results pol id l) <->
  exists now err dur s i, In (ORec now id err dur, (false, s, i)) l /\ e = (sec_of now, classify pol err dur).
Proof.
  induction l as [|[o [[f s] i]] t IH]; intro e; cbn [results].
  - split; [intros [] | intros (? & ? & ? & ? & ? & [] & _)].
  - destruct o as [now | now i0 err dur].
    + rewrite IH. split; intros (n & er & d & s0 & i1 & Hin & E); exists n, er, d, s0, i1; (split; [|exact E]).
      * now right.
      * destruct Hin as [X | X]; [discriminate X | exact X].
    + destruct (Z.eqb_spec i0 id) as [-> | N]; destruct f; cbn [andb negb].
      * rewrite IH. split; intros (n & er & d & s0 & i1 & Hin & E); exists n, er, d, s0, i1; (split; [|exact E]).
        -- now right.
        -- destruct Hin as [X | X]; [discriminate X | exact X].
      * cbn [In]. rewrite IH. split.
        -- intros [<- | (n & er & d & s0 & i1 & Hin & E)].
           ++ exists now, err, dur, s, i. split; [now left | reflexivity].
           ++ exists n, er, d, s0, i1. split; [now right | exact E].
        -- intros (n & er & d & s0 & i1 & [X | Hin] & E).
           ++ inversion X; subst. now left.
           ++ right. exists n, er, d, s0, i1. auto.
      * rewrite IH. split; intros (n & er & d & s0 & i1 & Hin & E); exists n, er, d, s0, i1; (split; [|exact E]).
        -- now right.
        -- destruct Hin as [X | X]; [inversion X; subst; contradiction | exact X].
      * rewrite IH. split; intros (n & er & d & s0 & i1 & Hin & E); exists n, er, d, s0, i1; (split; [|exact E]).
        -- now right.
        -- destruct Hin as [X | X]; [inversion X; subst; contradiction | exact X].
Qed.
