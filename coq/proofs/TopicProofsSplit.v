(** C14 proofs, part 1: splitTopic = well-formedness test + split at '/';
    join/split round trip (injectivity of the split); boolean twin of [matches]. *)
From EG.lib Require Import Base.
From EG.model Require Import Topic.
Open Scope string_scope.
Open Scope list_scope.

(** *** small string facts *)
Lemma sapp_nil_r (s : string) : (s ++ "")%string = s.
Proof. induction s as [|a s IH]; simpl; [reflexivity | now rewrite IH]. Qed.

Lemma sapp_assoc1 (s : string) (c : ascii) (h : string) :
  (app1 s c ++ h)%string = (s ++ String c h)%string.
Proof. unfold app1. induction s as [|a s IH]; simpl; [reflexivity | now rewrite IH]. Qed.

Lemma has_wild_app (s t : string) : has_wild (s ++ t)%string = has_wild s || has_wild t.
Proof.
  induction s as [|a s IH]; simpl; [reflexivity|].
  rewrite IH. now rewrite !orb_assoc.
Qed.

Fixpoint has_hash (s : string) : bool :=
  match s with
  | EmptyString => false
  | String ch r => Ascii.eqb ch "#" || has_hash r
  end.

Lemma has_hash_app (s t : string) : has_hash (s ++ t)%string = has_hash s || has_hash t.
Proof.
  induction s as [|a s IH]; simpl; [reflexivity|].
  rewrite IH. now rewrite orb_assoc.
Qed.

Lemma has_hash_wild (s : string) : has_hash s = true -> has_wild s = true.
Proof.
  induction s as [|a s IH]; simpl; [discriminate|].
  intro H. apply orb_true_iff in H as [H|H].
  - rewrite H. now rewrite orb_true_r.
  - rewrite (IH H). now rewrite orb_true_r.
Qed.

Lemma lvl_ok_hash (s : string) : has_hash s = true -> lvl_ok s = false.
Proof.
  intro H. unfold lvl_ok.
  rewrite (has_hash_wild s H). simpl.
  destruct (s =? "+") eqn:E; [|reflexivity].
  apply String.eqb_eq in E. subst s. simpl in H. discriminate.
Qed.

Lemma slen_app (s t : string) : String.length (s ++ t)%string = (String.length s + String.length t)%nat.
Proof. induction s as [|a s IH]; simpl; [reflexivity | now rewrite IH]. Qed.

(** the Go test [len(level) > 1 && wildCardFlag] rejects exactly the levels that are
    not allowed as the LAST level of a filter *)
Lemma lvl_bad_spec (x : string) :
  lvl_bad x (has_wild x) = negb (lvl_ok x || (x =? "#")).
Proof.
  unfold lvl_bad, lvl_ok.
  destruct x as [|a [|b r]].
  - reflexivity.
  - simpl. destruct (Ascii.eqb a "+") eqn:Ep.
    + apply Ascii.eqb_eq in Ep. subst a. reflexivity.
    + destruct (Ascii.eqb a "#") eqn:Eh.
      * apply Ascii.eqb_eq in Eh. subst a. reflexivity.
      * simpl. reflexivity.
  - assert (E1 : (String a (String b r) =? "+") = false).
    { simpl. destruct (Ascii.eqb a "+"); reflexivity. }
    assert (E2 : (String a (String b r) =? "#") = false).
    { simpl. destruct (Ascii.eqb a "#"); reflexivity. }
    rewrite E1, E2. simpl String.length. cbn [Nat.ltb Nat.leb].
    rewrite !orb_false_r. rewrite negb_involutive. reflexivity.
Qed.

Lemma split_slash_nonempty (s : string) : split_slash s <> [].
Proof.
  destruct s as [|a s]; simpl; [discriminate|].
  destruct (Ascii.eqb a "/"); [discriminate|].
  destruct (split_slash s); discriminate.
Qed.

(** first level of the split prefixed by the level accumulated so far *)
Definition pre (cur : string) (ls : list level) : list level :=
  match ls with
  | h :: t => (cur ++ h)%string :: t
  | [] => [cur]
  end.

Lemma pre_empty (ls : list level) : ls <> [] -> pre "" ls = ls.
Proof. destruct ls; [congruence | reflexivity]. Qed.

Lemma wf_levels_hash_first (x : string) (t : list level) :
  has_hash x = true -> (1 < String.length x)%nat \/ t <> [] -> wf_levels (x :: t) = false.
Proof.
  intros Hh Hc. simpl. rewrite (lvl_ok_hash x Hh).
  destruct t as [|y t'].
  - destruct Hc as [Hl|Hn]; [|congruence]. simpl.
    destruct (x =? "#") eqn:E; [|reflexivity].
    apply String.eqb_eq in E. subst x. simpl in Hl. lia.
  - reflexivity.
Qed.

(** the append-at-the-end formulation of the Go loop ([cur] = topic[levelStart:i]);
    the model's [split_go] accumulates the level in reverse and is proved equal below *)
Fixpoint split_go_app (s cur : string) (wc : bool) : option (list level) :=
  match s with
  | EmptyString => if lvl_bad cur wc then None else Some [cur]
  | String ch r =>
      if Ascii.eqb ch "/" then
        if lvl_bad cur wc then None
        else match split_go_app r "" false with
             | Some ls => Some (cur :: ls)
             | None => None
             end
      else if Ascii.eqb ch "+" then split_go_app r (app1 cur ch) true
      else if Ascii.eqb ch "#" then
        match r with
        | EmptyString => split_go_app r (app1 cur ch) true
        | _ => None
        end
      else split_go_app r (app1 cur ch) wc
  end.

Lemma srev_app_acc : forall s acc, srev_app s acc = (srev_app s "" ++ acc)%string.
Proof.
  induction s as [|c r IH]; intro acc; [reflexivity|].
  cbn [srev_app]. rewrite (IH (String c acc)), (IH (String c "")).
  rewrite <- sapp_assoc1. unfold app1. reflexivity.
Qed.

Lemma srev_cons (c : ascii) (r : string) : srev (String c r) = app1 (srev r) c.
Proof. unfold srev, app1. cbn [srev_app]. apply srev_app_acc. Qed.

Lemma split_go_eq : forall s rcur wc, split_go s rcur wc = split_go_app s (srev rcur) wc.
Proof.
  induction s as [|ch r IH]; intros rcur wc; [reflexivity|].
  cbn [split_go split_go_app]. rewrite <- !srev_cons.
  destruct (Ascii.eqb ch "/").
  - rewrite (IH "" false). reflexivity.
  - destruct (Ascii.eqb ch "+"); [apply IH|].
    destruct (Ascii.eqb ch "#"); [|apply IH].
    destruct r; [apply IH | reflexivity].
Qed.

Lemma split_go_spec : forall s cur,
  has_hash cur = false ->
  split_go_app s cur (has_wild cur) =
    (if wf_levels (pre cur (split_slash s)) then Some (pre cur (split_slash s)) else None).
Proof.
  induction s as [|ch r IH]; intros cur Hc.
  - simpl. rewrite sapp_nil_r. rewrite lvl_bad_spec.
    destruct (lvl_ok cur || (cur =? "#")); reflexivity.
  - cbn [split_go_app split_slash].
    destruct (Ascii.eqb ch "/") eqn:Es.
    + (* '/' closes the level *)
      cbn [pre]. rewrite sapp_nil_r.
      rewrite lvl_bad_spec.
      assert (Hne : (cur =? "#") = false).
      { destruct (cur =? "#") eqn:E; [|reflexivity].
        apply String.eqb_eq in E. subst cur. simpl in Hc. discriminate. }
      rewrite Hne, orb_false_r.
      specialize (IH "" eq_refl). cbn [has_wild] in IH. rewrite IH.
      pose proof (split_slash_nonempty r) as Hn.
      destruct (split_slash r) as [|h t] eqn:Er; [congruence|].
      change (pre "" (h :: t)) with (h :: t).
      change (wf_levels (cur :: h :: t)) with (lvl_ok cur && wf_levels (h :: t)).
      destruct (lvl_ok cur); cbn [negb andb].
      * destruct (wf_levels (h :: t)); reflexivity.
      * reflexivity.
    + pose proof (split_slash_nonempty r) as Hn.
      destruct (split_slash r) as [|h t] eqn:Er; [congruence|].
      cbn [pre].
      destruct (Ascii.eqb ch "+") eqn:Ep.
      * apply Ascii.eqb_eq in Ep. subst ch.
        assert (Hw : has_wild (app1 cur "+") = true).
        { unfold app1. rewrite has_wild_app. simpl. now rewrite orb_true_r. }
        assert (Hh : has_hash (app1 cur "+") = false).
        { unfold app1. rewrite has_hash_app, Hc. reflexivity. }
        specialize (IH (app1 cur "+") Hh). rewrite Hw in IH. rewrite IH.
        cbn [pre]. rewrite sapp_assoc1. reflexivity.
      * destruct (Ascii.eqb ch "#") eqn:Eh.
        -- apply Ascii.eqb_eq in Eh. subst ch.
           destruct r as [|c2 r2].
           ++ (* '#' is the last byte *)
              simpl in Er. injection Er as <- <-.
              cbn [split_go_app].
              assert (Hw : has_wild (app1 cur "#") = true).
              { unfold app1. rewrite has_wild_app. simpl. now rewrite orb_true_r. }
              pose proof (lvl_bad_spec (app1 cur "#")) as Hb. rewrite Hw in Hb. rewrite Hb.
              unfold app1. cbn [wf_levels].
              destruct (lvl_ok (cur ++ "#")%string || ((cur ++ "#")%string =? "#")); reflexivity.
           ++ (* '#' before the end: rejected; the first level contains '#' and is
                 either longer than one byte or not the last level *)
              rewrite wf_levels_hash_first; [reflexivity| |].
              ** rewrite has_hash_app. simpl. now rewrite orb_true_r.
              ** simpl in Er. destruct (Ascii.eqb c2 "/") eqn:E2.
                 --- injection Er as <- <-. right. apply split_slash_nonempty.
                 --- left. destruct (split_slash r2) as [|h2 t2]; injection Er as <- <-;
                       rewrite slen_app; simpl; lia.
        -- assert (Hw : has_wild (app1 cur ch) = has_wild cur).
           { unfold app1. rewrite has_wild_app. simpl. rewrite Ep, Eh. simpl.
             now rewrite orb_false_r. }
           assert (Hh : has_hash (app1 cur ch) = false).
           { unfold app1. rewrite has_hash_app, Hc. simpl. rewrite Eh. reflexivity. }
           specialize (IH (app1 cur ch) Hh). rewrite Hw in IH. rewrite IH.
           cbn [pre]. rewrite sapp_assoc1. reflexivity.
Qed.

(** splitTopic accepts exactly the well-formed filters and returns the '/'-split *)
Theorem split_topic_spec (s : string) :
  split_topic s = if wf_filter s then Some (split_slash s) else None.
Proof.
  unfold split_topic, wf_filter. rewrite split_go_eq. change (srev "") with "".
  pose proof (split_go_spec s "" eq_refl) as H. cbn [has_wild] in H.
  rewrite (pre_empty _ (split_slash_nonempty s)) in H. exact H.
Qed.

Lemma split_topic_some (s : string) (ls : list level) :
  split_topic s = Some ls <-> wf_filter s = true /\ ls = split_slash s.
Proof.
  rewrite split_topic_spec. destruct (wf_filter s); split.
  - intro H. injection H as <-. auto.
  - intros [_ ->]. reflexivity.
  - discriminate.
  - intros [H _]. discriminate.
Qed.

Lemma valid_filter_wf (s : string) : valid_filter s = wf_filter s.
Proof. unfold valid_filter. rewrite split_topic_spec. destruct (wf_filter s); reflexivity. Qed.

(** well-formedness as an inductive predicate (readable form of [wf_levels]) *)
Inductive wellformed : list level -> Prop :=
| WF_hash : wellformed ["#"]
| WF_last : forall l, lvl_ok l = true -> wellformed [l]
| WF_cons : forall l r, lvl_ok l = true -> wellformed r -> wellformed (l :: r).

Lemma wf_levels_iff (ls : list level) : wf_levels ls = true <-> wellformed ls.
Proof.
  induction ls as [|l r IH].
  - split; [discriminate | inversion 1].
  - destruct r as [|l2 r2].
    + cbn [wf_levels]. split.
      * intro H. apply orb_true_iff in H as [H|H].
        -- now apply WF_last.
        -- apply String.eqb_eq in H. subst l. apply WF_hash.
      * intro H. inversion H as [| l0 Hl | l0 r0 Hl Hr]; subst.
        -- reflexivity.
        -- rewrite Hl. reflexivity.
        -- inversion Hr.
    + change (wf_levels (l :: l2 :: r2)) with (lvl_ok l && wf_levels (l2 :: r2)). split.
      * intro H. apply andb_true_iff in H as [H1 H2]. apply WF_cons; [exact H1 | now apply IH].
      * intro H. inversion H as [| l0 Hl | l0 r0 Hl Hr]; subst.
        apply andb_true_iff. split; [exact Hl | now apply IH].
Qed.

(** *** join / split round trip: the level list determines the string *)
Lemma join_split_slash (s : string) : join (split_slash s) = s.
Proof.
  induction s as [|ch r IH]; [reflexivity|].
  cbn [split_slash]. pose proof (split_slash_nonempty r) as Hn.
  destruct (Ascii.eqb ch "/") eqn:Es.
  - apply Ascii.eqb_eq in Es. subst ch.
    destruct (split_slash r) as [|h t] eqn:Er; [congruence|].
    change (join ("" :: h :: t)) with ("" ++ String "/" (join (h :: t)))%string.
    rewrite IH. reflexivity.
  - destruct (split_slash r) as [|h t] eqn:Er; [congruence|].
    destruct t as [|h2 t2].
    + simpl in IH. simpl. now rewrite IH.
    + change (join (String ch h :: h2 :: t2)) with (String ch h ++ String "/" (join (h2 :: t2)))%string.
      change (join (h :: h2 :: t2)) with (h ++ String "/" (join (h2 :: t2)))%string in IH.
      cbn [append]. f_equal. exact IH.
Qed.

Lemma split_topic_inj (f g : string) (ls : list level) :
  split_topic f = Some ls -> split_topic g = Some ls -> f = g.
Proof.
  intros Hf Hg. apply split_topic_some in Hf as [_ Hf]. apply split_topic_some in Hg as [_ Hg].
  rewrite <- (join_split_slash f), <- (join_split_slash g). congruence.
Qed.

(** *** topic names (no wildcard character) are always accepted, level-wise wildcard-free *)
Lemma has_wild_split_slash (s : string) :
  has_wild s = false -> Forall (fun l => has_wild l = false) (split_slash s).
Proof.
  induction s as [|ch r IH]; intro H.
  - constructor; [reflexivity | constructor].
  - cbn [has_wild] in H. apply orb_false_iff in H as [H1 H2].
    specialize (IH H2). cbn [split_slash].
    destruct (Ascii.eqb ch "/").
    + constructor; [reflexivity | exact IH].
    + destruct (split_slash r) as [|h t].
      * constructor; [|constructor]. simpl. now rewrite H1.
      * inversion IH as [|? ? Hh Ht]; subst. constructor; [|exact Ht].
        simpl. now rewrite H1, Hh.
Qed.

Lemma plain_levels_wf (ls : list level) :
  ls <> [] -> Forall (fun l => has_wild l = false) ls -> wf_levels ls = true.
Proof.
  induction ls as [|l r IH]; intros Hn HF; [congruence|].
  inversion HF as [|? ? Hl Hr]; subst.
  destruct r as [|l2 r2].
  - cbn [wf_levels]. unfold lvl_ok. rewrite Hl. reflexivity.
  - change (wf_levels (l :: l2 :: r2)) with (lvl_ok l && wf_levels (l2 :: r2)).
    unfold lvl_ok at 1. rewrite Hl. simpl. apply IH; [discriminate | exact Hr].
Qed.

Lemma topic_name_accepted (T : string) :
  has_wild T = false ->
  split_topic T = Some (split_slash T) /\ topic_name (split_slash T).
Proof.
  intro H. pose proof (has_wild_split_slash T H) as HF. split.
  - rewrite split_topic_spec. unfold wf_filter.
    rewrite (plain_levels_wf _ (split_slash_nonempty T) HF). reflexivity.
  - unfold topic_name. eapply Forall_impl; [|exact HF].
    intros l Hl. unfold name_level. split; intro E; subst l; simpl in Hl; discriminate.
Qed.

(** *** boolean twin of the matching relation *)
Theorem matches_dec_correct (fs ts : list level) : matchesb fs ts = true <-> matches fs ts.
Proof.
  split.
  - revert ts. induction fs as [|f fr IH]; intros ts H.
    + destruct ts; [constructor | discriminate].
    + cbn [matchesb] in H. apply orb_true_iff in H as [H|H].
      * apply andb_true_iff in H as [H1 H2]. apply String.eqb_eq in H1. subst f.
        destruct fr; [constructor | discriminate].
      * destruct ts as [|t tr]; [discriminate|].
        apply andb_true_iff in H as [H1 H2]. specialize (IH _ H2).
        apply orb_true_iff in H1 as [H1|H1]; apply String.eqb_eq in H1; subst f.
        -- now constructor.
        -- now constructor.
  - induction 1 as [| ts | fs t ts _ IH | l fs ts _ IH].
    + reflexivity.
    + cbn [matchesb]. reflexivity.
    + cbn [matchesb]. rewrite IH. apply orb_true_iff. right. rewrite andb_true_r. reflexivity.
    + cbn [matchesb]. rewrite IH, String.eqb_refl. apply orb_true_iff. right.
      rewrite andb_true_r. apply orb_true_r.
Qed.

(** length alone never makes a filter or a topic name malformed: well-formedness only
    looks at the placement of '+' and '#'; in particular the longest string an MQTT packet
    can carry (65535 bytes, two-byte length prefix) is accepted like any other *)
Definition accepts_as (s : string) (ls : list level) : bool :=
  match split_topic s with Some l => list_eqb String.eqb l ls | None => false end.

Theorem length_never_malformed :
  (forall s, wf_filter s = true -> split_topic s = Some (split_slash s)) /\
  (forall T, has_wild T = false -> split_topic T = Some (split_slash T)) /\
  accepts_as (srep "x" 65535) [srep "x" 65535] = true /\
  accepts_as (sx [("dev/", 1%N); ("x", 65525%N); ("/state", 1%N)]) ["dev"; srep "x" 65525; "state"] = true /\
  accepts_as (srep "/" 65535) (repeat "" (N.to_nat 65536)) = true.
Proof.
  split; [|split; [|split; [|split]]].
  - intros s H. rewrite split_topic_spec, H. reflexivity.
  - intros T H. apply topic_name_accepted. exact H.
  - vm_compute. reflexivity.
  - vm_compute. reflexivity.
  - vm_compute. reflexivity.
Qed.
