(** C13 - lemmas about the validation model ([model/Schema.v]) over the
    GENERATED schema ([gen/GenSchema.v]).

    Generic part (any spec type): what [schema_ok] / [format_ok] / [norm] say
    about the value reached by a path, from the tag content found by
    [type_at] in the generated type.  Per-kind part: accepted by the repaired
    validation ([ideal]) implies that no modelled panic site is reachable. *)
From Coq Require Import ZifyBool.
From EG.lib Require Import Base SchemaTy.
From EG.gen Require Import GenSchema.
From EG.model Require Import Schema RL LB.
Open Scope string_scope.
Open Scope Z_scope.

(** ** booleans *)
Lemma andb_true_l (a b : bool) : a && b = true -> a = true.
Proof. now destruct a. Qed.
Lemma andb_true_r (a b : bool) : a && b = true -> b = true.
Proof. destruct a; [auto | discriminate]. Qed.

Ltac split_and :=
  repeat match goal with
         | H : _ && _ = true |- _ => apply andb_true_iff in H; destruct H
         end.

(** ** field lookup *)
Lemma field_of_In n fs m ft : field_of n fs = Some (m, ft) -> In (n, m, ft) fs.
Proof.
  induction fs as [|[[n' m'] ft'] r IH]; cbn; [discriminate|].
  destruct (String.eqb n n') eqn:E.
  - intros [= <- <-]. apply String.eqb_eq in E. subst. now left.
  - intro H. right. now apply IH.
Qed.

(** ** schema: every field of the struct is checked against its tags *)
Lemma schema_fields_field o rec kv fs n m ft x :
  schema_fields o rec kv fs = true -> In (n, m, ft) fs -> f_noschema m = false ->
  alookup n kv = Some x -> rec ft x = true /\ field_constraints o m ft x = true.
Proof.
  induction fs as [|[[n' m'] ft'] r IH]; cbn; [tauto|].
  intros H [Hin|Hin] Hns Hl.
  - inversion Hin; subst. rewrite Hns, Hl in H. split_and. auto.
  - apply andb_true_r in H. now apply IH.
Qed.

Lemma schema_fields_required o rec kv fs n m ft :
  schema_fields o rec kv fs = true -> In (n, m, ft) fs -> f_noschema m = false -> f_req m = true ->
  exists x, alookup n kv = Some x.
Proof.
  induction fs as [|[[n' m'] ft'] r IH]; cbn; [tauto|].
  intros H [Hin|Hin] Hns Hr.
  - inversion Hin; subst. rewrite Hns in H. destruct (alookup n kv); [eauto|].
    rewrite Hr in H. discriminate.
  - apply andb_true_r in H. now apply IH.
Qed.

(** ** formats: every field of the struct that is traversed is checked *)
Lemma format_fields_field o rec kv fs n m ft x :
  format_fields o rec kv fs = true -> In (n, m, ft) fs -> alookup n kv = Some x -> is_null x = false ->
  rec ft x = true /\
  (str_empty (f_format m) = false -> (f_jomit m && is_zero ft x) = false -> apply_format o (f_format m) x = true).
Proof.
  induction fs as [|[[n' m'] ft'] r IH]; cbn; [tauto|].
  intros H [Hin|Hin] Hl Hnn.
  - inversion Hin; subst. rewrite Hl, Hnn in H. rewrite andb_false_r in H. split_and.
    split; [assumption|]. intros Hf Hz.
    match goal with H : (if str_empty _ then _ else _) = true |- _ => rewrite Hf, Hz in H; exact H end.
  - apply andb_true_r in H. now apply IH.
Qed.

Lemma format_ok_base o t x : format_ok o t x = true -> is_null x = false -> format_ok o (base_ty t) x = true.
Proof.
  induction t; cbn; auto.
  intros H Hn. rewrite Hn in H. auto.
Qed.

Lemma base_ty_not_ptr t : forall t', base_ty t <> TPtr t'.
Proof. induction t; cbn; try discriminate. auto. Qed.

(** what the tags of a field say about a traversed, non-null value *)
Definition fmt_clause (o : orc) (m : option fmeta) (t : gty) (x : jvalue) : Prop :=
  match m with
  | Some m => str_empty (f_format m) = false -> (f_jomit m && is_zero t x) = false -> apply_format o (f_format m) x = true
  | None => True
  end.

Definition sch_clause (o : orc) (m : option fmeta) (t : gty) (x : jvalue) : Prop :=
  match m with
  | Some m => f_noschema m = false -> field_constraints o m t x = true
  | None => True
  end.

Lemma format_ok_step o t s g x m t' :
  format_ok o t g = true -> is_null g = false -> descend t s = Some (m, t') ->
  one_step s g x -> is_null x = false ->
  format_ok o t' x = true /\ fmt_clause o m t' x.
Proof.
  intros H Hn Hd Hs Hx. apply format_ok_base in H; [|assumption].
  unfold descend in Hd. destruct (base_ty t) eqn:Eb; try discriminate; destruct s; try discriminate.
  - (* slice *) inversion Hd; subst; cbn. destruct Hs as [[l [-> Hin]] | [kv [k [-> Hin]]]]; cbn in H; [|discriminate].
    rewrite forallb_forall in H. specialize (H _ Hin). cbn in H. rewrite Hx in H. auto.
  - (* map *) inversion Hd; subst; cbn. destruct Hs as [[l [-> Hin]] | [kv [k [-> Hin]]]]; cbn in H; [discriminate|].
    rewrite forallb_forall in H. specialize (H _ Hin). cbn in H. rewrite Hx in H. auto.
  - (* struct *) destruct (field_of n fs) as [[m0 ft]|] eqn:Ef; [|discriminate].
    destruct (f_noschema m0) eqn:En; [discriminate|]. inversion Hd; subst.
    destruct Hs as [kv [-> Hl]]. cbn in H.
    apply field_of_In in Ef. destruct (format_fields_field _ _ _ _ _ _ _ _ H Ef Hl Hx) as [A B]. split; [exact A|exact B].
Qed.

Lemma reach_nonnull s r g v : reach (s :: r) g v -> is_null g = false.
Proof.
  cbn. intros [x [Hs _]]. destruct s; cbn in Hs.
  - destruct Hs as [kv [-> _]]. reflexivity.
  - destruct Hs as [[l [-> _]] | [kv [k [-> _]]]]; reflexivity.
Qed.

(** [format_ok] along a whole path: the value reached is checked against the tag content
    that [type_at] finds in the (generated) type *)
Lemma format_ok_reach o : forall r s t m0 g v m t',
  format_ok o t g = true -> type_at t m0 (s :: r) = Some (m, t') -> reach (s :: r) g v -> is_null v = false ->
  format_ok o t' v = true /\ fmt_clause o m t' v.
Proof.
  induction r as [|s2 r IH]; intros s t m0 g v m t' H Ht Hr Hv.
  - pose proof (reach_nonnull _ _ _ _ Hr) as Hn. cbn in Ht, Hr. destruct Hr as [x [Hs <-]].
    destruct (descend t s) as [[m1 t1]|] eqn:Ed; [|discriminate]. inversion Ht; subst.
    eapply format_ok_step; eauto.
  - pose proof (reach_nonnull _ _ _ _ Hr) as Hn.
    change (type_at t m0 (s :: s2 :: r)) with (match descend t s with Some (m, t') => type_at t' m (s2 :: r) | None => None end) in Ht.
    destruct (descend t s) as [[m1 t1]|] eqn:Ed; [|discriminate].
    destruct Hr as [x [Hs Hr]].
    pose proof (reach_nonnull _ _ _ _ Hr) as Hxn.
    destruct (format_ok_step _ _ _ _ _ _ _ H Hn Ed Hs Hxn) as [Hx _].
    eapply IH; eauto.
Qed.

Lemma schema_ok_base o t x : schema_ok o t x = true -> schema_ok o (base_ty t) x = true.
Proof. induction t; cbn; auto. Qed.

Lemma schema_ok_step o t s g x m t' :
  schema_ok o t g = true -> descend t s = Some (m, t') -> one_step s g x ->
  schema_ok o t' x = true /\ sch_clause o m t' x.
Proof.
  intros H Hd Hs. apply schema_ok_base in H.
  unfold descend in Hd. destruct (base_ty t) eqn:Eb; try discriminate; destruct s; try discriminate.
  - inversion Hd; subst; cbn. destruct Hs as [[l [-> Hin]] | [kv [k [-> Hin]]]]; cbn in H; [|discriminate].
    rewrite forallb_forall in H. specialize (H _ Hin). auto.
  - inversion Hd; subst; cbn. destruct Hs as [[l [-> Hin]] | [kv [k [-> Hin]]]]; cbn in H; [discriminate|].
    rewrite forallb_forall in H. specialize (H _ Hin). cbn in H. auto.
  - destruct (field_of n fs) as [[m0 ft]|] eqn:Ef; [|discriminate].
    destruct (f_noschema m0) eqn:En; [discriminate|]. inversion Hd; subst.
    destruct Hs as [kv [-> Hl]]. cbn in H. apply field_of_In in Ef. cbn.
    destruct (schema_fields_field _ _ _ _ _ _ _ _ H Ef En Hl). auto.
Qed.

Lemma schema_ok_reach o : forall r s t m0 g v m t',
  schema_ok o t g = true -> type_at t m0 (s :: r) = Some (m, t') -> reach (s :: r) g v ->
  schema_ok o t' v = true /\ sch_clause o m t' v.
Proof.
  induction r as [|s2 r IH]; intros s t m0 g v m t' H Ht Hr.
  - cbn in Ht, Hr. destruct Hr as [x [Hs <-]].
    destruct (descend t s) as [[m1 t1]|] eqn:Ed; [|discriminate]. inversion Ht; subst.
    eapply schema_ok_step; eauto.
  - change (type_at t m0 (s :: s2 :: r)) with (match descend t s with Some (m, t') => type_at t' m (s2 :: r) | None => None end) in Ht.
    destruct (descend t s) as [[m1 t1]|] eqn:Ed; [|discriminate].
    destruct Hr as [x [Hs Hr]].
    destruct (schema_ok_step _ _ _ _ _ _ _ H Ed Hs) as [Hx _].
    eapply IH; eauto.
Qed.

(** ** decoding: a field of the struct type is present in the image *)
Definition field_val (rec : gty -> jvalue -> jvalue -> option jvalue) (dflt : jvalue) (kv : list (string * jvalue))
  (n : string) (ft : gty) : option jvalue :=
  let d := match jfield n dflt with Some d => d | None => JNull end in
  match alookup n kv with
  | Some x => rec ft d x
  | None => Some (if is_null d then zero ft else d)
  end.

Lemma norm_fields_field rec dflt kv : forall fs out n m ft,
  norm_fields rec dflt kv fs = Some out -> field_of n fs = Some (m, ft) ->
  exists y, field_val rec dflt kv n ft = Some y /\ (keep_field m ft y = true -> alookup n out = Some y).
Proof.
  induction fs as [|[[n' m'] ft'] r IH]; intros out n m ft H Hf; cbn in Hf; [discriminate|].
  cbn in H. fold (field_val rec dflt kv n' ft') in H.
  destruct (field_val rec dflt kv n' ft') as [y'|] eqn:Ey; [|discriminate].
  destruct (norm_fields rec dflt kv r) as [r'|] eqn:Er; [|discriminate].
  destruct (String.eqb n n') eqn:E.
  - apply String.eqb_eq in E. subst n'. inversion Hf; subst m' ft'. clear Hf.
    exists y'. split; [assumption|]. intro Hk. rewrite Hk in H. inversion H; subst. cbn. now rewrite String.eqb_refl.
  - destruct (IH r' n m ft eq_refl Hf) as [y [Hy Hk]]. exists y. split; [assumption|]. intro K. specialize (Hk K).
    destruct (keep_field m' ft' y'); inversion H; subst; cbn; [rewrite E|]; assumption.
Qed.

(** ** TrimNull keeps non-null fields *)
Lemma trim_kv_lookup kv n x :
  alookup n kv = Some x -> is_null x = false -> alookup n (trim_kv trim kv) = Some (trim x).
Proof.
  induction kv as [|[k y] t IH]; cbn; [discriminate|].
  destruct (String.eqb n k) eqn:E.
  - intros [= ->] Hn. rewrite Hn. cbn. now rewrite E.
  - intros H Hn. destruct (is_null y); [auto|]. cbn. rewrite E. auto.
Qed.

(** ** the kind table *)
Lemma find_some {A} (f : A -> bool) l x : find f l = Some x -> In x l /\ f x = true.
Proof.
  induction l as [|a t IH]; cbn; [discriminate|]. destruct (f a) eqn:E.
  - intros [= ->]. auto.
  - intro H. destruct (IH H). auto.
Qed.

Lemma kind_info_of_name cat kind ki : kind_info_of cat kind = Some ki -> k_name ki = kind /\ In ki kinds.
Proof.
  unfold kind_info_of. intro H. apply find_some in H. destruct H as [Hin H].
  apply andb_true_iff in H. destruct H as [H _]. apply String.eqb_eq in H. auto.
Qed.

Ltac kind_cases Hin :=
  unfold kinds in Hin; cbn [In] in Hin;
  repeat (destruct Hin as [Hin|Hin]; [subst; cbn in *; try discriminate|]); try contradiction.

(** ** what acceptance means *)
Lemma accept_inv cv o q cat raw :
  let v := validate_with cv o q cat raw in
  v_accept v = true ->
  exists ki, kind_info_of cat (raw_kind raw) = Some ki /\
    norm (k_ty ki) (JObj (k_defaults ki)) raw = Some (v_image v) /\ v_ty v = k_ty ki /\
    schema_ok o (k_ty ki) (trim (v_image v)) = true /\ format_ok o (k_ty ki) (v_image v) = true /\
    cv (raw_kind raw) (v_image v) = true /\
    (q_null_entry q = false -> has_null_entry (k_ty ki) (v_image v) = false).
Proof.
  cbv zeta. unfold validate_with.
  destruct (meta_ok o raw) as [mok|]; [|cbn; discriminate].
  destruct (kind_info_of cat (raw_kind raw)) as [ki|]; [|cbn; discriminate].
  destruct (norm (k_ty ki) (JObj (k_defaults ki)) raw) as [g|]; [|cbn; discriminate].
  cbn. intro H. split_and. exists ki. repeat split; auto.
  intro Hq. rewrite Hq in *. now apply negb_true_iff.
Qed.
