(** C13 - lemmas about the validation model ([model/Schema.v]) over the
    GENERATED schema ([gen/GenSchema.v]).

    Generic part (any spec type): what [schema_ok] / [format_ok] / [norm] say
    about the value reached by a path, from the tag content found by
    [type_at] in the generated type.  Per-kind part: accepted by the repaired
    validation ([ideal]) implies that no modelled panic site is reachable. *)
From Coq Require Import ZifyBool.
From EG.lib Require Import Base SchemaTy.
From EG.gen Require Import GenSchema.
From EG.model Require Import Schema SchemaCheck.
From EG.model Require RL LB.
From EG.proofs Require Import SchemaWitness.
Open Scope string_scope.
Open Scope Z_scope.

(** ** booleans *)
Lemma andb_true_l (a b : bool) : a && b = true -> a = true.
Proof. now destruct a. Qed.
Lemma andb_true_r (a b : bool) : a && b = true -> b = true.
Proof. destruct a; [auto | discriminate]. Qed.

Ltac split_and :=
  repeat match goal with
         | H : _ && _ = true |- _ => apply andb_true_iff in H; destruct H
         end.

(** ** field lookup *)
Lemma field_of_In n fs m ft : field_of n fs = Some (m, ft) -> In (n, m, ft) fs.
Proof.
  induction fs as [|[[n' m'] ft'] r IH]; cbn; [discriminate|].
  destruct (String.eqb n n') eqn:E.
  - intros [= <- <-]. apply String.eqb_eq in E. subst. now left.
  - intro H. right. now apply IH.
Qed.

(** ** schema: every field of the struct is checked against its tags *)
Lemma schema_fields_field o rec kv fs n m ft x :
  schema_fields o rec kv fs = true -> In (n, m, ft) fs -> f_noschema m = false ->
  alookup n kv = Some x -> rec ft x = true /\ field_constraints o m ft x = true.
Proof.
  induction fs as [|[[n' m'] ft'] r IH]; cbn; [tauto|].
  intros H [Hin|Hin] Hns Hl.
  - inversion Hin; subst. rewrite Hns, Hl in H. split_and. auto.
  - apply andb_true_r in H. now apply IH.
Qed.

Lemma schema_fields_required o rec kv fs n m ft :
  schema_fields o rec kv fs = true -> In (n, m, ft) fs -> f_noschema m = false -> f_req m = true ->
  exists x, alookup n kv = Some x.
Proof.
  induction fs as [|[[n' m'] ft'] r IH]; cbn; [tauto|].
  intros H [Hin|Hin] Hns Hr.
  - inversion Hin; subst. rewrite Hns in H. destruct (alookup n kv); [eauto|].
    rewrite Hr in H. discriminate.
  - apply andb_true_r in H. now apply IH.
Qed.

(** ** formats: every field of the struct that is traversed is checked *)
Lemma format_fields_field o rec kv fs n m ft x :
  format_fields o rec kv fs = true -> In (n, m, ft) fs -> alookup n kv = Some x -> is_null x = false ->
  rec ft x = true /\
  (str_empty (f_format m) = false -> (f_jomit m && is_zero ft x) = false -> apply_format o (f_format m) x = true).
Proof.
  induction fs as [|[[n' m'] ft'] r IH]; cbn; [tauto|].
  intros H [Hin|Hin] Hl Hnn.
  - inversion Hin; subst. rewrite Hl, Hnn in H. rewrite andb_false_r in H. split_and.
    split; [assumption|]. intros Hf Hz.
    match goal with H : (if str_empty _ then _ else _) = true |- _ => rewrite Hf, Hz in H; exact H end.
  - apply andb_true_r in H. now apply IH.
Qed.

Lemma format_ok_base o t x : format_ok o t x = true -> is_null x = false -> format_ok o (base_ty t) x = true.
Proof.
  induction t; cbn; auto.
  intros H Hn. rewrite Hn in H. auto.
Qed.

Lemma base_ty_not_ptr t : forall t', base_ty t <> TPtr t'.
Proof. induction t; cbn; try discriminate. auto. Qed.

(** what the tags of a field say about a traversed, non-null value *)
Definition fmt_clause (o : orc) (m : option fmeta) (t : gty) (x : jvalue) : Prop :=
  match m with
  | Some m => str_empty (f_format m) = false -> (f_jomit m && is_zero t x) = false -> apply_format o (f_format m) x = true
  | None => True
  end.

Definition sch_clause (o : orc) (m : option fmeta) (t : gty) (x : jvalue) : Prop :=
  match m with
  | Some m => f_noschema m = false -> field_constraints o m t x = true
  | None => True
  end.

Lemma format_ok_step o t s g x m t' :
  format_ok o t g = true -> is_null g = false -> descend t s = Some (m, t') ->
  one_step s g x -> is_null x = false ->
  format_ok o t' x = true /\ fmt_clause o m t' x.
Proof.
  intros H Hn Hd Hs Hx. apply format_ok_base in H; [|assumption].
  unfold descend in Hd. destruct (base_ty t) eqn:Eb; try discriminate; destruct s; try discriminate.
  - (* slice *) inversion Hd; subst; cbn. destruct Hs as [[l [-> Hin]] | [kv [k [-> Hin]]]]; cbn in H; [|discriminate].
    rewrite forallb_forall in H. specialize (H _ Hin). cbn in H. rewrite Hx in H. auto.
  - (* map *) inversion Hd; subst; cbn. destruct Hs as [[l [-> Hin]] | [kv [k [-> Hin]]]]; cbn in H; [discriminate|].
    rewrite forallb_forall in H. specialize (H _ Hin). cbn in H. rewrite Hx in H. auto.
  - (* struct *) destruct (field_of n fs) as [[m0 ft]|] eqn:Ef; [|discriminate].
    destruct (f_noschema m0) eqn:En; [discriminate|]. inversion Hd; subst.
    destruct Hs as [kv [-> Hl]]. cbn in H.
    apply field_of_In in Ef. destruct (format_fields_field _ _ _ _ _ _ _ _ H Ef Hl Hx) as [A B]. split; [exact A|exact B].
Qed.

Lemma reach_nonnull s r g v : reach (s :: r) g v -> is_null g = false.
Proof.
  cbn. intros [x [Hs _]]. destruct s; cbn in Hs.
  - destruct Hs as [kv [-> _]]. reflexivity.
  - destruct Hs as [[l [-> _]] | [kv [k [-> _]]]]; reflexivity.
Qed.

(** [format_ok] along a whole path: the value reached is checked against the tag content
    that [type_at] finds in the (generated) type *)
Lemma format_ok_reach o : forall r s t m0 g v m t',
  format_ok o t g = true -> type_at t m0 (s :: r) = Some (m, t') -> reach (s :: r) g v -> is_null v = false ->
  format_ok o t' v = true /\ fmt_clause o m t' v.
Proof.
  induction r as [|s2 r IH]; intros s t m0 g v m t' H Ht Hr Hv.
  - pose proof (reach_nonnull _ _ _ _ Hr) as Hn. cbn in Ht, Hr. destruct Hr as [x [Hs <-]].
    destruct (descend t s) as [[m1 t1]|] eqn:Ed; [|discriminate]. inversion Ht; subst.
    eapply format_ok_step; eauto.
  - pose proof (reach_nonnull _ _ _ _ Hr) as Hn.
    change (type_at t m0 (s :: s2 :: r)) with (match descend t s with Some (m, t') => type_at t' m (s2 :: r) | None => None end) in Ht.
    destruct (descend t s) as [[m1 t1]|] eqn:Ed; [|discriminate].
    destruct Hr as [x [Hs Hr]].
    pose proof (reach_nonnull _ _ _ _ Hr) as Hxn.
    destruct (format_ok_step _ _ _ _ _ _ _ H Hn Ed Hs Hxn) as [Hx _].
    eapply IH; eauto.
Qed.

Lemma schema_ok_base o t x : schema_ok o t x = true -> schema_ok o (base_ty t) x = true.
Proof. induction t; cbn; auto. Qed.

Lemma schema_ok_step o t s g x m t' :
  schema_ok o t g = true -> descend t s = Some (m, t') -> one_step s g x ->
  schema_ok o t' x = true /\ sch_clause o m t' x.
Proof.
  intros H Hd Hs. apply schema_ok_base in H.
  unfold descend in Hd. destruct (base_ty t) eqn:Eb; try discriminate; destruct s; try discriminate.
  - inversion Hd; subst; cbn. destruct Hs as [[l [-> Hin]] | [kv [k [-> Hin]]]]; cbn in H; [|discriminate].
    rewrite forallb_forall in H. specialize (H _ Hin). auto.
  - inversion Hd; subst; cbn. destruct Hs as [[l [-> Hin]] | [kv [k [-> Hin]]]]; cbn in H; [discriminate|].
    rewrite forallb_forall in H. specialize (H _ Hin). cbn in H. auto.
  - destruct (field_of n fs) as [[m0 ft]|] eqn:Ef; [|discriminate].
    destruct (f_noschema m0) eqn:En; [discriminate|]. inversion Hd; subst.
    destruct Hs as [kv [-> Hl]]. cbn in H. apply field_of_In in Ef. cbn.
    destruct (schema_fields_field _ _ _ _ _ _ _ _ H Ef En Hl). auto.
Qed.

Lemma schema_ok_reach o : forall r s t m0 g v m t',
  schema_ok o t g = true -> type_at t m0 (s :: r) = Some (m, t') -> reach (s :: r) g v ->
  schema_ok o t' v = true /\ sch_clause o m t' v.
Proof.
  induction r as [|s2 r IH]; intros s t m0 g v m t' H Ht Hr.
  - cbn in Ht, Hr. destruct Hr as [x [Hs <-]].
    destruct (descend t s) as [[m1 t1]|] eqn:Ed; [|discriminate]. inversion Ht; subst.
    eapply schema_ok_step; eauto.
  - change (type_at t m0 (s :: s2 :: r)) with (match descend t s with Some (m, t') => type_at t' m (s2 :: r) | None => None end) in Ht.
    destruct (descend t s) as [[m1 t1]|] eqn:Ed; [|discriminate].
    destruct Hr as [x [Hs Hr]].
    destruct (schema_ok_step _ _ _ _ _ _ _ H Ed Hs) as [Hx _].
    eapply IH; eauto.
Qed.

(** ** decoding: a field of the struct type is present in the image *)
Definition field_val (rec : gty -> jvalue -> jvalue -> option jvalue) (dflt : jvalue) (kv : list (string * jvalue))
  (n : string) (ft : gty) : option jvalue :=
  let d := match jfield n dflt with Some d => d | None => JNull end in
  match alookup n kv with
  | Some x => rec ft d x
  | None => Some (if is_null d then zero ft else d)
  end.

Lemma norm_fields_field rec dflt kv : forall fs out n m ft,
  norm_fields rec dflt kv fs = Some out -> field_of n fs = Some (m, ft) ->
  exists y, field_val rec dflt kv n ft = Some y /\ (keep_field m ft y = true -> alookup n out = Some y).
Proof.
  induction fs as [|[[n' m'] ft'] r IH]; intros out n m ft H Hf; cbn in Hf; [discriminate|].
  cbn in H. fold (field_val rec dflt kv n' ft') in H.
  destruct (field_val rec dflt kv n' ft') as [y'|] eqn:Ey; [|discriminate].
  destruct (norm_fields rec dflt kv r) as [r'|] eqn:Er; [|discriminate].
  destruct (String.eqb n n') eqn:E.
  - apply String.eqb_eq in E. subst n'. inversion Hf; subst m' ft'. clear Hf.
    exists y'. split; [assumption|]. intro Hk. rewrite Hk in H. inversion H; subst. cbn. now rewrite String.eqb_refl.
  - destruct (IH r' n m ft eq_refl Hf) as [y [Hy Hk]]. exists y. split; [assumption|]. intro K. specialize (Hk K).
    destruct (keep_field m' ft' y'); inversion H; subst; cbn; [rewrite E|]; assumption.
Qed.

(** ** TrimNull keeps non-null fields *)
Lemma trim_kv_lookup kv n x :
  alookup n kv = Some x -> is_null x = false -> alookup n (trim_kv trim kv) = Some (trim x).
Proof.
  induction kv as [|[k y] t IH]; cbn; [discriminate|].
  destruct (String.eqb n k) eqn:E.
  - intros [= ->] Hn. rewrite Hn. cbn. now rewrite E.
  - intros H Hn. destruct (is_null y); [auto|]. cbn. rewrite E. auto.
Qed.

(** ** the kind table *)
Lemma find_some {A} (f : A -> bool) l x : find f l = Some x -> In x l /\ f x = true.
Proof.
  induction l as [|a t IH]; cbn; [discriminate|]. destruct (f a) eqn:E.
  - intros [= ->]. auto.
  - intro H. destruct (IH H). auto.
Qed.

Lemma kind_info_of_name cat kind ki : kind_info_of cat kind = Some ki -> k_name ki = kind /\ In ki kinds.
Proof.
  unfold kind_info_of. intro H. apply find_some in H. destruct H as [Hin H].
  apply andb_true_iff in H. destruct H as [H _]. apply String.eqb_eq in H. auto.
Qed.

Ltac kind_cases Hin :=
  unfold kinds in Hin; cbn [In] in Hin;
  repeat (destruct Hin as [Hin|Hin]; [subst; cbn in *; try discriminate|]); try contradiction.

(** ** what acceptance means *)
Lemma accept_inv cv o q cat raw :
  let v := validate_with cv o q cat raw in
  v_accept v = true ->
  exists ki, kind_info_of cat (raw_kind raw) = Some ki /\
    norm (k_ty ki) (JObj (k_defaults ki)) raw = Some (v_image v) /\ v_ty v = k_ty ki /\
    schema_ok o (k_ty ki) (trim (v_image v)) = true /\ format_ok o (k_ty ki) (v_image v) = true /\
    cv (raw_kind raw) (v_image v) = true /\
    (q_null_entry q = false -> has_null_entry (k_ty ki) (v_image v) = false).
Proof.
  cbv zeta. unfold validate_with.
  destruct (meta_ok o raw) as [mok|]; [|intro H; cbn in H; discriminate].
  destruct (kind_info_of cat (raw_kind raw)) as [ki|]; [|intro H; cbn in H; discriminate].
  destruct (norm (k_ty ki) (JObj (k_defaults ki)) raw) as [g|] eqn:En; [|intro H; cbn in H; discriminate].
  intro H. cbn in H. cbn [v_image v_ty]. split_and. exists ki.
  split; [reflexivity|]. split; [exact En|]. split; [reflexivity|].
  split; [assumption|]. split; [assumption|]. split; [assumption|].
  intro Hq. match goal with K : (if q_null_entry q then _ else _) = true |- _ => rewrite Hq in K; now apply negb_true_iff in K end.
Qed.

(** ** document accessors *)
Lemma aget_In n g u : In u (aget n g) -> exists kv l, g = JObj kv /\ alookup n kv = Some (JArr l) /\ In u l.
Proof.
  unfold aget, jarr, jfield. destruct g; try contradiction.
  destruct (alookup n kv) as [[]|] eqn:E; try contradiction. intro H. eauto.
Qed.

Lemma oget_In n g p : In p (oget n g) -> exists kv kv', g = JObj kv /\ alookup n kv = Some (JObj kv') /\ In p kv'.
Proof.
  unfold oget, jobj, jfield. destruct g; try contradiction.
  destruct (alookup n kv) as [[]|] eqn:E; try contradiction. intro H. eauto.
Qed.

Lemma jfield_some n u m : jfield n u = Some m -> exists kv, u = JObj kv /\ alookup n kv = Some m.
Proof. unfold jfield. destruct u; try discriminate. eauto. Qed.

Lemma sget_nonempty n m : str_empty (sget n m) = false -> exists kv, m = JObj kv /\ alookup n kv = Some (JStr (sget n m)).
Proof.
  unfold sget, jstr, jfield. destruct m; try (cbn; discriminate).
  destruct (alookup n kv) as [[]|] eqn:E; try (cbn; discriminate). eauto.
Qed.

Lemma not_bad (b : bool) : (b = true -> False) -> b = false.
Proof. destruct b; [intro H; exfalso; auto | reflexivity]. Qed.

(** the value of a [format=regexp] field compiles, whatever path leads to it *)
Lemma regexp_clause o m re :
  fmt_clause o (Some m) TStr (JStr re) -> f_format m = "regexp" -> str_empty re = false ->
  otrue (fmt_ok o "regexp" re) = true.
Proof.
  unfold fmt_clause. intros H Hf Hne. rewrite Hf in H. cbn in H. rewrite Hne in H. rewrite andb_false_r in H.
  apply H; reflexivity.
Qed.

(** ** kind table entries of the modelled kinds (computed from the generated file) *)
Ltac kind_entry :=
  intros H; apply kind_info_of_name in H; destruct H as [Hn Hin];
  unfold kinds in Hin; cbn [In] in Hin;
  repeat (destruct Hin as [Hin|Hin]; [subst; cbn in Hn; try discriminate; try (split; reflexivity)|]); contradiction.

Lemma kind_RateLimiter cat ki : kind_info_of cat "RateLimiter" = Some ki -> k_ty ki = K_RateLimiter /\ k_defaults ki = [].
Proof. kind_entry. Qed.
Lemma kind_Proxy cat ki : kind_info_of cat "Proxy" = Some ki -> k_ty ki = K_Proxy /\ True.
Proof. kind_entry. Qed.
Lemma kind_CircuitBreaker cat ki : kind_info_of cat "CircuitBreaker" = Some ki ->
  k_ty ki = K_CircuitBreaker /\ jfield "slidingWindowSize" (JObj (k_defaults ki)) = Some (JNum 100000).
Proof. kind_entry. Qed.

(** ** RateLimiter *)
Definition rl_regex_path : list step := [SField "urls"; SElem; SField "url"; SField "regex"].

Lemma rl_regex_ok o g : format_ok o K_RateLimiter g = true -> rl_regex_bad o g = false.
Proof.
  intro H. apply not_bad. unfold rl_regex_bad. intro Hb.
  apply existsb_exists in Hb. destruct Hb as [u [Hin Hu]].
  destruct (jfield "url" u) as [m|] eqn:Em; [|discriminate].
  unfold regex_bad in Hu. apply andb_true_iff in Hu. destruct Hu as [Hne Hbad].
  apply negb_true_iff in Hne. apply negb_true_iff in Hbad.
  apply aget_In in Hin. destruct Hin as [kv [l [-> [Hl Hin]]]].
  apply jfield_some in Em. destruct Em as [kv2 [-> Hl2]].
  destruct (sget_nonempty _ _ Hne) as [kv3 [-> Hl3]].
  set (re := sget "regex" (JObj kv3)) in *.
  assert (Hr : reach rl_regex_path (JObj kv) (JStr re)).
  { cbn. exists (JArr l). split; [eauto|]. exists (JObj kv2). split; [left; eauto|].
    exists (JObj kv3). split; [eauto|]. exists (JStr re). split; [eauto|reflexivity]. }
  unfold rl_regex_path in Hr.
  destruct (type_at K_RateLimiter None [SField "urls"; SElem; SField "url"; SField "regex"]) as [[m t']|] eqn:Ht;
    [|vm_compute in Ht; discriminate].
  pose proof (format_ok_reach o _ _ _ _ _ _ _ _ H Ht Hr eq_refl) as [_ Hc].
  vm_compute in Ht. inversion Ht; subst m t'. clear Ht.
  apply regexp_clause in Hc; [congruence|reflexivity|assumption].
Qed.

Lemma regexp_at o K s r g re m t' :
  format_ok o K g = true -> type_at K None (s :: r) = Some (Some m, t') -> t' = TStr -> f_format m = "regexp" ->
  reach (s :: r) g (JStr re) -> str_empty re = false -> otrue (fmt_ok o "regexp" re) = true.
Proof.
  intros H Ht -> Hf Hr Hne.
  pose proof (format_ok_reach o _ _ _ _ _ _ _ _ H Ht Hr eq_refl) as [_ Hc].
  now apply regexp_clause in Hc.
Qed.

Lemma rl_find_policy_In name ps p : rl_find_policy name ps = Some (Some p) -> In p ps /\ is_null p = false.
Proof.
  induction ps as [|x t IH]; cbn; [discriminate|].
  destruct (is_null x) eqn:En; [discriminate|].
  destruct (String.eqb (sget "name" x) name).
  - intros [= ->]. auto.
  - intro H. destruct (IH H). auto.
Qed.

(** [format=duration] of the generated schema: a non-empty limitRefreshPeriod parses *)
Lemma rl_period_parses o g p :
  format_ok o K_RateLimiter g = true -> In p (aget "policies" g) -> is_null p = false ->
  exists d, period_ns o p = Some d.
Proof.
  intros H Hin Hn. unfold period_ns.
  destruct (str_empty (sget "limitRefreshPeriod" p)) eqn:Ee; [eauto|].
  apply aget_In in Hin. destruct Hin as [kv [l [-> [Hl Hin]]]].
  destruct (sget_nonempty _ _ Ee) as [kv2 [-> Hl2]].
  set (sv := sget "limitRefreshPeriod" (JObj kv2)) in *.
  assert (Hr : reach [SField "policies"; SElem; SField "limitRefreshPeriod"] (JObj kv) (JStr sv)).
  { cbn. exists (JArr l). split; [eauto|]. exists (JObj kv2). split; [left; eauto|].
    exists (JStr sv). split; [eauto|reflexivity]. }
  destruct (type_at K_RateLimiter None [SField "policies"; SElem; SField "limitRefreshPeriod"]) as [[m t']|] eqn:Ht;
    [|vm_compute in Ht; discriminate].
  pose proof (format_ok_reach o _ _ _ _ _ _ _ _ H Ht Hr eq_refl) as [_ Hc].
  vm_compute in Ht. inversion Ht; subst m t'. clear Ht.
  unfold fmt_clause in Hc. cbn [f_format f_jomit] in Hc.
  assert (Ha : apply_format o "duration" (JStr sv) = true).
  { apply Hc; [reflexivity|]. cbn. rewrite Ee. reflexivity. }
  cbn in Ha. destruct (dur_ns o sv); [eauto|discriminate].
Qed.

(** accepted by the repaired validation: every URL rule has a policy whose period is positive *)
Lemma rl_urls_ok o g :
  format_ok o K_RateLimiter g = true -> rl_validate g = true -> rl_periods_positive o g = true ->
  forall u, In u (aget "urls" g) ->
    exists p, rl_bound_policy g u = Some p /\ 0 < rl_period o p.
Proof.
  unfold rl_validate, rl_periods_positive. intros Hf Hv Hp u Hin.
  rewrite forallb_forall in Hv. specialize (Hv _ Hin).
  destruct (is_null u); [discriminate|]. apply andb_true_l in Hv.
  unfold rl_bound_policy.
  destruct (rl_find_policy (rl_policy_of g u) (aget "policies" g)) as [[p|]|] eqn:Ef; try discriminate.
  exists p. split; [reflexivity|].
  apply rl_find_policy_In in Ef. destruct Ef as [Hin2 Hn].
  rewrite forallb_forall in Hp. specialize (Hp _ Hin2). rewrite Hn in Hp.
  destruct (rl_period_parses o g p Hf Hin2 Hn) as [d Hd].
  unfold rl_period. rewrite Hd in *. lia.
Qed.

Lemma rl_no_panic o g :
  format_ok o K_RateLimiter g = true -> rl_validate g = true -> rl_periods_positive o g = true ->
  rl_regex_bad o g = false /\
  existsb (fun u => match rl_bound_policy g u with None => true | Some _ => false end) (aget "urls" g) = false /\
  existsb (rl_url_bad o g) (aget "urls" g) = false.
Proof.
  intros Hf Hv Hp. split; [now apply rl_regex_ok|].
  split; apply not_bad; intro Hb; apply existsb_exists in Hb; destruct Hb as [u [Hin Hu]];
    destruct (rl_urls_ok o g Hf Hv Hp u Hin) as [p [Hb Hpos]].
  - rewrite Hb in Hu. discriminate.
  - unfold rl_url_bad in Hu. rewrite Hb in Hu. lia.
Qed.

(** the limiter created for a URL rule never divides by zero ([EG.model.RL], C09's model) *)
Lemma rl_acquire_no_panic (p : RL.policy) s el c : RL.pP p <> 0 -> snd (RL.acquire p s el c) <> RL.Panic.
Proof.
  intro Hp. unfold RL.acquire. destruct (RL.pP p =? 0) eqn:E; [lia|].
  destruct (RL.max_tokens p <=? _); cbn; [discriminate|].
  destruct (_ <? RL.pL p); cbn; discriminate.
Qed.

(** ** CircuitBreaker: the window has at least one bucket ([minimum=1] of the generated schema) *)
Lemma norm_int_num lo hi d x y : norm (TInt lo hi) d x = Some y -> (exists k, d = JNum k) -> exists k, y = JNum k.
Proof.
  intros H [k0 ->]. destruct x; cbn in H; try discriminate.
  - inversion H. eauto.
  - destruct (_ && _); inversion H. eauto.
Qed.

Lemma cb_window_ok o ki raw g :
  k_ty ki = K_CircuitBreaker -> jfield "slidingWindowSize" (JObj (k_defaults ki)) = Some (JNum 100000) ->
  norm (k_ty ki) (JObj (k_defaults ki)) raw = Some g -> schema_ok o (k_ty ki) (trim g) = true ->
  cb_window_bad g = false.
Proof.
  intros Hty Hd Hn Hs. rewrite Hty in *. unfold K_CircuitBreaker, T_resilience_CircuitBreakerPolicy in Hn, Hs.
  match type of Hn with norm (TStruct ?fs) _ _ = _ => set (FS := fs) in * end.
  destruct raw; cbn [norm] in Hn; try discriminate.
  - (* yaml null document: the defaults *)
    cbn in Hn. inversion Hn; subst g. unfold cb_window_bad. rewrite Hd. reflexivity.
  - destruct (norm_fields norm (JObj (k_defaults ki)) kv FS) as [out|] eqn:En; [|discriminate].
    cbn in Hn. inversion Hn; subst g. clear Hn.
    destruct (field_of "slidingWindowSize" FS) as [[m ft]|] eqn:Ef; [|vm_compute in Ef; discriminate].
    destruct (norm_fields_field _ _ _ _ _ _ _ _ En Ef) as [y [Hy Hk]].
    pose proof (field_of_In _ _ _ _ Ef) as Hin.
    vm_compute in Ef. inversion Ef; subst m ft. clear Ef.
    assert (Hnum : exists k, y = JNum k).
    { unfold field_val in Hy. rewrite Hd in Hy. destruct (alookup "slidingWindowSize" kv).
      - eapply norm_int_num; eauto.
      - cbn in Hy. inversion Hy. eauto. }
    destruct Hnum as [k ->].
    specialize (Hk eq_refl).
    cbn [trim] in Hs. cbn [schema_ok] in Hs.
    pose proof (trim_kv_lookup _ _ _ Hk eq_refl) as Ht. cbn [trim] in Ht.
    destruct (schema_fields_field _ _ _ _ _ _ _ _ Hs Hin eq_refl Ht) as [_ Hc].
    cbn in Hc. unfold cb_window_bad, jfield. rewrite Hk. lia.
Qed.

(** ** Proxy: every regexp of every request matcher compiles ([format=regexp] of the generated schema) *)
Lemma reach_app p q g x v : reach p g x -> reach q x v -> reach (p ++ q) g v.
Proof.
  revert g. induction p as [|s r IH]; intros g Hp Hq; cbn in *.
  - now subst.
  - destruct Hp as [y [Hs Hr]]. exists y. split; [assumption|]. now apply IH.
Qed.

Definition is_regexp_field (K : gty) (p : list step) : bool :=
  match type_at K None p with
  | Some (Some m, TStr) => String.eqb (f_format m) "regexp"
  | _ => false
  end.

Lemma regexp_field_at o K s r g re :
  format_ok o K g = true -> is_regexp_field K (s :: r) = true -> reach (s :: r) g (JStr re) -> str_empty re = false ->
  otrue (fmt_ok o "regexp" re) = true.
Proof.
  unfold is_regexp_field. intros H Hi Hr Hne.
  destruct (type_at K None (s :: r)) as [[[m|] t']|] eqn:Ht; try discriminate.
  destruct t'; try discriminate. apply String.eqb_eq in Hi.
  eapply regexp_at; eauto.
Qed.

Lemma regex_bad_reach o m : regex_bad o m = true ->
  exists re, reach [SField "regex"] m (JStr re) /\ str_empty re = false /\ otrue (fmt_ok o "regexp" re) = false.
Proof.
  unfold regex_bad. intro H. apply andb_true_iff in H. destruct H as [Hne Hb].
  apply negb_true_iff in Hne. apply negb_true_iff in Hb.
  destruct (sget_nonempty _ _ Hne) as [kv [-> Hl]].
  exists (sget "regex" (JObj kv)). split; [|auto]. cbn. eexists. split; [eauto|reflexivity].
Qed.

Lemma matcher_regex_ok o K s r g f :
  format_ok o K g = true -> reach (s :: r) g f ->
  is_regexp_field K ((s :: r) ++ [SField "headers"; SElem; SField "regex"]) = true ->
  is_regexp_field K ((s :: r) ++ [SField "urls"; SElem; SField "url"; SField "regex"]) = true ->
  matcher_regex_bad o f = false.
Proof.
  intros H Hr Hh Hu. apply not_bad. unfold matcher_regex_bad. intro Hb. apply orb_true_iff in Hb.
  destruct Hb as [Hb|Hb]; apply existsb_exists in Hb.
  - destruct Hb as [[k m] [Hin Hm]]. cbn in Hm. apply regex_bad_reach in Hm. destruct Hm as [re [Hre [Hne Hbad]]].
    apply oget_In in Hin. destruct Hin as [kv [kv' [-> [Hl Hin]]]].
    assert (Hr2 : reach ((s :: r) ++ [SField "headers"; SElem; SField "regex"]) g (JStr re)).
    { eapply reach_app; [exact Hr|]. cbn. exists (JObj kv'). split; [eauto|].
      exists m. split; [right; eauto|]. exact Hre. }
    rewrite <- app_comm_cons in Hr2, Hh.
    pose proof (regexp_field_at o K _ _ g re H Hh Hr2 Hne). congruence.
  - destruct Hb as [u [Hin Hm]]. destruct (jfield "url" u) as [m|] eqn:Em; [|discriminate].
    apply regex_bad_reach in Hm. destruct Hm as [re [Hre [Hne Hbad]]].
    apply aget_In in Hin. destruct Hin as [kv [l [-> [Hl Hin]]]].
    apply jfield_some in Em. destruct Em as [kv2 [-> Hl2]].
    assert (Hr2 : reach ((s :: r) ++ [SField "urls"; SElem; SField "url"; SField "regex"]) g (JStr re)).
    { eapply reach_app; [exact Hr|]. cbn. exists (JArr l). split; [eauto|].
      exists (JObj kv2). split; [left; eauto|]. exists m. split; [eauto|]. exact Hre. }
    rewrite <- app_comm_cons in Hr2, Hu.
    pose proof (regexp_field_at o K _ _ g re H Hu Hr2 Hne). congruence.
Qed.

Lemma proxy_regex_ok o g : format_ok o K_Proxy g = true -> proxy_regex_bad o g = false.
Proof.
  intro H. apply not_bad. unfold proxy_regex_bad, proxy_pools. intro Hb.
  apply existsb_exists in Hb. destruct Hb as [p [Hin Hp]].
  destruct (jfield "filter" p) as [f|] eqn:Ef; [|discriminate].
  apply jfield_some in Ef. destruct Ef as [kvp [-> Hlf]].
  apply in_app_or in Hin. destruct Hin as [Hin|Hin].
  - apply aget_In in Hin. destruct Hin as [kv [l [-> [Hl Hin]]]].
    assert (Hr : reach [SField "pools"; SElem; SField "filter"] (JObj kv) f).
    { cbn. exists (JArr l). split; [eauto|]. exists (JObj kvp). split; [left; eauto|]. exists f. split; [eauto|reflexivity]. }
    rewrite (matcher_regex_ok o K_Proxy _ _ _ f H Hr) in Hp; [discriminate| vm_compute; reflexivity | vm_compute; reflexivity].
  - destruct (jfield "mirrorPool" g) as [mp|] eqn:Em; [|contradiction].
    destruct Hin as [->|[]]. apply jfield_some in Em. destruct Em as [kv [-> Hl]].
    assert (Hr : reach [SField "mirrorPool"; SField "filter"] (JObj kv) f).
    { cbn. exists (JObj kvp). split; [eauto|]. exists f. split; [eauto|reflexivity]. }
    rewrite (matcher_regex_ok o K_Proxy _ _ _ f H Hr) in Hp; [discriminate| vm_compute; reflexivity | vm_compute; reflexivity].
Qed.

(** ** the repaired validation excludes every modelled panic site (all leaf kinds at once) *)
Lemma andb_guard (a b : bool) : (a = true -> b = false) -> a && b = false.
Proof. destruct a; cbn; auto. Qed.

Lemma orb_false (a b : bool) : a = false -> b = false -> a || b = false.
Proof. intros -> ->. reflexivity. Qed.

Lemma is_adaptor_cases k : is_adaptor k = true -> k = "RequestAdaptor" \/ k = "ResponseAdaptor".
Proof. unfold is_adaptor. intro H. apply orb_true_iff in H. destruct H as [H|H]; apply String.eqb_eq in H; auto. Qed.
Lemma is_builder_cases k : is_builder k = true -> k = "RequestBuilder" \/ k = "ResponseBuilder".
Proof. unfold is_builder. intro H. apply orb_true_iff in H. destruct H as [H|H]; apply String.eqb_eq in H; auto. Qed.

Lemma builder_tpl_ok o g : builder_validate o ideal g = true -> tpl_bad o g = false.
Proof.
  unfold builder_validate, tpl_bad. cbn [q_builder_template ideal]. intro H. split_and.
  destruct (str_empty (sget "template" g)); [reflexivity|]. cbn.
  destruct (alookup (tpl_key g) (o_tpl_ok o)) as [[]|]; try discriminate.
  now rewrite andb_false_r.
Qed.

Theorem leaf_valid_no_panic o cat raw :
  let v := validate_leaf o ideal cat raw in
  v_accept v = true ->
  may_init o ideal (v_ty v) (raw_kind raw) (v_image v) = false /\
  may_handle o ideal (v_ty v) (raw_kind raw) (v_image v) = false.
Proof.
  cbv zeta. intro Ha. unfold validate_leaf in *.
  destruct (accept_inv _ _ _ _ _ Ha) as [ki [Hk [Hn [Hty [Hs [Hf [Hcv Hnull]]]]]]].
  specialize (Hnull eq_refl).
  set (v := validate_with (custom_validate o ideal) o ideal cat raw) in *.
  rewrite Hty. remember (raw_kind raw) as kind eqn:Ek. remember (v_image v) as g eqn:Eg.
  clear Ha Ek Eg v Hty.
  unfold may_init, may_handle. rewrite Hnull. cbn [orb q_wr_zero_total q_fallback_nil_resp q_stream_compress ideal andb].
  split.
  - repeat apply orb_false; apply andb_guard; intro E.
    + apply String.eqb_eq in E. subst kind. destruct (kind_RateLimiter _ _ Hk) as [Ht _]. rewrite Ht in *.
      cbn in Hcv. split_and. now apply rl_regex_ok.
    + apply String.eqb_eq in E. subst kind. destruct (kind_Proxy _ _ Hk) as [Ht _]. rewrite Ht in *.
      now apply proxy_regex_ok.
    + apply is_adaptor_cases in E. destruct E; subst kind; cbn in Hcv; rewrite Hcv; reflexivity.
    + apply is_builder_cases in E. destruct E; subst kind; cbn in Hcv; now apply builder_tpl_ok.
    + apply String.eqb_eq in E. subst kind. destruct (kind_RateLimiter _ _ Hk) as [Ht _]. rewrite Ht in *.
      cbn in Hcv. split_and. now destruct (rl_no_panic o g Hf) as [_ [? _]].
    + apply String.eqb_eq in E. subst kind. cbn in Hcv. now rewrite Hcv.
  - repeat apply orb_false; try reflexivity; apply andb_guard; intro E; apply String.eqb_eq in E; subst kind.
    + destruct (kind_RateLimiter _ _ Hk) as [Ht _]. rewrite Ht in *.
      cbn in Hcv. split_and. now destruct (rl_no_panic o g Hf) as [_ [_ ?]].
    + cbn in Hcv. unfold validator_validate in Hcv. cbn [q_sig_no_keystore ideal] in Hcv. split_and.
      unfold sig_no_keys. destruct (jfield "signature" g); [|reflexivity].
      match goal with K : negb _ = true |- _ => now apply negb_true_iff in K end.
    + cbn in Hcv. unfold retry_validate in Hcv. cbn [q_retry_jitter ideal] in Hcv. now rewrite Hcv.
    + destruct (kind_CircuitBreaker _ _ Hk) as [Ht Hd]. eapply cb_window_ok; eauto.
    + cbn in Hcv. now rewrite Hcv.
Qed.

(** ** per-kind corollaries *)

Definition accepted (o : orc) (cat kind : string) (raw g : jvalue) : Prop :=
  raw_kind raw = kind /\ v_accept (validate_leaf o ideal cat raw) = true /\ v_image (validate_leaf o ideal cat raw) = g.

Lemma accepted_facts o cat kind raw g : accepted o cat kind raw g ->
  exists ki, kind_info_of cat kind = Some ki /\ norm (k_ty ki) (JObj (k_defaults ki)) raw = Some g /\
    schema_ok o (k_ty ki) (trim g) = true /\ format_ok o (k_ty ki) g = true /\ custom_validate o ideal kind g = true /\
    has_null_entry (k_ty ki) g = false.
Proof.
  intros [<- [Ha <-]]. unfold validate_leaf in *.
  destruct (accept_inv _ _ _ _ _ Ha) as [ki [Hk [Hn [Hty [Hs [Hf [Hcv Hnull]]]]]]].
  exists ki. repeat split; auto.
Qed.

Lemma RateLimiter_valid_implies_precond o cat raw g : accepted o cat "RateLimiter" raw g ->
  (forall u, In u (aget "urls" g) -> exists p, rl_bound_policy g u = Some p /\ 0 < rl_period o p) /\
  rl_regex_bad o g = false.
Proof.
  intro H. destruct (accepted_facts _ _ _ _ _ H) as [ki [Hk [_ [_ [Hf [Hcv _]]]]]].
  destruct (kind_RateLimiter _ _ Hk) as [Ht _]. rewrite Ht in *. cbn in Hcv. split_and.
  split; [now apply rl_urls_ok | now apply rl_regex_ok].
Qed.

Lemma RateLimiter_precond_no_panic o g u p T L :
  rl_bound_policy g u = Some p -> 0 < rl_period o p ->
  forall s el c, snd (RL.acquire {| RL.pT := T; RL.pP := rl_period o p; RL.pL := L |} s el c) <> RL.Panic.
Proof. intros _ Hp s el c. apply rl_acquire_no_panic. cbn. lia. Qed.

Lemma CircuitBreaker_valid_implies_precond o cat raw g : accepted o cat "CircuitBreaker" raw g ->
  exists n, jfield "slidingWindowSize" g = Some (JNum n) /\ 1000 <= n.
Proof.
  intro H. destruct (accepted_facts _ _ _ _ _ H) as [ki [Hk [Hn [Hs _]]]].
  destruct (kind_CircuitBreaker _ _ Hk) as [Ht Hd].
  pose proof (cb_window_ok o ki raw g Ht Hd Hn Hs) as Hb. unfold cb_window_bad in Hb.
  destruct (jfield "slidingWindowSize" g) as [[]|]; try discriminate. exists milli. split; [reflexivity|lia].
Qed.

Lemma Retry_valid_implies_precond o cat raw g : accepted o cat "Retry" raw g -> retry_jitter_ok o g = true.
Proof. intro H. destruct (accepted_facts _ _ _ _ _ H) as [ki [_ [_ [_ [_ [Hcv _]]]]]]. exact Hcv. Qed.

(** the argument of rand.Intn in RetryPolicy.Wrap, int(2*wait*factor+1), is a positive int64 *)
Definition retry_intn_arg (o : orc) (g : jvalue) : Z :=
  let f := nget "randomizationFactor" g in
  let w := match dur_ns o (sget "waitDuration" g) with Some d => if 0 <? d then d else 500000000 | None => 500000000 end in
  (2 * w * f + 1000) / 1000.

Lemma Retry_precond_no_panic o g : retry_jitter_ok o g = true -> 1 <= retry_intn_arg o g < 9223372036854775807.
Proof.
  unfold retry_jitter_ok, retry_intn_arg. intro H. split_and.
  set (f := nget "randomizationFactor" g) in *.
  set (w := match dur_ns o (sget "waitDuration" g) with Some d => if 0 <? d then d else 500000000 | None => 500000000 end) in *.
  assert (0 < w) by (subst w; destruct (dur_ns o (sget "waitDuration" g)) as [d|]; [destruct (0 <? d) eqn:E|]; lia).
  assert (0 <= f) by lia. assert (2 * w * f + 1000 < 9223372036854775807 * 1000) by lia.
  assert (0 <= 2 * w * f) by nia.
  split.
  - apply Z.div_le_lower_bound; lia.
  - apply Z.div_lt_upper_bound; lia.
Qed.

Lemma Adaptor_valid_implies_precond o cat kind raw g : is_adaptor kind = true -> accepted o cat kind raw g -> codec_ok g = true.
Proof.
  intros Hk H. destruct (accepted_facts _ _ _ _ _ H) as [ki [_ [_ [_ [_ [Hcv _]]]]]].
  apply is_adaptor_cases in Hk. destruct Hk; subst kind; exact Hcv.
Qed.

Lemma Validator_valid_implies_precond o cat raw g : accepted o cat "Validator" raw g -> sig_no_keys g = false.
Proof.
  intro H. destruct (accepted_facts _ _ _ _ _ H) as [ki [_ [_ [_ [_ [Hcv _]]]]]].
  cbn in Hcv. unfold validator_validate in Hcv. cbn [q_sig_no_keystore ideal] in Hcv. split_and.
  unfold sig_no_keys. destruct (jfield "signature" g); [|reflexivity].
  match goal with K : negb _ = true |- _ => now apply negb_true_iff in K end.
Qed.

Lemma Builder_valid_implies_precond o cat kind raw g : is_builder kind = true -> accepted o cat kind raw g -> tpl_bad o g = false.
Proof.
  intros Hk H. destruct (accepted_facts _ _ _ _ _ H) as [ki [_ [_ [_ [_ [Hcv _]]]]]].
  apply is_builder_cases in Hk. destruct Hk; subst kind; cbn in Hcv; now apply builder_tpl_ok.
Qed.

Lemma TopicMapper_valid_implies_precond o cat raw g : accepted o cat "TopicMapper" raw g -> topic_index_ok g = true.
Proof. intro H. destruct (accepted_facts _ _ _ _ _ H) as [ki [_ [_ [_ [_ [Hcv _]]]]]]. exact Hcv. Qed.

(** Proxy (partial): the matcher regexps compile and there is exactly one main pool; the
    resilience-policy references and the service-registry branch are not covered *)
Lemma Proxy_valid_implies_precond_partial o cat raw g : accepted o cat "Proxy" raw g ->
  proxy_regex_bad o g = false /\
  List.length (filter (fun p => negb (jpresent (jfield "filter" p))) (aget "pools" g)) = 1%nat.
Proof.
  intro H. destruct (accepted_facts _ _ _ _ _ H) as [ki [Hk [_ [_ [Hf [Hcv _]]]]]].
  destruct (kind_Proxy _ _ Hk) as [Ht _]. rewrite Ht in *. split; [now apply proxy_regex_ok|].
  cbn in Hcv. unfold proxy_validate in Hcv. split_and. now apply Nat.eqb_eq.
Qed.

(** weightedRandom under the repaired run time ([EG.model.LB], C04's model): never [Panic] on a non-empty list *)
Lemma wr_loop_no_panic : forall ws r i, ws <> [] -> r < LB.total ws -> LB.wr_loop ws r i <> LB.Panic.
Proof.
  induction ws as [|w t IH]; intros r i Hne Hr; [congruence|].
  cbn [LB.wr_loop]. destruct (r - w <? 0) eqn:E; [discriminate|].
  unfold LB.total in Hr. cbn in Hr. fold (LB.total t) in Hr.
  destruct t as [|w2 t2].
  - cbn in Hr. lia.
  - apply IH; [discriminate|]. lia.
Qed.

Lemma Proxy_precond_no_panic ws r : ws <> [] -> r < Z.max 1 (LB.total ws) -> LB.wr_choose LB.ideal ws r <> LB.Panic.
Proof.
  intros Hne Hr. unfold LB.wr_choose. destruct (LB.total ws <=? 0) eqn:E; cbn; [discriminate|].
  apply wr_loop_no_panic; [assumption|lia].
Qed.

(** ** Pipeline (partial): flow names resolve, policy names resolve, and every nested filter of a kind whose
    Validate() methods are modelled reaches no modelled panic site *)
Lemma flow_ok_names decls : forall nodes, fst (flow_ok decls nodes) = true ->
  forall n, In n nodes -> sget "filter" n = "END" \/ exists k, alookup (sget "filter" n) decls = Some k.
Proof.
  induction nodes as [|x t IH]; intros H n Hin; [contradiction|].
  cbn [flow_ok] in H. destruct (flow_ok decls t) as [ok later] eqn:E.
  destruct (String.eqb (sget "filter" x) "END") eqn:Ee.
  - destruct Hin as [<-|Hin]; [left; now apply String.eqb_eq | apply IH; auto].
  - destruct (alookup (sget "filter" x) decls) as [k|] eqn:El; [|cbn in H; discriminate].
    cbn in H. apply andb_true_l in H.
    destruct Hin as [<-|Hin]; [right; eauto | apply IH; auto].
Qed.

Lemma not_in_list k l x : in_list k l = false -> In x l -> String.eqb k x = false.
Proof.
  unfold in_list. intros H Hin. destruct (String.eqb k x) eqn:E; [|reflexivity].
  assert (existsb (String.eqb k) l = true) by (apply existsb_exists; eauto). congruence.
Qed.

Lemma nested_In o q cat raws orcs x : In x (nested o q cat raws orcs) ->
  exists raw ok, x = (nested_acc o q cat raw ok, sget "name" (v_image (validate_leaf o q cat raw)), raw_kind raw, validate_leaf o q cat raw).
Proof.
  unfold nested. intro H. apply in_map_iff in H. destruct H as [[raw [[ok n] k]] [<- Hin]]. eauto.
Qed.

Lemma mqtt_not_a_filter cv o q raw : raw_kind raw = "MQTTProxy" -> v_image (validate_with cv o q "filter" raw) = JNull.
Proof.
  intro Hk. unfold validate_with. destruct (meta_ok o raw); [|reflexivity]. rewrite Hk.
  replace (kind_info_of "filter" "MQTTProxy") with (@None kind_info) by (vm_compute; reflexivity). reflexivity.
Qed.

Lemma nested_filter_no_init o raw ok :
  nested_acc o ideal "filter" raw ok = true ->
  may_init o ideal (v_ty (validate_leaf o ideal "filter" raw)) (raw_kind raw) (v_image (validate_leaf o ideal "filter" raw)) = false.
Proof.
  unfold nested_acc. destruct (in_list (raw_kind raw) cv_leaf) eqn:Ec; intro H.
  - now destruct (leaf_valid_no_panic o "filter" raw H).
  - cbn [q_null_entry ideal orb] in H. apply andb_true_r in H. apply negb_true_iff in H.
    unfold may_init. rewrite H. cbn [orb].
    assert (E : forall x, In x cv_leaf -> String.eqb (raw_kind raw) x = false) by (intros; eapply not_in_list; eauto).
    unfold is_adaptor, is_builder.
    rewrite (E "RateLimiter"), (E "Proxy"), (E "RequestAdaptor"), (E "ResponseAdaptor"), (E "RequestBuilder"), (E "ResponseBuilder");
      try (unfold cv_leaf; cbn; tauto).
    cbn [orb andb]. apply andb_guard. intro Em. apply String.eqb_eq in Em.
    unfold validate_leaf. rewrite (mqtt_not_a_filter _ o ideal raw Em). reflexivity.
Qed.

Theorem Pipeline_valid_implies_precond_partial o g :
  pipeline_validate o ideal g = true ->
  let fs := nested o ideal "filter" (aget "filters" g) (o_filters o) in
  let decls := map (fun f => let '(_, n, k, _) := f in (n, k)) fs in
  (forall n, In n (aget "flow" g) -> sget "filter" n = "END" \/ exists k, alookup (sget "filter" n) decls = Some k) /\
  pipeline_may_init o ideal g = false /\
  flow_namespace_bad decls g = false.
Proof.
  cbv zeta. unfold pipeline_validate. cbn [q_policy_ref q_flow_namespace ideal].
  set (fs := nested o ideal "filter" (aget "filters" g) (o_filters o)).
  set (rs := nested o ideal "resilience" (aget "resilience" g) (o_resil o)).
  intro H. split_and.
  assert (Ed : map (fun f : bool * string * string => (snd (fst f), snd f)) (map nested_decl fs) =
               map (fun f => let '(_, n, k, _) := f in (n, k)) fs).
  { rewrite map_map. apply map_ext. intros [[[a n] k] v]. reflexivity. }
  rewrite Ed in *.
  split; [|split].
  - now apply flow_ok_names.
  - unfold pipeline_may_init. fold fs. fold rs. apply not_bad. intro Hb. apply existsb_exists in Hb.
    destruct Hb as [[[[acc n] k] v] [Hin Hx]].
    pose proof Hin as Hin0.
    apply nested_In in Hin. destruct Hin as [raw [ok Hx0]]. inversion Hx0; subst acc n k v. clear Hx0.
    apply orb_true_iff in Hx. destruct Hx as [Hx|Hx].
    + match goal with K : forallb (fun f => fst (fst f)) (map nested_decl fs) = true |- _ =>
        rewrite forallb_forall in K; specialize (K (nested_decl (_, _, _, _)) (in_map nested_decl _ _ Hin0)); cbn in K end.
      match goal with K : nested_acc _ _ _ _ _ = true |- _ => apply nested_filter_no_init in K; congruence end.
    + match goal with K : forallb _ fs = true |- _ =>
        rewrite forallb_forall in K; specialize (K _ Hin0); cbn in K end.
      apply andb_true_iff in Hx. destruct Hx as [Hp Hr].
      match goal with K : (if String.eqb _ "Proxy" then _ else true) = true |- _ => rewrite Hp in K; rewrite K in Hr end.
      discriminate.
  - unfold flow_namespace_bad. apply not_bad. intro Hb. apply existsb_exists in Hb. destruct Hb as [n [Hin Hn]].
    match goal with K : forallb (fun n => _ || _ || _) (aget "flow" g) = true |- _ =>
      rewrite forallb_forall in K; specialize (K _ Hin) end.
    apply andb_true_iff in Hn. destruct Hn as [Hns Hk]. apply negb_true_iff in Hns.
    match goal with K : (_ || _ || _) = true |- _ => rewrite Hns in K; cbn [orb] in K end.
    destruct (alookup (sget "filter" n) _) as [k|]; [|discriminate].
    match goal with K : is_builder k = true |- _ => rewrite K in Hk end. discriminate.
Qed.

(** every Validate() method that traverseGo reaches from a modelled kind is one of the hand-modelled ones *)
Lemma validators_modelled : validators_covered ("Pipeline" :: "MQTTProxy" :: cv_leaf) = true.
Proof. vm_compute. reflexivity. Qed.

(** ** refutations: with a single defect flag on, validation accepts a document that panics *)
Definition refutes (i : N) (c : spec_case) : Prop :=
  let q := only i in
  let v := validate (sc_orc c) q (sc_cat c) (sc_raw c) in
  v_accept v = true /\ (mi (sc_orc c) q (sc_raw c) v || mh (sc_orc c) q (sc_raw c) v) = true /\
  (* and the repaired validation / run time does not fail on it *)
  (let v' := validate (sc_orc c) ideal (sc_cat c) (sc_raw c) in
   v_accept v' && (mi (sc_orc c) ideal (sc_raw c) v' || mh (sc_orc c) ideal (sc_raw c) v')) = false.

Ltac refute := unfold refutes; vm_compute; repeat split; reflexivity.

Lemma refuted_wr_zero_total : exists c, refutes 1 c. Proof. exists w_wr_zero_total. refute. Qed.
Lemma refuted_rl_zero_period : exists c, refutes 2 c. Proof. exists w_rl_zero_period. refute. Qed.
Lemma refuted_sig_no_keystore : exists c, refutes 3 c. Proof. exists w_sig_no_keystore. refute. Qed.
Lemma refuted_adaptor_codec : exists c, refutes 4 c. Proof. exists w_adaptor_codec. refute. Qed.
Lemma refuted_policy_ref : exists c, refutes 5 c. Proof. exists w_policy_ref. refute. Qed.
Lemma refuted_fallback_nil_resp : exists c, refutes 6 c. Proof. exists w_fallback_nil_resp. refute. Qed.
Lemma refuted_null_entry : exists c, refutes 7 c. Proof. exists w_null_entry. refute. Qed.
Lemma refuted_retry_jitter : exists c, refutes 8 c. Proof. exists w_retry_jitter. refute. Qed.
Lemma refuted_builder_template : exists c, refutes 9 c. Proof. exists w_builder_template. refute. Qed.
Lemma refuted_topic_index : exists c, refutes 10 c. Proof. exists w_topic_index. refute. Qed.
Lemma refuted_flow_namespace : exists c, refutes 11 c. Proof. exists w_flow_namespace. refute. Qed.
Lemma refuted_stream_compress : exists c, refutes 12 c. Proof. exists w_stream_compress. refute. Qed.
Lemma refuted_mqtt_rules : exists c, refutes 13 c. Proof. exists w_mqtt_rules. refute. Qed.

(** non-vacuity: a concrete RateLimiter document is accepted by the repaired validation *)
Example RateLimiter_nonvacuous :
  let c := w_rl_zero_period in
  let raw := JObj [("name", JStr "f1"); ("kind", JStr "RateLimiter");
                   ("policies", JArr [JObj [("name", JStr "p1"); ("limitForPeriod", JNum 1000)]]);
                   ("defaultPolicyRef", JStr "p1");
                   ("urls", JArr [JObj [("url", JObj [("prefix", JStr "/")])]])] in
  v_accept (validate_leaf (sc_orc c) ideal "filter" raw) = true.
Proof. vm_compute. reflexivity. Qed.
