(** Lemmas for C03 (proxy fidelity and framing). *)
From EG.lib Require Import Base.
From EG.gen Require Import GenHop GenBody.
From EG.model Require Import Body BodyCheck Proxy ProxyCheck.
From EG.proofs Require Import BodyProofs.
From Coq Require Import ZifyBool.
Open Scope string_scope.
Open Scope Z_scope.

(** ** header maps *)
Lemma alookup_filter_ne {A} : forall (c k : string) (h : list (string * A)),
  alookup k (filter (fun kv => negb (String.eqb (fst kv) c)) h) =
  if String.eqb k c then None else alookup k h.
Proof.
  intros c k h. induction h as [|[k' v] t IH]; cbn [filter alookup fst].
  - destruct (String.eqb k c); reflexivity.
  - destruct (String.eqb k' c) eqn:E1; cbn [negb alookup].
    + rewrite IH. destruct (String.eqb k c) eqn:E2; [reflexivity|].
      destruct (String.eqb k k') eqn:E3; [|reflexivity].
      apply String.eqb_eq in E1, E3. subst. rewrite String.eqb_refl in E2. discriminate.
    + destruct (String.eqb k k') eqn:E3.
      * apply String.eqb_eq in E3. subst k'. rewrite E1. reflexivity.
      * exact IH.
Qed.

Lemma values_del : forall k c h,
  h_values_exact k (h_del c h) = if String.eqb k (canon_key c) then [] else h_values_exact k h.
Proof.
  intros k c h. unfold h_values_exact, h_del. rewrite alookup_filter_ne.
  destruct (String.eqb k (canon_key c)); reflexivity.
Qed.

Lemma has_del : forall k c h,
  h_has_exact k (h_del c h) = negb (String.eqb k (canon_key c)) && h_has_exact k h.
Proof.
  intros k c h. unfold h_has_exact, h_del. rewrite alookup_filter_ne.
  destruct (String.eqb k (canon_key c)); reflexivity.
Qed.

Definition removed_by (ks : list string) (k : string) : bool := existsb (fun c => String.eqb k (canon_key c)) ks.

Lemma values_del_all : forall ks k h,
  h_values_exact k (del_all ks h) = if removed_by ks k then [] else h_values_exact k h.
Proof.
  induction ks as [|c t IH]; intros k h; unfold del_all in *; cbn [fold_left removed_by existsb].
  - reflexivity.
  - rewrite IH, values_del. fold (removed_by t k).
    destruct (String.eqb k (canon_key c)); cbn [orb]; [|reflexivity].
    destruct (removed_by t k); reflexivity.
Qed.

Lemma has_del_all : forall ks k h,
  h_has_exact k (del_all ks h) = negb (removed_by ks k) && h_has_exact k h.
Proof.
  induction ks as [|c t IH]; intros k h; unfold del_all in *; cbn [fold_left removed_by existsb].
  - reflexivity.
  - rewrite IH, has_del. fold (removed_by t k).
    destruct (String.eqb k (canon_key c)); cbn [orb negb andb].
    + rewrite andb_false_r. reflexivity.
    + reflexivity.
Qed.

(** the keys cloneHeader removes from [h]: the table extracted from the source and the
    (canonicalised) tokens of the Connection field values *)
Definition stripped (h : headers) (k : string) : bool :=
  removed_by hop_headers k || removed_by (connection_tokens h) k.

Theorem hop_by_hop_stripped : forall h k,
  h_values_exact k (clone_header h) = (if stripped h k then [] else h_values_exact k h) /\
  h_has_exact k (clone_header h) = negb (stripped h k) && h_has_exact k h.
Proof.
  intros h k. unfold clone_header, stripped. rewrite !values_del_all, !has_del_all.
  destruct (removed_by hop_headers k), (removed_by (connection_tokens h) k); cbn; split; reflexivity.
Qed.

(** the nine names of the statement are in the table extracted from the source *)
Lemma hop_table_complete_b :
  forallb (fun n => removed_by hop_headers (canon_key n)) spec_hop_names = true.
Proof. vm_compute. reflexivity. Qed.

Theorem hop_table_complete : forall n, In n spec_hop_names ->
  forall h, h_values_exact (canon_key n) (clone_header h) = [] /\ h_has_exact (canon_key n) (clone_header h) = false.
Proof.
  intros n Hn h. pose proof hop_table_complete_b as Hb. rewrite forallb_forall in Hb.
  specialize (Hb n Hn). destruct (hop_by_hop_stripped h (canon_key n)) as [E1 E2].
  unfold stripped in *. rewrite Hb in *. cbn in *. split; assumption.
Qed.

(** every header a Connection field names is removed *)
Theorem connection_named_stripped : forall h t, In t (connection_tokens h) ->
  h_values_exact (canon_key t) (clone_header h) = [] /\ h_has_exact (canon_key t) (clone_header h) = false.
Proof.
  intros h t Ht. destruct (hop_by_hop_stripped h (canon_key t)) as [E1 E2].
  assert (Hr : removed_by (connection_tokens h) (canon_key t) = true).
  { unfold removed_by. apply existsb_exists. exists t. split; [exact Ht|apply String.eqb_refl]. }
  unfold stripped in *. rewrite Hr, orb_true_r in *. cbn in *. split; assumption.
Qed.

(** ** set / add *)
Lemma alookup_app {A} : forall k (a b : list (string * A)),
  alookup k (a ++ b) = match alookup k a with Some v => Some v | None => alookup k b end.
Proof.
  intros k a b. induction a as [|[k' v] t IH]; cbn [app alookup]; [reflexivity|].
  destruct (String.eqb k k'); [reflexivity|exact IH].
Qed.

Lemma values_set : forall k c v h,
  h_values_exact k (h_set c v h) = if String.eqb k (canon_key c) then [v] else h_values_exact k h.
Proof.
  intros k c v h. unfold h_set, h_values_exact. rewrite alookup_app.
  unfold h_del. rewrite alookup_filter_ne. cbn [alookup].
  destruct (String.eqb k (canon_key c)); [reflexivity|].
  destruct (alookup k h); reflexivity.
Qed.

Lemma values_add_exact : forall k c v h,
  h_values_exact k (h_add_exact c v h) =
  if String.eqb k c then (h_values_exact k h ++ [v])%list else h_values_exact k h.
Proof.
  intros k c v h. unfold h_values_exact. induction h as [|[k' vs] t IH]; cbn [h_add_exact alookup].
  - destruct (String.eqb k c); reflexivity.
  - destruct (String.eqb c k') eqn:E1; cbn [alookup].
    + apply String.eqb_eq in E1. subst k'. destruct (String.eqb k c); reflexivity.
    + destruct (String.eqb k k') eqn:E2.
      * apply String.eqb_eq in E2. subst k'. rewrite String.eqb_sym, E1. reflexivity.
      * exact IH.
Qed.

Lemma values_add : forall k c v h,
  h_values_exact k (h_add c v h) =
  if String.eqb k (canon_key c) then (h_values_exact k h ++ [v])%list else h_values_exact k h.
Proof. intros. unfold h_add. apply values_add_exact. Qed.

Lemma canon_idem_CE : canon_key CE = CE. Proof. reflexivity. Qed.

Lemma get_set_same : forall c v h, h_get c (h_set c v h) = v.
Proof. intros. unfold h_get, h_values. rewrite values_set, String.eqb_refl. reflexivity. Qed.

Lemma get_del_same : forall c h, h_get c (h_del c h) = EmptyString.
Proof. intros. unfold h_get, h_values. rewrite values_del, String.eqb_refl. reflexivity. Qed.

(** ** request half *)
Section Request.
  Variable f : fns.

  Definition ra_off (c : pcfg) : Prop := a_on (p_ra c) = false.

  Lemma forward_inv : forall q c r b added cloned,
    forward q f c r = ReqSent b added cloned ->
    exists path query h body target,
      f_parse_target f (cq_target r) = Some (path, query) /\
      request_adaptor f (p_ra c) (cq_headers r) (cq_body r) = Some (h, body) /\
      f_build_target f (if q_proxy_decoded_path q then path else f_escaped_path f (cq_target r)) query = Some target /\
      cloned = clone_header h /\
      b = {| bq_method := cq_method r; bq_target := target; bq_host := out_host c (cq_host r);
             bq_headers := fst (transport_request_headers (clone_header h)); bq_body := body |} /\
      added = snd (transport_request_headers (clone_header h)).
  Proof.
    intros q c r b added cloned H. unfold forward in H.
    destruct (f_parse_target f (cq_target r)) as [[path query]|] eqn:E1; [|discriminate].
    destruct (request_adaptor f (p_ra c) (cq_headers r) (cq_body r)) as [[h body]|] eqn:E2; [|discriminate].
    destruct (f_build_target f _ query) as [target|] eqn:E3; [|discriminate].
    destruct (transport_request_headers (clone_header h)) as [hs ad] eqn:E4.
    inversion H; subst. exists path, query, h, body, target. rewrite E4. cbn [fst snd].
    repeat split; try assumption; reflexivity.
  Qed.

  Theorem host_rule : forall q c r b added cloned,
    forward q f c r = ReqSent b added cloned ->
    bq_host b = if negb (p_host_is_name c) || p_keep_host c then cq_host r else p_server_host c.
  Proof.
    intros q c r b added cloned H. destruct (forward_inv _ _ _ _ _ _ H) as (p & qy & h & body & t & _ & _ & _ & _ & Hb & _).
    subst b. reflexivity.
  Qed.

  Lemma ra_off_id : forall a h body, a_on a = false -> request_adaptor f a h body = Some (h, body).
  Proof. intros a h body H. unfold request_adaptor. rewrite H. reflexivity. Qed.

  (** keys the backend hop's own client manages *)
  Definition transport_managed (k : string) : bool :=
    String.eqb k "Content-Length" || String.eqb k "User-Agent" || String.eqb k "Accept-Encoding".

  Lemma transport_headers_other : forall h k, transport_managed k = false ->
    h_values_exact k (fst (transport_request_headers h)) = h_values_exact k h.
  Proof.
    intros h k Hk. unfold transport_managed in Hk.
    apply orb_false_iff in Hk as [Hk Hae]. apply orb_false_iff in Hk as [Hcl Hua].
    unfold transport_request_headers.
    set (h0 := h_del "Content-Length" h).
    set (h1 := if h_has_exact "User-Agent" h0 then _ else _).
    assert (E1 : h_values_exact k h1 = h_values_exact k h).
    { subst h1. assert (E0 : h_values_exact k h0 = h_values_exact k h).
      { subst h0. rewrite values_del. change (canon_key "Content-Length") with "Content-Length". rewrite Hcl. reflexivity. }
      destruct (h_has_exact "User-Agent" h0).
      - destruct (nonempty (h_get "User-Agent" h0)).
        + rewrite values_set. change (canon_key "User-Agent") with "User-Agent". rewrite Hua. exact E0.
        + rewrite values_del. change (canon_key "User-Agent") with "User-Agent". rewrite Hua. exact E0.
      - rewrite values_set. change (canon_key "User-Agent") with "User-Agent". rewrite Hua. exact E0. }
    destruct (String.eqb (h_get "Accept-Encoding" h1) "" && String.eqb (h_get "Range" h1) ""); cbn [fst].
    - rewrite values_set. change (canon_key "Accept-Encoding") with "Accept-Encoding". rewrite Hae. exact E1.
    - exact E1.
  Qed.

  (** a client Accept-Encoding that is not hop-listed reaches the backend unchanged *)
  Lemma transport_headers_ae : forall h, nonempty (h_get "Accept-Encoding" h) = true ->
    h_values_exact "Accept-Encoding" (fst (transport_request_headers h)) = h_values_exact "Accept-Encoding" h /\
    snd (transport_request_headers h) = false.
  Proof.
    intros h Hne. unfold transport_request_headers.
    set (h0 := h_del "Content-Length" h).
    set (h1 := if h_has_exact "User-Agent" h0 then _ else _).
    assert (E1 : h_values_exact "Accept-Encoding" h1 = h_values_exact "Accept-Encoding" h).
    { subst h1. assert (E0 : h_values_exact "Accept-Encoding" h0 = h_values_exact "Accept-Encoding" h).
      { subst h0. rewrite values_del. reflexivity. }
      destruct (h_has_exact "User-Agent" h0).
      - destruct (nonempty (h_get "User-Agent" h0)).
        + rewrite values_set. exact E0.
        + rewrite values_del. exact E0.
      - rewrite values_set. exact E0. }
    assert (E2 : h_get "Accept-Encoding" h1 = h_get "Accept-Encoding" h).
    { unfold h_get, h_values. change (canon_key "Accept-Encoding") with "Accept-Encoding". rewrite E1. reflexivity. }
    rewrite E2. unfold nonempty in Hne. apply negb_true_iff in Hne. rewrite Hne. cbn [andb fst snd]. split; [exact E1|reflexivity].
  Qed.

  (** URL round trip: re-parsing the target built from the escaped path and the raw query
      yields the client's decoded path and raw query *)
  Definition url_round_trip : Prop :=
    forall t p qy t', f_parse_target f t = Some (p, qy) ->
      f_build_target f (f_escaped_path f t) qy = Some t' -> f_parse_target f t' = Some (p, qy).

  Theorem request_faithful : forall q c r b added cloned,
    q_proxy_decoded_path q = false -> url_round_trip -> ra_off c ->
    forward q f c r = ReqSent b added cloned ->
    bq_method b = cq_method r /\
    f_parse_target f (bq_target b) = f_parse_target f (cq_target r) /\
    bq_body b = cq_body r /\
    (forall k, transport_managed k = false ->
       h_values_exact k (bq_headers b) = if stripped (cq_headers r) k then [] else h_values_exact k (cq_headers r)) /\
    (stripped (cq_headers r) "Accept-Encoding" = false -> nonempty (h_get "Accept-Encoding" (cq_headers r)) = true ->
       h_values_exact "Accept-Encoding" (bq_headers b) = h_values_exact "Accept-Encoding" (cq_headers r)).
  Proof.
    intros q c r b added cloned Hq Hrt Hoff H.
    destruct (forward_inv _ _ _ _ _ _ H) as (p & qy & h & body & t & E1 & E2 & E3 & _ & Hb & _).
    rewrite (ra_off_id _ _ _ Hoff) in E2. inversion E2; subst h body. clear E2.
    rewrite Hq in E3. subst b. cbn [bq_method bq_target bq_body bq_headers].
    split; [reflexivity|]. split; [rewrite E1; exact (Hrt _ _ _ _ E1 E3)|]. split; [reflexivity|]. split.
    - intros k Hk. rewrite (transport_headers_other _ _ Hk). apply hop_by_hop_stripped.
    - intros Hs Hne.
      assert (Hg : h_get "Accept-Encoding" (clone_header (cq_headers r)) = h_get "Accept-Encoding" (cq_headers r)).
      { unfold h_get, h_values. change (canon_key "Accept-Encoding") with "Accept-Encoding".
        destruct (hop_by_hop_stripped (cq_headers r) "Accept-Encoding") as [E _]. rewrite E, Hs. reflexivity. }
      destruct (transport_headers_ae (clone_header (cq_headers r))) as [E _]; [rewrite Hg; exact Hne|].
      rewrite E. destruct (hop_by_hop_stripped (cq_headers r) "Accept-Encoding") as [E' _]. rewrite E', Hs. reflexivity.
  Qed.

  (** with the escaped path the request is always forwarded (no 500 from URL assembly) when
      the escaped target can be built *)
  Theorem request_forwarded : forall q c r p qy,
    q_proxy_decoded_path q = false -> ra_off c ->
    f_parse_target f (cq_target r) = Some (p, qy) ->
    (exists t', f_build_target f (f_escaped_path f (cq_target r)) qy = Some t') ->
    exists b added cloned, forward q f c r = ReqSent b added cloned.
  Proof.
    intros q c r p qy Hq Hoff E1 [t' E3]. unfold forward. rewrite E1, (ra_off_id _ _ _ Hoff), Hq, E3.
    destruct (transport_request_headers _) as [hs ad]. eauto.
  Qed.
End Request.

(** ** response half *)
Lemma slen_zero : forall s, slen s = 0 -> s = EmptyString.
Proof. intros [|a s] H; [reflexivity|]. unfold slen in H. cbn in H. lia. Qed.

Lemma stake_all : forall s, stake (slen s) s = s.
Proof. intros s. apply (bl_take_all _ _ _ string_laws). lia. Qed.

(** fetching a clean body whose announced length is exact (or unknown) never alters it *)
Lemma fetch_exact : forall lim d body b,
  d = -1 \/ d = slen body ->
  fetch_payload slen stake EmptyString lim {| s_decl := d; s_bytes := body; s_clean := true |} = Payload b ->
  b = body.
Proof.
  intros lim d body b Hd H. unfold fetch_payload in H. cbn [s_decl s_bytes s_clean] in H.
  pose proof (bl_nonneg _ _ _ string_laws body) as Hn.
  destruct (norm_limit lim <? 0); [discriminate|].
  destruct (norm_limit lim <? d); [discriminate|].
  destruct (0 <? d) eqn:E1.
  - destruct Hd as [Hd|Hd]; [lia|]. subst d.
    destruct (slen body <=? slen body) eqn:E2; [|lia]. inversion H. apply stake_all.
  - destruct (d =? 0) eqn:E2.
    + destruct Hd as [Hd|Hd]; [lia|]. inversion H. symmetry. apply slen_zero. lia.
    + destruct (slen body <? norm_limit lim); [inversion H; reflexivity|].
      destruct (norm_limit lim <? slen body); [discriminate|]. inversion H; reflexivity.
Qed.

Lemma fetch_never_readerr_clean : forall lim d body,
  d = -1 \/ d = slen body ->
  fetch_payload slen stake EmptyString lim {| s_decl := d; s_bytes := body; s_clean := true |} <> ReadErr.
Proof.
  intros lim d body Hd. unfold fetch_payload. cbn [s_decl s_bytes s_clean].
  pose proof (bl_nonneg _ _ _ string_laws body) as Hn.
  destruct (norm_limit lim <? 0); [discriminate|].
  destruct (norm_limit lim <? d); [discriminate|].
  destruct (0 <? d) eqn:E1.
  - destruct Hd as [Hd|Hd]; [lia|]. subst d. destruct (slen body <=? slen body) eqn:E2; [discriminate|lia].
  - destruct (d =? 0); [discriminate|].
    destruct (slen body <? norm_limit lim); [discriminate|].
    destruct (norm_limit lim <? slen body); discriminate.
Qed.

Definition framed (r : resp) : Prop := rs_cl r = None \/ rs_cl r = Some (slen (rs_body r)).
Definition decl_exact (r : resp) : Prop := rs_decl r = -1 \/ rs_decl r = slen (rs_body r).
(** a Content-Length header is only present while the body is the announced one *)
Definition pre_fetch (r : resp) : Prop := rs_cl r = None \/ (rs_cl r = Some (slen (rs_body r)) /\ rs_decl r = slen (rs_body r)).

Definition backend_well_framed (b : bresp) : Prop := forall d, br_enc b = EncCL d -> d = slen (br_body b).

Section Framing.
  Variable f : fns.

  Lemma transport_pre : forall added b r, backend_well_framed b ->
    transport_response f added b = Some r -> pre_fetch r.
  Proof.
    intros added b r Hwf H. unfold transport_response in H.
    destruct (added && String.eqb (lower (h_get CE (br_headers b))) "gzip").
    - destruct (f_gunzip f (br_body b)); [|discriminate]. inversion H. left. reflexivity.
    - inversion H. unfold pre_fetch. cbn [rs_cl rs_body rs_decl].
      destruct (br_enc b) as [d|t| |] eqn:E; cbn [enc_cl enc_decl]; try (left; reflexivity).
      right. rewrite (Hwf d E). split; reflexivity.
  Qed.

  Lemma compress_pre : forall q m hs r, pre_fetch r -> pre_fetch (fst (compress q f m hs r)).
  Proof.
    intros q m hs r H. unfold compress.
    destruct (negb (accept_gzip hs)); [exact H|].
    destruct (already_gzipped (rs_headers r)); [exact H|].
    destruct (negb (rs_decl r =? -1) && (rs_decl r <? m)); [exact H|].
    left. reflexivity.
  Qed.

  Lemma build_framed : forall q c hs r0 r, pre_fetch r0 ->
    build_response q f c hs r0 = Ok r -> framed r.
  Proof.
    intros q c hs r0 r Hpre H. unfold build_response in H.
    set (cr := match p_minlen c with Some m => compress q f m hs r0 | None => (r0, false) end) in H.
    assert (Hp : pre_fetch (fst cr)).
    { subst cr. destruct (p_minlen c); [apply compress_pre; exact Hpre|exact Hpre]. }
    destruct cr as [r1 compressed]. cbn [fst] in Hp.
    destruct (fetch_payload _ _ _ _ _) as [b| | |] eqn:E; try discriminate.
    - inversion H. unfold framed. cbn [rs_cl rs_body].
      destruct Hp as [Hp|[Hp Hd]]; [left; exact Hp|].
      right. rewrite Hp. f_equal. f_equal. symmetry.
      apply (fetch_exact _ _ _ _ (or_intror Hd) E).
    - destruct (compressed && q_stream_compress_panics q); [discriminate|].
      inversion H. unfold framed. cbn [rs_cl rs_body].
      destruct Hp as [Hp|[Hp _]]; [left|right]; exact Hp.
  Qed.

  Lemma adaptor_framed : forall q a r, q_adaptor_body_keeps_length q = false ->
    framed r -> framed (response_adaptor q f a r).
  Proof.
    intros q a r Hq Hr. unfold response_adaptor.
    destruct (negb (a_on a)); [exact Hr|].
    set (r1 := if nonempty (a_body a) then _ else r).
    assert (H1 : framed r1).
    { subst r1. destruct (nonempty (a_body a)); [|exact Hr]. rewrite Hq. right. reflexivity. }
    set (r2 := if a_compress a && negb (already_gzipped (rs_headers r1)) then _ else r1).
    assert (H2 : framed r2).
    { subst r2. destruct (a_compress a && negb (already_gzipped (rs_headers r1))); [|exact H1].
      unfold framed, set_body. cbn [rs_cl rs_body]. destruct (rs_stream r1); [left|right]; reflexivity. }
    destruct (a_decompress a && String.eqb (h_get CE (rs_headers r2)) "gzip"); [|exact H2].
    destruct (f_gunzip f (rs_body r2)); [|exact H2].
    unfold framed, set_body. cbn [rs_cl rs_body]. destruct (rs_stream r2); [left|right]; reflexivity.
  Qed.

  Lemma write_out_framed : forall r, framed r ->
    w_frame_ok (write_out r) = true /\ w_body (write_out r) = rs_body r /\
    (w_cl (write_out r) = None \/ w_cl (write_out r) = Some (slen (w_body (write_out r)))).
  Proof.
    intros r [H|H]; unfold write_out; rewrite H.
    - cbn. repeat split. left. reflexivity.
    - destruct (slen (rs_body r) <=? slen (rs_body r)) eqn:E; [|lia]. cbn.
      rewrite Z.eqb_refl. repeat split. right. reflexivity.
  Qed.

  Theorem well_framed : forall q c hs added b w,
    q_adaptor_body_keeps_length q = false -> backend_well_framed b ->
    respond q f c hs added b = Some w ->
    w_frame_ok w = true /\ (w_cl w = None \/ w_cl w = Some (slen (w_body w))).
  Proof.
    intros q c hs added b w Hq Hwf H. unfold respond in H.
    destruct (transport_response f added b) as [r0|] eqn:E0.
    - destruct (build_response q f c hs r0) as [r| |] eqn:E1.
      + assert (Hr : framed r) by (eapply build_framed; [|exact E1]; eapply transport_pre; eauto).
        destruct (failure_code c (rs_status r)); inversion H; subst w.
        * destruct (write_out_framed _ Hr) as [A [_ B]]. split; assumption.
        * assert (Hf : framed (response_adaptor q f (p_rs c) r)) by (apply adaptor_framed; assumption).
          destruct (write_out_framed _ Hf) as [A [_ B]]. split; assumption.
      + inversion H. cbn. split; [reflexivity|left; reflexivity].
      + discriminate.
    - inversion H. cbn. split; [reflexivity|left; reflexivity].
  Qed.

  (** without the stream/compress defect the handler never dies *)
  Theorem always_answers : forall q c hs added b,
    q_stream_compress_panics q = false -> respond q f c hs added b <> None.
  Proof.
    intros q c hs added b Hq. unfold respond.
    destruct (transport_response f added b) as [r0|]; [|discriminate].
    unfold build_response.
    destruct (match p_minlen c with Some m => compress q f m hs r0 | None => (r0, false) end) as [r1 cz].
    destruct (fetch_payload _ _ _ _ _); try discriminate.
    - cbn. destruct (failure_code c _); discriminate.
    - rewrite Hq, andb_false_r. cbn. destruct (failure_code c _); discriminate.
  Qed.
End Framing.

(** ** response content *)
Definition label_simple (h : headers) : Prop := h_values_exact CE h = [] \/ h_values_exact CE h = ["gzip"].
Definition same_e2e (h h0 : headers) : Prop :=
  forall k, k <> CE -> k <> "Vary" -> h_values_exact k h = h_values_exact k h0.

Lemma get_CE : forall h, h_get CE h = hd EmptyString (h_values_exact CE h).
Proof. reflexivity. Qed.

Lemma neq_eqb : forall a b : string, a <> b -> String.eqb a b = false.
Proof. intros a b H. apply String.eqb_neq. exact H. Qed.

Section Content.
  Variable f : fns.
  Hypothesis gz : forall b, f_gunzip f (f_gzip f b) = Some b.

  Lemma decode_plain : forall h body, h_values_exact CE h = [] -> decode f h body = Some body.
  Proof. intros h body H. unfold decode. rewrite get_CE, H. reflexivity. Qed.
  Lemma decode_gzip : forall h body, h_values_exact CE h = ["gzip"] -> decode f h body = f_gunzip f body.
  Proof. intros h body H. unfold decode. rewrite get_CE, H. reflexivity. Qed.

  Lemma already_plain : forall h, h_values_exact CE h = [] -> already_gzipped h = false.
  Proof. intros h H. unfold already_gzipped, h_values. change (canon_key CE) with CE. rewrite H. reflexivity. Qed.
  Lemma already_gz : forall h, h_values_exact CE h = ["gzip"] -> already_gzipped h = true.
  Proof. intros h H. unfold already_gzipped, h_values. change (canon_key CE) with CE. rewrite H. reflexivity. Qed.

  Record inv (st : Z) (h0 : headers) (content : string) (r : resp) : Prop := {
    i_status : rs_status r = st;
    i_hdrs : same_e2e (rs_headers r) h0;
    i_label : label_simple (rs_headers r);
    i_content : decode f (rs_headers r) (rs_body r) = Some content
  }.

  Lemma same_del_CE : forall h h0, same_e2e h h0 -> same_e2e (h_del CE h) h0.
  Proof.
    intros h h0 H k K1 K2. rewrite values_del. change (canon_key CE) with CE.
    rewrite (neq_eqb _ _ K1). apply H; assumption.
  Qed.
  Lemma same_set_CE : forall v h h0, same_e2e h h0 -> same_e2e (h_set CE v h) h0.
  Proof.
    intros v h h0 H k K1 K2. rewrite values_set. change (canon_key CE) with CE.
    rewrite (neq_eqb _ _ K1). apply H; assumption.
  Qed.
  Lemma same_add_Vary : forall v h h0, same_e2e h h0 -> same_e2e (h_add "Vary" v h) h0.
  Proof.
    intros v h h0 H k K1 K2. rewrite values_add. change (canon_key "Vary") with "Vary".
    rewrite (neq_eqb _ _ K2). apply H; assumption.
  Qed.

  Lemma label_del : forall h, h_values_exact CE (h_del CE h) = [].
  Proof. intros h. rewrite values_del. reflexivity. Qed.
  Lemma label_set : forall h, h_values_exact CE (h_set CE "gzip" h) = ["gzip"].
  Proof. intros h. rewrite values_set. reflexivity. Qed.
  Lemma label_gzip_plain : forall q h, h_values_exact CE h = [] -> h_values_exact CE (label_gzip q h) = ["gzip"].
  Proof.
    intros q h H. unfold label_gzip. destruct (q_compress_replaces_label q).
    - apply label_set.
    - rewrite values_add. change (canon_key CE) with CE. rewrite String.eqb_refl, H. reflexivity.
  Qed.
  Lemma same_label_gzip : forall q h h0, same_e2e h h0 -> same_e2e (label_gzip q h) h0.
  Proof.
    intros q h h0 H. unfold label_gzip. destruct (q_compress_replaces_label q); [apply same_set_CE, H|].
    intros k K1 K2. rewrite values_add. change (canon_key CE) with CE. rewrite (neq_eqb _ _ K1). apply H; assumption.
  Qed.

  Lemma label_add_vary : forall v h, h_values_exact CE (h_add "Vary" v h) = h_values_exact CE h.
  Proof. intros v h. rewrite values_add. reflexivity. Qed.

  Lemma transport_inv : forall added b r content,
    label_simple (br_headers b) -> decode f (br_headers b) (br_body b) = Some content ->
    transport_response f added b = Some r ->
    inv (br_status b) (br_headers b) content r.
  Proof.
    intros added b r content Hl Hc H. unfold transport_response in H.
    destruct (added && String.eqb (lower (h_get CE (br_headers b))) "gzip") eqn:E.
    - destruct (f_gunzip f (br_body b)) as [d|] eqn:G; [|discriminate]. inversion H. clear H.
      apply andb_true_iff in E as [_ E].
      destruct Hl as [Hl|Hl].
      + rewrite get_CE, Hl in E. cbn in E. discriminate.
      + rewrite (decode_gzip _ _ Hl), G in Hc. inversion Hc. subst d.
        split; cbn [rs_status rs_headers rs_body].
        * reflexivity.
        * apply same_del_CE. intros k _ _. reflexivity.
        * left. apply label_del.
        * apply decode_plain. apply label_del.
    - inversion H. split; cbn [rs_status rs_headers rs_body].
      + reflexivity.
      + intros k _ _. reflexivity.
      + exact Hl.
      + exact Hc.
  Qed.

  Lemma compress_inv : forall q m hs st h0 content r,
    inv st h0 content r -> inv st h0 content (fst (compress q f m hs r)).
  Proof.
    intros q m hs st h0 content r [I1 I2 I3 I4]. unfold compress.
    destruct (negb (accept_gzip hs)); [split; assumption|].
    destruct (already_gzipped (rs_headers r)) eqn:Eg; [split; assumption|].
    destruct (negb (rs_decl r =? -1) && (rs_decl r <? m)); [split; assumption|].
    cbn [fst]. destruct I3 as [I3|I3]; [|rewrite (already_gz _ I3) in Eg; discriminate].
    rewrite (decode_plain _ _ I3) in I4. inversion I4. subst content.
    split; cbn [rs_status rs_headers rs_body].
    - exact I1.
    - apply same_add_Vary, same_label_gzip. exact I2.
    - right. rewrite label_add_vary. apply label_gzip_plain, I3.
    - rewrite decode_gzip; [apply gz|]. rewrite label_add_vary. apply label_gzip_plain, I3.
  Qed.

  Lemma compress_decl : forall q m hs r, q_compress_keeps_length q = false ->
    decl_exact r -> decl_exact (fst (compress q f m hs r)).
  Proof.
    intros q m hs r Hq H. unfold compress.
    destruct (negb (accept_gzip hs)); [exact H|].
    destruct (already_gzipped (rs_headers r)); [exact H|].
    destruct (negb (rs_decl r =? -1) && (rs_decl r <? m)); [exact H|].
    left. cbn. rewrite Hq. reflexivity.
  Qed.

  Lemma transport_decl : forall added b r, backend_well_framed b ->
    transport_response f added b = Some r -> decl_exact r.
  Proof.
    intros added b r Hwf H. unfold transport_response in H.
    destruct (added && String.eqb (lower (h_get CE (br_headers b))) "gzip").
    - destruct (f_gunzip f (br_body b)); [|discriminate]. inversion H. left. reflexivity.
    - inversion H. unfold decl_exact. cbn [rs_decl rs_body].
      destruct (br_enc b) as [d|t| |] eqn:E; cbn [enc_decl]; try (left; reflexivity).
      right. exact (Hwf d E).
  Qed.

  Lemma build_inv : forall q c hs st h0 content r0 r,
    q_compress_keeps_length q = false ->
    inv st h0 content r0 -> decl_exact r0 ->
    build_response q f c hs r0 = Ok r -> inv st h0 content r.
  Proof.
    intros q c hs st h0 content r0 r Hq Hi Hd H. unfold build_response in H.
    set (cr := match p_minlen c with Some m => compress q f m hs r0 | None => (r0, false) end) in H.
    assert (Hi1 : inv st h0 content (fst cr)).
    { subst cr. destruct (p_minlen c); [apply compress_inv|]; exact Hi. }
    assert (Hd1 : decl_exact (fst cr)).
    { subst cr. destruct (p_minlen c); [apply compress_decl; assumption|exact Hd]. }
    destruct cr as [r1 compressed]. cbn [fst] in *. destruct Hi1 as [I1 I2 I3 I4].
    destruct (fetch_payload _ _ _ _ _) as [b| | |] eqn:E; try discriminate.
    - apply (fetch_exact _ _ _ _ Hd1) in E. subst b. inversion H. split; assumption.
    - destruct (compressed && q_stream_compress_panics q); [discriminate|].
      inversion H. split; assumption.
  Qed.

  Definition adapted (a : adapt) (content : string) : string :=
    if a_on a && nonempty (a_body a) then a_body a else content.

  Lemma adaptor_inv : forall q a st h0 content r,
    inv st h0 content r -> inv st h0 (adapted a content) (response_adaptor q f a r).
  Proof.
    intros q a st h0 content r Hi. unfold response_adaptor, adapted.
    destruct (a_on a); cbn [negb andb]; [|exact Hi].
    set (r1 := if nonempty (a_body a) then _ else r).
    set (c1 := if nonempty (a_body a) then a_body a else content).
    assert (H1 : inv st h0 c1 r1).
    { subst r1 c1. destruct (nonempty (a_body a)); [|exact Hi]. destruct Hi as [I1 I2 I3 I4].
      split; cbn [set_body rs_status rs_headers rs_body].
      - exact I1.
      - apply same_del_CE. exact I2.
      - left. apply label_del.
      - apply decode_plain. apply label_del. }
    clearbody r1 c1. clear Hi.
    set (r2 := if a_compress a && negb (already_gzipped (rs_headers r1)) then _ else r1).
    assert (H2 : inv st h0 c1 r2).
    { subst r2. destruct (a_compress a); cbn [andb]; [|exact H1].
      destruct (already_gzipped (rs_headers r1)) eqn:Eg; cbn [negb]; [exact H1|].
      destruct H1 as [I1 I2 I3 I4].
      destruct I3 as [I3|I3]; [|rewrite (already_gz _ I3) in Eg; discriminate].
      rewrite (decode_plain _ _ I3) in I4. inversion I4. subst c1.
      split; cbn [set_body rs_status rs_headers rs_body].
      - exact I1.
      - apply same_label_gzip. exact I2.
      - right. apply label_gzip_plain, I3.
      - rewrite decode_gzip; [apply gz|apply label_gzip_plain, I3]. }
    clearbody r2. clear H1.
    destruct (a_decompress a); cbn [andb]; [|exact H2].
    destruct (String.eqb (h_get CE (rs_headers r2)) "gzip") eqn:Eg; [|exact H2].
    destruct (f_gunzip f (rs_body r2)) as [d|] eqn:G; [|exact H2].
    destruct H2 as [I1 I2 I3 I4].
    destruct I3 as [I3|I3]; [rewrite get_CE, I3 in Eg; cbn in Eg; discriminate|].
    rewrite (decode_gzip _ _ I3), G in I4. inversion I4. subst d.
    split; cbn [set_body rs_status rs_headers rs_body].
    - exact I1.
    - apply same_del_CE. exact I2.
    - left. apply label_del.
    - apply decode_plain. apply label_del.
  Qed.

  Lemma write_out_inv : forall st h0 content r, framed r -> inv st h0 content r ->
    w_status (write_out r) = st /\ same_e2e (w_headers (write_out r)) h0 /\
    decode f (w_headers (write_out r)) (w_body (write_out r)) = Some content.
  Proof.
    intros st h0 content r Hf [J1 J2 J3 J4].
    destruct (write_out_framed _ Hf) as [_ [Hb _]].
    assert (Hs : w_status (write_out r) = rs_status r).
    { unfold write_out. destruct (rs_cl _); [destruct (_ <=? _)|]; reflexivity. }
    assert (Hh : w_headers (write_out r) = rs_headers r).
    { unfold write_out. destruct (rs_cl _); [destruct (_ <=? _)|]; reflexivity. }
    rewrite Hs, Hh, Hb. repeat split; assumption.
  Qed.

  (** the content the client is owed: the backend's, or - unless the backend's status is one
      of the pool's failureCodes, which ends the pipeline at the Proxy - what the
      ResponseAdaptor makes of it *)
  Definition owed (c : pcfg) (status : Z) (content : string) : string :=
    if failure_code c status then content else adapted (p_rs c) content.

  (** status, end-to-end headers and content survive the gateway, whatever compression,
      transparent decompression, adaptors and stream mode do; the only other outcome is
      the gateway's own 500 (size limit, undecodable body) *)
  Theorem response_content : forall q c hs added b w content,
    q_compress_keeps_length q = false -> q_adaptor_body_keeps_length q = false ->
    backend_well_framed b -> label_simple (br_headers b) ->
    decode f (br_headers b) (br_body b) = Some content ->
    respond q f c hs added b = Some w ->
    w = failure 500 \/
    (w_status w = br_status b /\ same_e2e (w_headers w) (br_headers b) /\
     decode f (w_headers w) (w_body w) = Some (owed c (br_status b) content)).
  Proof.
    intros q c hs added b w content Hq1 Hq2 Hwf Hl Hc H. unfold respond in H.
    destruct (transport_response f added b) as [r0|] eqn:E0; [|inversion H; left; reflexivity].
    destruct (build_response q f c hs r0) as [r| |] eqn:E1; [|inversion H; left; reflexivity|discriminate].
    right.
    pose proof (transport_inv _ _ _ _ Hl Hc E0) as I0.
    pose proof (transport_decl _ _ _ Hwf E0) as D0.
    pose proof (build_inv _ _ _ _ _ _ _ _ Hq1 I0 D0 E1) as I1.
    assert (Hr : framed r) by (eapply build_framed; [|exact E1]; eapply transport_pre; eauto).
    assert (Es : rs_status r = br_status b) by (destruct I1; assumption).
    unfold owed. rewrite <- Es.
    destruct (failure_code c (rs_status r)); inversion H; subst w.
    - rewrite Es. apply write_out_inv; assumption.
    - rewrite Es. apply write_out_inv.
      + apply adaptor_framed; assumption.
      + apply adaptor_inv. exact I1.
  Qed.
End Content.

(** ** request content through the RequestAdaptor *)
Section RequestContent.
  Variable f : fns.
  Hypothesis gz : forall b, f_gunzip f (f_gzip f b) = Some b.

  Lemma request_adaptor_content : forall a h body h' body' content,
    label_simple h -> decode f h body = Some content ->
    request_adaptor f a h body = Some (h', body') ->
    label_simple h' /\ decode f h' body' = Some (adapted a content) /\
    (forall k, k <> CE -> h_values_exact k h' = h_values_exact k h).
  Proof.
    intros a h body h' body' content Hl Hc H. unfold request_adaptor, adapted in *.
    destruct (a_on a); cbn [negb andb] in *.
    2:{ inversion H. subst. repeat split; auto. }
    set (p1 := if nonempty (a_body a) then (h_del CE h, a_body a) else (h, body)) in H.
    set (c1 := if nonempty (a_body a) then a_body a else content).
    assert (H1 : label_simple (fst p1) /\ decode f (fst p1) (snd p1) = Some c1 /\
                 (forall k, k <> CE -> h_values_exact k (fst p1) = h_values_exact k h)).
    { subst p1 c1. destruct (nonempty (a_body a)); cbn [fst snd].
      - split; [left; apply label_del|]. split; [apply decode_plain, label_del|].
        intros k K. rewrite values_del. change (canon_key CE) with CE. rewrite (neq_eqb _ _ K). reflexivity.
      - repeat split; auto. }
    clearbody c1. destruct p1 as [h1 b1]. cbn [fst snd] in H1. destruct H1 as [L1 [D1 S1]].
    set (p2 := if a_compress a && String.eqb (h_get CE h1) "" then (h_set CE "gzip" h1, f_gzip f b1) else (h1, b1)) in H.
    assert (H2 : label_simple (fst p2) /\ decode f (fst p2) (snd p2) = Some c1 /\
                 (forall k, k <> CE -> h_values_exact k (fst p2) = h_values_exact k h)).
    { subst p2. destruct (a_compress a); cbn [andb]; [|cbn [fst snd]; repeat split; auto].
      destruct (String.eqb (h_get CE h1) "") eqn:Eg; cbn [fst snd]; [|repeat split; auto].
      destruct L1 as [L1|L1]; [|rewrite get_CE, L1 in Eg; cbn in Eg; discriminate].
      rewrite (decode_plain _ _ _ L1) in D1. inversion D1. subst c1.
      split; [right; apply label_set|]. split; [rewrite decode_gzip; [apply gz|apply label_set]|].
      intros k K. rewrite values_set. change (canon_key CE) with CE. rewrite (neq_eqb _ _ K). apply S1, K. }
    destruct p2 as [h2 b2]. cbn [fst snd] in H2. destruct H2 as [L2 [D2 S2]].
    destruct (a_decompress a); cbn [andb] in H.
    2:{ inversion H. subst. repeat split; auto. }
    destruct (String.eqb (h_get CE h2) "gzip") eqn:Eg.
    2:{ inversion H. subst. repeat split; auto. }
    destruct (f_gunzip f b2) as [d|] eqn:G; [|discriminate]. inversion H. subst h' body'. clear H.
    destruct L2 as [L2|L2]; [rewrite get_CE, L2 in Eg; cbn in Eg; discriminate|].
    rewrite (decode_gzip _ _ _ L2), G in D2. inversion D2. subst d.
    split; [left; apply label_del|]. split; [apply decode_plain, label_del|].
    intros k K. rewrite values_del. change (canon_key CE) with CE. rewrite (neq_eqb _ _ K). apply S2, K.
  Qed.

  (** with a RequestAdaptor (body / compress / decompress) the backend receives a body that
      decodes, per the Content-Encoding it is labelled with, to the client's content or to
      the adaptor's body; a failing decompression is the only way not to forward *)
  Theorem request_content : forall q c r b added cloned content,
    label_simple (cq_headers r) -> decode f (cq_headers r) (cq_body r) = Some content ->
    stripped (cq_headers r) CE = false ->      (* the client does not list Content-Encoding in Connection *)
    forward q f c r = ReqSent b added cloned ->
    decode f (bq_headers b) (bq_body b) = Some (adapted (p_ra c) content).
  Proof.
    intros q c r b added cloned content Hl Hc Hns0 H.
    destruct (forward_inv f _ _ _ _ _ _ H) as (p & qy & h & body & t & _ & E2 & _ & _ & Hb & _).
    destruct (request_adaptor_content _ _ _ _ _ _ Hl Hc E2) as [L [D Hsame]].
    assert (Hns : stripped h CE = false).
    { unfold stripped, connection_tokens in *. rewrite (Hsame "Connection") by discriminate. exact Hns0. }
    subst b. cbn [bq_headers bq_body].
    assert (Hv : h_values_exact CE (fst (transport_request_headers (clone_header h))) = h_values_exact CE h).
    { rewrite transport_headers_other by reflexivity.
      destruct (hop_by_hop_stripped h CE) as [E _]. rewrite E, Hns. reflexivity. }
    unfold decode in *. rewrite !get_CE in *. rewrite Hv. exact D.
  Qed.
End RequestContent.

(** ** concrete external functions for witnesses and non-vacuity *)
Fixpoint strip_gt (s : string) : option string :=
  match s with
  | EmptyString => None
  | String c t =>
      match t with
      | EmptyString => if Ascii.eqb c ">"%char then Some EmptyString else None
      | _ => option_map (String c) (strip_gt t)
      end
  end.
Definition toy_gzip (b : string) : string := String "<"%char (b ++ ">").
Definition toy_gunzip (s : string) : option string :=
  match s with
  | String c t => if Ascii.eqb c "<"%char then strip_gt t else None
  | EmptyString => None
  end.

Lemma strip_gt_app : forall b, strip_gt (b ++ ">") = Some b.
Proof.
  induction b as [|a b IH]; [reflexivity|].
  cbn [append strip_gt]. destruct (b ++ ">")%string eqn:E.
  - destruct b; discriminate.
  - rewrite IH. reflexivity.
Qed.

Lemma toy_round_trip : forall b, toy_gunzip (toy_gzip b) = Some b.
Proof. intros b. unfold toy_gunzip, toy_gzip. cbn. apply strip_gt_app. Qed.

(** a four-entry URL world: the client asks for /a%3Fb *)
Definition toy_fns : fns :=
  {| f_gzip := toy_gzip; f_gunzip := toy_gunzip;
     f_parse_target := fun t =>
       if String.eqb t "/a%3Fb" then Some ("/a?b", "")
       else if String.eqb t "/a?b" then Some ("/a", "b")
       else if String.eqb t "/p%25q" then Some ("/p%q", "")
       else if String.eqb t "/x" then Some ("/x", "") else None;
     f_escaped_path := fun t => if String.eqb t "/a?b" then "/a" else t;
     f_build_target := fun p q =>
       if String.eqb p "/p%q" then None            (* url.Parse: invalid URL escape "%q" *)
       else Some (if String.eqb q "" then p else p ++ "?" ++ q) |}.

Lemma toy_url_round_trip : url_round_trip toy_fns.
Proof.
  intros t p qy t' H1 H2. cbn in H1, H2.
  destruct (String.eqb t "/a%3Fb") eqn:E1.
  { apply String.eqb_eq in E1. subst t. inversion H1. subst p qy. cbn in H2. inversion H2. reflexivity. }
  destruct (String.eqb t "/a?b") eqn:E2.
  { apply String.eqb_eq in E2. subst t. inversion H1. subst p qy. cbn in H2. inversion H2. reflexivity. }
  destruct (String.eqb t "/p%25q") eqn:E3.
  { apply String.eqb_eq in E3. subst t. inversion H1. subst p qy. cbn in H2. inversion H2. reflexivity. }
  destruct (String.eqb t "/x") eqn:E4; [|discriminate].
  apply String.eqb_eq in E4. subst t. inversion H1. subst p qy. cbn in H2. inversion H2. reflexivity.
Qed.

Definition no_adapt : adapt := {| a_on := false; a_body := ""; a_compress := false; a_decompress := false |}.
Definition cfg0 : pcfg :=
  {| p_cstream := false; p_pool_max := 0; p_proxy_max := 0; p_server_host := "backend:80"; p_host_is_name := true;
     p_keep_host := false; p_fail_codes := []; p_minlen := None; p_ra := no_adapt; p_rs := no_adapt |}.
Definition with_flag (i : N) : quirks :=
  {| q_compress_keeps_length := (i =? 1)%N; q_adaptor_body_keeps_length := (i =? 2)%N;
     q_proxy_decoded_path := (i =? 3)%N; q_stream_compress_panics := (i =? 4)%N;
     q_compress_replaces_label := (i =? 5)%N |}.

Definition resp5 : bresp :=
  {| br_status := 200; br_headers := [("Content-Type", ["text/plain"])]; br_enc := EncCL 5; br_body := "hello" |}.

(** flag 1: a 5-byte body announced with Content-Length, compressed by the proxy: the
    first 5 bytes of the gzip stream are delivered with status 200 *)
Theorem refuted_compress_len :
  exists f c hs added b content w,
    (forall x, f_gunzip f (f_gzip f x) = Some x) /\ backend_well_framed b /\ label_simple (br_headers b) /\
    decode f (br_headers b) (br_body b) = Some content /\
    respond (with_flag 1) f c hs added b = Some w /\ w <> failure 500 /\
    w_status w = 200 /\ decode f (w_headers w) (w_body w) <> Some (adapted (p_rs c) content).
Proof.
  exists toy_fns,
    {| p_cstream := false; p_pool_max := 0; p_proxy_max := 0; p_server_host := "backend:80"; p_host_is_name := true;
       p_keep_host := false; p_fail_codes := []; p_minlen := Some 0; p_ra := no_adapt; p_rs := no_adapt |},
    [("Accept-Encoding", ["gzip"])], false, resp5, "hello".
  eexists. split; [exact toy_round_trip|]. split; [intros d H; inversion H; reflexivity|].
  split; [left; reflexivity|]. split; [reflexivity|]. split; [vm_compute; reflexivity|].
  split; [discriminate|]. split; [reflexivity|]. vm_compute. discriminate.
Qed.

(** flag 2: ResponseAdaptor body "adapted" (7 bytes) under the backend's Content-Length: 5 *)
Theorem refuted_adaptor_body_len :
  exists f c hs added b w,
    backend_well_framed b /\ respond (with_flag 2) f c hs added b = Some w /\
    w_frame_ok w = false /\ w_cl w = Some 5 /\ w_body w = "".
Proof.
  exists toy_fns,
    {| p_cstream := false; p_pool_max := 0; p_proxy_max := 0; p_server_host := "backend:80"; p_host_is_name := true;
       p_keep_host := false; p_fail_codes := []; p_minlen := None; p_ra := no_adapt;
       p_rs := {| a_on := true; a_body := "adapted"; a_compress := false; a_decompress := false |} |},
    [], false, resp5.
  eexists. split; [intros d H; inversion H; reflexivity|]. split; [vm_compute; reflexivity|].
  repeat split.
Qed.

(** flag 3: /a%3Fb reaches the backend as /a?b (path /a, query b); /p%25q is answered 500
    without contacting the backend *)
Theorem refuted_decoded_path :
  exists f c, url_round_trip f /\ ra_off c /\
    (exists r p qy b added cloned,
       f_parse_target f (cq_target r) = Some (p, qy) /\
       forward (with_flag 3) f c r = ReqSent b added cloned /\
       f_parse_target f (bq_target b) <> Some (p, qy)) /\
    (exists r p qy, f_parse_target f (cq_target r) = Some (p, qy) /\
       (exists t', f_build_target f (f_escaped_path f (cq_target r)) qy = Some t') /\
       forward (with_flag 3) f c r = ReqReject 500).
Proof.
  exists toy_fns, cfg0. split; [exact toy_url_round_trip|]. split; [reflexivity|]. split.
  - exists {| cq_method := "GET"; cq_target := "/a%3Fb"; cq_host := "front"; cq_headers := []; cq_body := "" |}.
    do 5 eexists. split; [reflexivity|]. split; [vm_compute; reflexivity|]. vm_compute. discriminate.
  - exists {| cq_method := "GET"; cq_target := "/p%25q"; cq_host := "front"; cq_headers := []; cq_body := "" |}.
    do 2 eexists. split; [reflexivity|]. split; [eexists; reflexivity|]. vm_compute. reflexivity.
Qed.

(** flag 4: stream mode and a compressed response: the handler dies, no response at all *)
Theorem refuted_stream_compress_panics :
  exists f c hs added b, backend_well_framed b /\ respond (with_flag 4) f c hs added b = None.
Proof.
  exists toy_fns,
    {| p_cstream := false; p_pool_max := -1; p_proxy_max := 0; p_server_host := "backend:80"; p_host_is_name := true;
       p_keep_host := false; p_fail_codes := []; p_minlen := Some 0; p_ra := no_adapt; p_rs := no_adapt |},
    [], false, resp5.
  split; [intros d H; inversion H; reflexivity|]. vm_compute. reflexivity.
Qed.

(** flag 5: a body the backend labelled "br" is compressed by the proxy: the client gets the
    gzip of the br bytes labelled gzip only - the br coding has vanished from the label *)
Theorem refuted_compress_replaces_label :
  exists f c hs added b w,
    backend_well_framed b /\ h_values_exact CE (br_headers b) = ["br"] /\
    respond (with_flag 5) f c hs added b = Some w /\ w_status w = 200 /\
    h_values_exact CE (w_headers w) = ["gzip"] /\ f_gunzip f (w_body w) = Some (br_body b).
Proof.
  exists toy_fns,
    {| p_cstream := false; p_pool_max := 0; p_proxy_max := 0; p_server_host := "backend:80"; p_host_is_name := true;
       p_keep_host := false; p_fail_codes := []; p_minlen := Some 0; p_ra := no_adapt; p_rs := no_adapt |},
    [("Accept-Encoding", ["gzip, br"])], false,
    {| br_status := 200; br_headers := [("Content-Encoding", ["br"])]; br_enc := EncCL 5; br_body := "BROTL" |}.
  eexists. split; [intros d H; inversion H; reflexivity|]. split; [reflexivity|].
  split; [vm_compute; reflexivity|]. repeat split.
Qed.

(** without it the coding is appended: whatever the body already carried stays named *)
Theorem compress_appends_label : forall q h, q_compress_replaces_label q = false ->
  h_values_exact CE (label_gzip q h) = (h_values_exact CE h ++ ["gzip"])%list /\
  (forall k, k <> CE -> h_values_exact k (label_gzip q h) = h_values_exact k h).
Proof.
  intros q h Hq. unfold label_gzip. rewrite Hq. split.
  - rewrite values_add. change (canon_key CE) with CE. rewrite String.eqb_refl. reflexivity.
  - intros k K. rewrite values_add. change (canon_key CE) with CE. rewrite (neq_eqb _ _ K). reflexivity.
Qed.

(** non-vacuity: the ideal model on the same inputs forwards /a%3Fb unchanged, strips the
    hop-by-hop headers, applies the Host rule, and delivers a well-framed gzip response
    that decodes to the backend's body *)
Example proxy_nonvacuous :
  let r := {| cq_method := "POST"; cq_target := "/a%3Fb"; cq_host := "front.test";
              cq_headers := [("Connection", ["X-Foo, close"]); ("X-Foo", ["1"]); ("Keep-Alive", ["5"]);
                             ("Te", ["trailers"]); ("X-Trace", ["a"; "b"]); ("Accept-Encoding", ["gzip"])];
              cq_body := "ping" |} in
  let c := {| p_cstream := false; p_pool_max := -1; p_proxy_max := 0; p_server_host := "backend:80"; p_host_is_name := true;
              p_keep_host := false; p_fail_codes := []; p_minlen := Some 0; p_ra := no_adapt; p_rs := no_adapt |} in
  match exchange ideal toy_fns c r resp5 with
  | Answered w (Some b) =>
      bq_target b = "/a%3Fb" /\ bq_host b = "backend:80" /\ bq_body b = "ping" /\
      h_values_exact "X-Trace" (bq_headers b) = ["a"; "b"] /\
      h_has_exact "X-Foo" (bq_headers b) = false /\ h_has_exact "Keep-Alive" (bq_headers b) = false /\
      h_has_exact "Te" (bq_headers b) = false /\ h_has_exact "Connection" (bq_headers b) = false /\
      w_status w = 200 /\ w_frame_ok w = true /\ w_cl w = None /\
      decode toy_fns (w_headers w) (w_body w) = Some "hello"
  | _ => False
  end.
Proof. vm_compute. repeat split. Qed.

(** ** histories against one pipeline with a memoryCache *)
Lemma alookup_In {A} : forall k (l : list (string * A)) v, alookup k l = Some v -> In (k, v) l.
Proof.
  intros k l v. induction l as [|[k' v'] t IH]; cbn [alookup]; [discriminate|].
  destruct (String.eqb k k') eqn:E.
  - intros H. inversion H. apply String.eqb_eq in E. subst. left. reflexivity.
  - intros H. right. apply IH, H.
Qed.

Fixpoint run_steps (q : quirks) (f : fns) (c : pcfg) (e : hedit) (s : cache_spec) (st : cache)
         (l : list (creq * bresp)) : list outcome :=
  match l with
  | [] => []
  | rb :: t => let '(o, st') := step q f c e s st (fst rb) (snd rb) in o :: run_steps q f c e s st' t
  end.

Section History.
  Variable f : fns.
  Hypothesis gz : forall b, f_gunzip f (f_gzip f b) = Some b.

  Definition good_backend (b : bresp) : Prop :=
    backend_well_framed b /\ label_simple (br_headers b) /\
    exists content, decode f (br_headers b) (br_body b) = Some content.

  (** a response held by the gateway that is a faithful, well-framed image of one of the
      backend answers [seen] so far *)
  Definition resp_ok (seen : list bresp) (r : resp) : Prop :=
    framed r /\ exists b content, In b seen /\ decode f (br_headers b) (br_body b) = Some content /\
                                  inv f (br_status b) (br_headers b) content r.
  Definition cache_ok (seen : list bresp) (st : cache) : Prop :=
    forall k e, In (k, e) st -> resp_ok seen (resp_of_entry e).

  (** what the client may receive: the gateway's own failure, or - well-framed - the status,
      end-to-end headers and (adapted) content of one of the backend answers [seen] *)
  Definition answer_ok (c : pcfg) (seen : list bresp) (w : wresp) : Prop :=
    (exists code, w = failure code) \/
    (w_frame_ok w = true /\ (w_cl w = None \/ w_cl w = Some (slen (w_body w))) /\
     exists b content, In b seen /\ decode f (br_headers b) (br_body b) = Some content /\
       w_status w = br_status b /\ same_e2e (w_headers w) (br_headers b) /\
       (decode f (w_headers w) (w_body w) = Some content \/
        decode f (w_headers w) (w_body w) = Some (adapted (p_rs c) content))).
  Definition out_ok (c : pcfg) (seen : list bresp) (o : outcome) : Prop :=
    match o with Answered w _ => answer_ok c seen w | NoResponse _ => False end.

  Lemma resp_ok_mono : forall seen seen' r, (forall b, In b seen -> In b seen') -> resp_ok seen r -> resp_ok seen' r.
  Proof. intros seen seen' r H [F [b [ct [I R]]]]. split; [exact F|]. exists b, ct. split; [apply H, I|exact R]. Qed.

  Lemma finish_ok : forall q c seen r, q_adaptor_body_keeps_length q = false ->
    resp_ok seen r -> answer_ok c seen (finish q f c no_edit r).
  Proof.
    intros q c seen r Hq [F [b [ct [I [D Hinv]]]]]. right. unfold finish.
    assert (F0 : framed (hdr_edit no_edit r)) by exact F.
    assert (I0 : inv f (br_status b) (br_headers b) ct (hdr_edit no_edit r)).
    { destruct Hinv as [A B C E]. split; assumption. }
    pose proof (adaptor_framed f q (p_rs c) _ Hq F0) as F1.
    pose proof (adaptor_inv f gz q (p_rs c) _ _ _ _ I0) as I1.
    destruct (write_out_framed _ F1) as [W1 [W2 W3]].
    set (r' := response_adaptor q f (p_rs c) (hdr_edit no_edit r)) in *.
    assert (Hs : w_status (write_out r') = rs_status r').
    { unfold write_out. destruct (rs_cl r'); [destruct (_ <=? _)|]; reflexivity. }
    assert (Hh : w_headers (write_out r') = rs_headers r').
    { unfold write_out. destruct (rs_cl r'); [destruct (_ <=? _)|]; reflexivity. }
    destruct I1 as [J1 J2 J3 J4].
    split; [exact W1|]. split; [exact W3|]. exists b, ct. rewrite Hs, Hh, W2.
    split; [assumption|]. split; [assumption|]. split; [assumption|]. split; [assumption|]. right. assumption.
  Qed.

  (** a failure-coded answer leaves the gateway as the Proxy built it *)
  Lemma plain_ok : forall c seen r, resp_ok seen r -> answer_ok c seen (write_out r).
  Proof.
    intros c seen r [F [b [ct [I [D Hinv]]]]]. right.
    destruct (write_out_framed _ F) as [W1 [_ W3]].
    destruct (write_out_inv f _ _ _ _ F Hinv) as [A [Bh Cd]].
    split; [exact W1|]. split; [exact W3|]. exists b, ct.
    split; [assumption|]. split; [assumption|]. split; [assumption|]. split; [assumption|]. left. assumption.
  Qed.

  Lemma build_not_panicked : forall q c hs r0, q_stream_compress_panics q = false ->
    build_response q f c hs r0 <> Panicked.
  Proof.
    intros q c hs r0 Hq. unfold build_response.
    destruct (match p_minlen c with Some m => compress q f m hs r0 | None => (r0, false) end) as [r1 cz].
    destruct (fetch_payload _ _ _ _ _); try discriminate. rewrite Hq, andb_false_r. discriminate.
  Qed.

  Lemma step_ok : forall q c s st r b o st' seen,
    q_compress_keeps_length q = false -> q_adaptor_body_keeps_length q = false -> q_stream_compress_panics q = false ->
    good_backend b -> cache_ok seen st ->
    step q f c no_edit s st r b = (o, st') ->
    out_ok c (b :: seen) o /\ cache_ok (b :: seen) st'.
  Proof.
    intros q c s st r b o st' seen Q1 Q2 Q4 [Hwf [Hl [ct Hc]]] Hst H.
    assert (Hmono : cache_ok (b :: seen) st).
    { intros k e Hin. eapply resp_ok_mono; [|apply (Hst k e Hin)]. intros x Hx. right. exact Hx. }
    unfold step in H.
    destruct (f_parse_target f (cq_target r)) as [[path qy]|]; [|inversion H; subst; split; [left; eexists; reflexivity|exact Hmono]].
    destruct (request_adaptor f (p_ra c) (cq_headers r) (cq_body r)) as [[h body]|];
      [|inversion H; subst; split; [left; eexists; reflexivity|exact Hmono]].
    destruct (if loadable s (cq_method r) h then alookup (cache_key (cq_host r) path (cq_method r)) st else None) as [ent|] eqn:El.
    - inversion H. subst o st'. split; [|exact Hmono].
      apply finish_ok; [exact Q2|].
      destruct (loadable s (cq_method r) h); [|discriminate]. apply alookup_In in El. apply (Hmono _ _ El).
    - destruct (forward q f c r) as [code|br added cloned]; [inversion H; subst; split; [left; eexists; reflexivity|exact Hmono]|].
      destruct (transport_response f added b) as [r0|] eqn:E0; [|inversion H; subst; split; [left; eexists; reflexivity|exact Hmono]].
      destruct (build_response q f c cloned r0) as [r1| |] eqn:E1.
      + assert (R1 : resp_ok (b :: seen) r1).
        { split.
          - eapply build_framed; [|exact E1]. eapply transport_pre; eauto.
          - exists b, ct. split; [left; reflexivity|]. split; [exact Hc|].
            eapply build_inv; [exact gz|exact Q1| | |exact E1].
            + eapply transport_inv; eauto.
            + eapply transport_decl; eauto. }
        destruct (failure_code c (rs_status r1)); inversion H; subst o st'.
        { split; [apply plain_ok; exact R1|exact Hmono]. }
        split; [apply finish_ok; assumption|].
        destruct (storable s (cq_method r) h r1); [|exact Hmono].
        intros k e [Hin|Hin]; [|apply (Hmono k e Hin)].
        inversion Hin. subst k e. destruct R1 as [F [b' [ct' [I [D Hinv]]]]]. split.
        * exact F.
        * exists b', ct'. split; [exact I|]. split; [exact D|]. destruct Hinv as [A B C E]. split; assumption.
      + inversion H; subst; split; [left; eexists; reflexivity|exact Hmono].
      + exfalso. exact (build_not_panicked q c cloned r0 Q4 E1).
  Qed.

  (** every outcome of a history is judged against the backend answers given up to and
      including its own step *)
  Fixpoint all_ok (c : pcfg) (seen : list bresp) (l : list (creq * bresp)) (outs : list outcome) : Prop :=
    match l, outs with
    | [], [] => True
    | rb :: l', o :: outs' => out_ok c (snd rb :: seen) o /\ all_ok c (snd rb :: seen) l' outs'
    | _, _ => False
    end.

  Theorem history_faithful : forall q c s l,
    q_compress_keeps_length q = false -> q_adaptor_body_keeps_length q = false -> q_stream_compress_panics q = false ->
    Forall (fun rb => good_backend (snd rb)) l ->
    all_ok c [] l (run_steps q f c no_edit s [] l).
  Proof.
    intros q c s l Q1 Q2 Q4 Hl.
    assert (G : forall l st seen, Forall (fun rb => good_backend (snd rb)) l -> cache_ok seen st ->
                all_ok c seen l (run_steps q f c no_edit s st l)).
    { clear l Hl. induction l as [|rb t IH]; intros st seen Hf Hst; cbn [run_steps all_ok]; [exact I|].
      inversion Hf as [|x y Hg Ht]. subst.
      destruct (step q f c no_edit s st (fst rb) (snd rb)) as [o st'] eqn:E.
      destruct (step_ok _ _ _ _ _ _ _ _ _ Q1 Q2 Q4 Hg Hst E) as [Ho Hc']. cbn [all_ok].
      split; [exact Ho|apply IH; assumption]. }
    apply G; [exact Hl|]. intros k e [].
  Qed.

  (** a hit hands out the stored copy and leaves the cache as it is *)
  Theorem cache_hit_immutable : forall q c e s st r b path qy h body ent,
    f_parse_target f (cq_target r) = Some (path, qy) ->
    request_adaptor f (p_ra c) (cq_headers r) (cq_body r) = Some (h, body) ->
    loadable s (cq_method r) h = true ->
    alookup (cache_key (cq_host r) path (cq_method r)) st = Some ent ->
    step q f c e s st r b = (Answered (finish q f c e (resp_of_entry ent)) None, st).
  Proof. intros. unfold step. rewrite H, H0, H1, H2. reflexivity. Qed.
End History.

(** non-vacuity: miss, hit, hit on one resource with a compressing ResponseAdaptor *)
Example history_nonvacuous :
  let c := {| p_cstream := false; p_pool_max := 0; p_proxy_max := 0; p_server_host := "backend:80"; p_host_is_name := true;
              p_keep_host := false; p_fail_codes := []; p_minlen := None; p_ra := no_adapt;
              p_rs := {| a_on := true; a_body := ""; a_compress := true; a_decompress := false |} |} in
  let s := {| mc_on := true; mc_codes := [200]; mc_methods := ["GET"]; mc_max := 100 |} in
  let r := {| cq_method := "GET"; cq_target := "/x"; cq_host := "front"; cq_headers := []; cq_body := "" |} in
  let b2 := {| br_status := 200; br_headers := []; br_enc := EncCL 5; br_body := "other" |} in
  good_backend toy_fns resp5 /\
  map (fun o => match o with
                | Answered w br => (w_status w, w_body w, w_cl w, match br with Some _ => true | None => false end)
                | NoResponse _ => (0, "", None, false) end)
      (run_steps ideal toy_fns c no_edit s [] [(r, resp5); (r, b2); (r, b2)])
  = [(200, toy_gzip "hello", Some 7, true); (200, toy_gzip "hello", Some 7, false); (200, toy_gzip "hello", Some 7, false)].
Proof.
  cbv zeta. split.
  - split; [intros d H; inversion H; reflexivity|]. split; [left; reflexivity|]. exists "hello". reflexivity.
  - vm_compute. reflexivity.
Qed.

(** *** statements as registered in props/C03.v *)
Lemma hop_table_complete_all :
  (forall n, In n ["Connection"; "Keep-Alive"; "Proxy-Connection"; "Proxy-Authenticate"; "Proxy-Authorization";
                   "TE"; "Trailer"; "Transfer-Encoding"; "Upgrade"] ->
     forall h, h_values_exact (canon_key n) (clone_header h) = [] /\ h_has_exact (canon_key n) (clone_header h) = false) /\
  (forall h t, In t (connection_tokens h) ->
     h_values_exact (canon_key t) (clone_header h) = [] /\ h_has_exact (canon_key t) (clone_header h) = false).
Proof.
  exact (conj hop_table_complete connection_named_stripped).
Qed.

Lemma request_faithful_all : forall f q c,
  q_proxy_decoded_path q = false -> url_round_trip f -> ra_off c ->
  (forall r b added cloned, forward q f c r = ReqSent b added cloned ->
     bq_method b = cq_method r /\
     f_parse_target f (bq_target b) = f_parse_target f (cq_target r) /\
     bq_body b = cq_body r /\
     (forall k, transport_managed k = false ->
        h_values_exact k (bq_headers b) = if stripped (cq_headers r) k then [] else h_values_exact k (cq_headers r)) /\
     (stripped (cq_headers r) "Accept-Encoding" = false -> nonempty (h_get "Accept-Encoding" (cq_headers r)) = true ->
        h_values_exact "Accept-Encoding" (bq_headers b) = h_values_exact "Accept-Encoding" (cq_headers r))) /\
  (forall r p qy, f_parse_target f (cq_target r) = Some (p, qy) ->
     (exists t', f_build_target f (f_escaped_path f (cq_target r)) qy = Some t') ->
     exists b added cloned, forward q f c r = ReqSent b added cloned).
Proof.
  exact (fun f q c Hq Hrt Hoff =>
           conj (fun r b added cloned => request_faithful f q c r b added cloned Hq Hrt Hoff)
                (fun r p qy => request_forwarded f q c r p qy Hq Hoff)).
Qed.

Lemma response_content_total : forall f q c hs added b content,
  (forall x, f_gunzip f (f_gzip f x) = Some x) ->
  q_compress_keeps_length q = false -> q_adaptor_body_keeps_length q = false -> q_stream_compress_panics q = false ->
  backend_well_framed b -> label_simple (br_headers b) ->
  decode f (br_headers b) (br_body b) = Some content ->
  exists w, respond q f c hs added b = Some w /\
    (w = failure 500 \/
     (w_status w = br_status b /\ same_e2e (w_headers w) (br_headers b) /\
      decode f (w_headers w) (w_body w) = Some (owed c (br_status b) content))).
Proof.
  exact (fun f q c hs added b content gz H1 H2 H4 Hwf Hl Hc =>
           match respond q f c hs added b as o
                 return respond q f c hs added b = o -> exists w, o = Some w /\ _ with
           | Some w => fun E => ex_intro _ w (conj eq_refl (response_content f gz q c hs added b w content H1 H2 Hwf Hl Hc E))
           | None => fun E => False_ind _ (always_answers f q c hs added b H4 E)
           end eq_refl).
Qed.


(** non-vacuity of [request_content]: a gzip-labelled request body through a decompressing
    RequestAdaptor *)
Example request_content_nonvacuous :
  let r := {| cq_method := "PUT"; cq_target := "/x"; cq_host := "front.test";
              cq_headers := [("Content-Encoding", ["gzip"]); ("Connection", ["close"])];
              cq_body := toy_gzip "payload" |} in
  let c := {| p_cstream := false; p_pool_max := 0; p_proxy_max := 0; p_server_host := "backend:80"; p_host_is_name := false;
              p_keep_host := false; p_fail_codes := []; p_minlen := None;
              p_ra := {| a_on := true; a_body := ""; a_compress := false; a_decompress := true |}; p_rs := no_adapt |} in
  label_simple (cq_headers r) /\ decode toy_fns (cq_headers r) (cq_body r) = Some "payload" /\
  stripped (cq_headers r) CE = false /\
  match forward ideal toy_fns c r with
  | ReqSent b _ _ => bq_body b = "payload" /\ h_has_exact CE (bq_headers b) = false /\ bq_host b = "front.test"
  | _ => False
  end.
Proof. cbv zeta. split; [right; reflexivity|]. vm_compute. repeat split. Qed.
