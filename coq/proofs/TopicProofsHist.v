(** C14 proofs, part 3: histories.  The trie after ANY history of SUBSCRIBE /
    UNSUBSCRIBE / disconnect steps (repaired behaviour, [ideal]) represents exactly
    the declarative live map; routing is MQTT matching over that map. *)
From EG.lib Require Import Base.
From EG.model Require Import Topic TopicCheck.
From EG.proofs Require Import TopicProofsSplit TopicProofsTrie.
Open Scope string_scope.
Open Scope list_scope.

(** *** the finite map keyed by (client, filter) *)
Lemma key_eqb_eq (a b : lkey) : key_eqb a b = true <-> a = b.
Proof.
  destruct a as [a1 a2], b as [b1 b2]. unfold key_eqb. simpl.
  rewrite andb_true_iff, !String.eqb_eq. split; [intros [-> ->]; reflexivity | intro H; injection H; auto].
Qed.

Lemma In_lremove (k k' : lkey) (v : qos) (m : lmap) :
  In (k, v) (lremove k' m) <-> k <> k' /\ In (k, v) m.
Proof.
  unfold lremove. rewrite filter_In. simpl. split.
  - intros [H1 H2]. split; [|exact H1]. intro E. subst k'.
    apply negb_true_iff in H2. assert (key_eqb k k = true) by now apply key_eqb_eq. congruence.
  - intros [H1 H2]. split; [exact H2|]. apply negb_true_iff.
    destruct (key_eqb k k') eqn:E; [|reflexivity]. apply key_eqb_eq in E. congruence.
Qed.

Lemma In_lset (k k' : lkey) (v v' : qos) (m : lmap) :
  In (k, v) (lset k' v' m) <-> (k = k' /\ v = v') \/ (k <> k' /\ In (k, v) m).
Proof.
  unfold lset. simpl. rewrite In_lremove. split.
  - intros [E|H]; [left; injection E; auto | right; exact H].
  - intros [[-> ->]|H]; [left; reflexivity | right; exact H].
Qed.

Lemma In_ldrop (k : lkey) (v : qos) (c : cid) (m : lmap) :
  In (k, v) (ldrop c m) <-> fst k <> c /\ In (k, v) m.
Proof.
  unfold ldrop. rewrite filter_In. simpl. split.
  - intros [H1 H2]. split; [|exact H1]. apply negb_true_iff in H2. now apply String.eqb_neq.
  - intros [H1 H2]. split; [exact H2|]. apply negb_true_iff. now apply String.eqb_neq.
Qed.

Lemma In_lfilters (f : string) (c : cid) (m : lmap) :
  In f (lfilters c m) <-> exists v, In ((c, f), v) m.
Proof.
  unfold lfilters. rewrite in_map_iff. split.
  - intros [[[c' f'] v] [E H]]. simpl in E. subst f'. apply filter_In in H as [H1 H2].
    simpl in H2. apply String.eqb_eq in H2. subst c'. now exists v.
  - intros [v H]. exists ((c, f), v). split; [reflexivity|]. apply filter_In. split; [exact H|].
    simpl. apply String.eqb_refl.
Qed.

Lemma In_lunsub : forall fs c k v m,
  In (k, v) (lunsub c fs m) <-> In (k, v) m /\ ~ (fst k = c /\ In (snd k) fs).
Proof.
  unfold lunsub. induction fs as [|f r IH]; intros c k v m.
  - simpl. split; [intro H; split; [exact H | intros [_ []]] | intros [H _]; exact H].
  - cbn [fold_left]. rewrite IH, In_lremove. destruct k as [kc kf]. simpl. split.
    + intros [[H1 H2] H3]. split; [exact H2|]. intros [E [E2|E2]].
      * subst. now apply H1.
      * apply H3. auto.
    + intros [H1 H2]. split; [split; [|exact H1]|].
      * intro E. injection E as -> ->. apply H2. auto.
      * intros [E E2]. apply H2. auto.
Qed.

(** *** representation relation between a trie and a finite map *)
Definition repr (n : node) (m : lmap) : Prop :=
  forall fl c q, In (c, q) (at_path fl n) <->
                 exists f, split_topic f = Some fl /\ In ((c, f), q) m.

Lemma repr_empty : repr empty_node [].
Proof.
  intros fl c q. rewrite at_path_empty. split; [intros [] | intros [f [_ []]]].
Qed.

Lemma repr_equiv (n : node) (m m' : lmap) :
  (forall k v, In (k, v) m <-> In (k, v) m') -> repr n m -> repr n m'.
Proof.
  intros He Hr fl c q. rewrite (Hr fl c q). split; intros [f [H1 H2]]; exists f; split; auto; now apply He.
Qed.

Lemma repr_insert (n : node) (m : lmap) (f : string) (fl : list level) (c : cid) (q : qos) :
  repr n m -> split_topic f = Some fl -> repr (insert fl c q n) (lset (c, f) q m).
Proof.
  intros Hr Hf fl' c' q'. rewrite insert_spec. destruct (lev_eq_dec fl' fl) as [->|Hne].
  - rewrite In_aset, (Hr fl c' q'). split.
    + intros [[-> ->]|[Hc [f' [Hf' Hin]]]].
      * exists f. split; [exact Hf|]. apply In_lset. left. auto.
      * exists f'. split; [exact Hf'|]. apply In_lset. right. split; [congruence | exact Hin].
    + intros [f' [Hf' Hin]]. pose proof (split_topic_inj _ _ _ Hf' Hf) as ->.
      apply In_lset in Hin as [[E ->]|[Hk Hin]].
      * left. injection E as ->. auto.
      * right. split; [congruence|]. exists f. auto.
  - rewrite (Hr fl' c' q'). split; intros [f' [Hf' Hin]]; exists f'; (split; [exact Hf'|]).
    + apply In_lset. right. split; [|exact Hin]. intro E. injection E as -> ->. congruence.
    + apply In_lset in Hin as [[E _]|[_ Hin]]; [|exact Hin]. injection E as -> ->. congruence.
Qed.

Lemma repr_remove (n : node) (m : lmap) (f : string) (fl : list level) (c : cid) :
  repr n m -> split_topic f = Some fl -> repr (remove fl c n) (lremove (c, f) m).
Proof.
  intros Hr Hf fl' c' q'. rewrite remove_spec. destruct (lev_eq_dec fl' fl) as [->|Hne].
  - rewrite In_aremove, (Hr fl c' q'). split.
    + intros [Hc [f' [Hf' Hin]]]. exists f'. split; [exact Hf'|]. apply In_lremove.
      split; [congruence | exact Hin].
    + intros [f' [Hf' Hin]]. pose proof (split_topic_inj _ _ _ Hf' Hf) as ->.
      apply In_lremove in Hin as [Hk Hin]. split; [congruence|]. exists f. auto.
  - rewrite (Hr fl' c' q'). split; intros [f' [Hf' Hin]]; exists f'; (split; [exact Hf'|]).
    + apply In_lremove. split; [|exact Hin]. intro E. injection E as -> ->. congruence.
    + now apply In_lremove in Hin as [_ Hin].
Qed.

(** removing a malformed key from the map does not concern the trie *)
Lemma repr_lremove_malformed (n : node) (m : lmap) (c : cid) (f : string) :
  repr n m -> split_topic f = None -> repr n (lremove (c, f) m).
Proof.
  intros Hr Hf fl' c' q'. rewrite (Hr fl' c' q').
  split; intros [f' [Hf' Hin]]; exists f'; (split; [exact Hf'|]).
  - apply In_lremove. split; [|exact Hin]. intro E. injection E as -> ->. congruence.
  - now apply In_lremove in Hin as [_ Hin].
Qed.

Lemma repr_unsub_skip : forall fs c n m,
  repr n m -> repr (tm_unsubscribe_skip c fs n) (lunsub c fs m).
Proof.
  unfold lunsub. induction fs as [|f r IH]; intros c n m Hr; [exact Hr|].
  cbn [tm_unsubscribe_skip fold_left]. destruct (split_topic f) as [fl|] eqn:Ef.
  - apply IH. now apply repr_remove.
  - apply IH. now apply repr_lremove_malformed.
Qed.

Lemma tm_subscribe_valid : forall fqs c n m,
  forallb (fun fq => valid_filter (fst fq)) fqs = true -> repr n m ->
  exists n', tm_subscribe c fqs n = (n', true) /\ repr n' (lsub c fqs m).
Proof.
  unfold lsub. induction fqs as [|[f q] r IH]; intros c n m Hv Hr.
  - exists n. split; [reflexivity | exact Hr].
  - cbn [forallb fst] in Hv. apply andb_true_iff in Hv as [Hv1 Hv2].
    cbn [tm_subscribe fold_left fst snd]. unfold valid_filter in Hv1.
    destruct (split_topic f) as [fl|] eqn:Ef; [|discriminate].
    apply IH; [exact Hv2|]. now apply repr_insert.
Qed.

Lemma lunsub_lfilters_drop (c : cid) (m : lmap) :
  forall k v, In (k, v) (lunsub c (lfilters c m) m) <-> In (k, v) (ldrop c m).
Proof.
  intros [kc kf] v. rewrite In_lunsub, In_ldrop. simpl. split.
  - intros [H1 H2]. split; [|exact H1]. intro E. subst kc. apply H2. split; [reflexivity|].
    apply In_lfilters. now exists v.
  - intros [H1 H2]. split; [exact H2|]. intros [E _]. congruence.
Qed.

(** *** one step of the repaired broker: the session map is the declarative live map,
    and the trie keeps representing it *)
Lemma forallb_valid_wf (fqs : list (string * qos)) :
  forallb (fun fq => valid_filter (fst fq)) fqs = forallb (fun fq => wf_filter (fst fq)) fqs.
Proof.
  induction fqs as [|[f q] r IH]; [reflexivity|].
  cbn [forallb fst]. now rewrite valid_filter_wf, IH.
Qed.


(** *** equivalence of finite maps as sets of entries *)
Definition meq (m1 m2 : lmap) : Prop := forall x, In x m1 <-> In x m2.

Lemma meq_refl (m : lmap) : meq m m.
Proof. intro x. tauto. Qed.

Lemma meq_sym (m1 m2 : lmap) : meq m1 m2 -> meq m2 m1.
Proof. intros H x. symmetry. apply H. Qed.

Lemma meq_trans (m1 m2 m3 : lmap) : meq m1 m2 -> meq m2 m3 -> meq m1 m3.
Proof. intros H1 H2 x. rewrite (H1 x). apply H2. Qed.

Lemma repr_meq (n : node) (m m' : lmap) : meq m m' -> repr n m -> repr n m'.
Proof. intros He Hr. apply (repr_equiv n m m'); [|exact Hr]. intros k v. apply He. Qed.

Lemma meq_lset (k : lkey) (v : qos) (m1 m2 : lmap) : meq m1 m2 -> meq (lset k v m1) (lset k v m2).
Proof. intros H [k' v']. rewrite !In_lset. rewrite (H (k', v')). tauto. Qed.

Lemma meq_lsub : forall fqs c m1 m2, meq m1 m2 -> meq (lsub c fqs m1) (lsub c fqs m2).
Proof.
  unfold lsub. induction fqs as [|[f q] r IH]; intros c m1 m2 H; [exact H|].
  cbn [fold_left]. apply IH. now apply meq_lset.
Qed.

(** *** connected clients and the visible part of the map *)
Lemma is_on_aset (c c' : cid) (b : bool) (on : list (cid * bool)) :
  is_on c (aset c' b on) = (c =? c') || is_on c on.
Proof. unfold is_on. rewrite alookup_aset. destruct (c =? c'); reflexivity. Qed.

Lemma is_on_aremove (c c' : cid) (on : list (cid * bool)) :
  is_on c (aremove c' on) = negb (c =? c') && is_on c on.
Proof. unfold is_on. rewrite alookup_aremove. destruct (c =? c'); reflexivity. Qed.

Lemma In_vis (k : lkey) (v : qos) (on : list (cid * bool)) (m : lmap) :
  In (k, v) (vis on m) <-> is_on (fst k) on = true /\ In (k, v) m.
Proof. unfold vis. rewrite filter_In. cbn [fst]. tauto. Qed.

Lemma meq_vis (on : list (cid * bool)) (m1 m2 : lmap) : meq m1 m2 -> meq (vis on m1) (vis on m2).
Proof. intros H [k v]. rewrite !In_vis, (H (k, v)). tauto. Qed.

Lemma vis_lset (on : list (cid * bool)) (c : cid) (f : string) (q : qos) (m : lmap) :
  is_on c on = true -> meq (vis on (lset (c, f) q m)) (lset (c, f) q (vis on m)).
Proof.
  intros Hc [k v]. rewrite In_vis, !In_lset, In_vis. split.
  - intros [H1 [[-> ->]|[H2 H3]]]; [left; auto | right; auto].
  - intros [[-> ->]|[H2 [H1 H3]]]; [split; [exact Hc | left; auto] | split; [exact H1 | right; auto]].
Qed.

Lemma vis_lsub : forall fqs on c m,
  is_on c on = true -> meq (vis on (lsub c fqs m)) (lsub c fqs (vis on m)).
Proof.
  induction fqs as [|[f q] r IH]; intros on c m Hc; [apply meq_refl|].
  unfold lsub. cbn [fold_left fst snd]. fold (lsub c r (lset (c, f) q m)).
  fold (lsub c r (lset (c, f) q (vis on m))).
  eapply meq_trans; [apply IH; exact Hc|]. apply meq_lsub. now apply vis_lset.
Qed.

Lemma vis_lunsub (on : list (cid * bool)) (c : cid) (fs : list string) (m : lmap) :
  meq (vis on (lunsub c fs m)) (lunsub c fs (vis on m)).
Proof. intros [k v]. rewrite In_vis, !In_lunsub, In_vis. tauto. Qed.

(** *** invariants of the session map *)
Definition all_wf (m : lmap) : Prop := forall c f q, In ((c, f), q) m -> wf_filter f = true.
Definition functional (m : lmap) : Prop := forall k v1 v2, In (k, v1) m -> In (k, v2) m -> v1 = v2.

Lemma all_wf_lsub : forall fqs c m,
  forallb (fun fq => wf_filter (fst fq)) fqs = true -> all_wf m -> all_wf (lsub c fqs m).
Proof.
  unfold lsub. induction fqs as [|[f q] r IH]; intros c m Hv Hm; [exact Hm|].
  cbn [forallb fst] in Hv. apply andb_true_iff in Hv as [Hv1 Hv2].
  cbn [fold_left]. apply IH; [exact Hv2|].
  intros c' f' q' Hin. apply In_lset in Hin as [[E _]|[_ Hin]].
  - cbn [fst] in E. injection E as -> ->. exact Hv1.
  - now apply (Hm c' f' q').
Qed.

Lemma all_wf_sub (m m' : lmap) : (forall x, In x m' -> In x m) -> all_wf m -> all_wf m'.
Proof. intros Hs Hm c f q Hin. apply (Hm c f q). now apply Hs. Qed.

Lemma functional_sub (m m' : lmap) : (forall x, In x m' -> In x m) -> functional m -> functional m'.
Proof. intros Hs Hm k v1 v2 H1 H2. apply (Hm k); now apply Hs. Qed.

Lemma functional_lset (k : lkey) (v : qos) (m : lmap) : functional m -> functional (lset k v m).
Proof.
  intros Hm k' v1 v2 H1 H2. apply In_lset in H1, H2.
  destruct H1 as [[E1 ->]|[N1 H1]], H2 as [[E2 ->]|[N2 H2]]; try congruence.
  now apply (Hm k').
Qed.

Lemma functional_lsub : forall fqs c m, functional m -> functional (lsub c fqs m).
Proof.
  unfold lsub. induction fqs as [|[f q] r IH]; intros c m Hm; [exact Hm|].
  cbn [fold_left]. apply IH. now apply functional_lset.
Qed.

Lemma ldrop_sub (c : cid) (m : lmap) : forall x, In x (ldrop c m) -> In x m.
Proof. intros [k v] H. now apply In_ldrop in H. Qed.

Lemma lunsub_sub (c : cid) (fs : list string) (m : lmap) : forall x, In x (lunsub c fs m) -> In x m.
Proof. intros [k v] H. now apply In_lunsub in H. Qed.

(** *** the abstraction of a broker state and the invariant *)
Definition abs (s : state) : spec_state := {| sp_m := sess s; sp_on := online s |}.

Definition inv (s : state) : Prop :=
  repr (trie s) (vis (online s) (sess s)) /\ all_wf (sess s) /\ functional (sess s).

Lemma inv0 : inv st0.
Proof.
  split; [|split].
  - exact repr_empty.
  - intros c f q [].
  - intros k v1 v2 [].
Qed.

Lemma tm_subscribe_ok : forall fqs c n,
  forallb (fun fq => valid_filter (fst fq)) fqs = true -> snd (tm_subscribe c fqs n) = true.
Proof.
  induction fqs as [|[f q] r IH]; intros c n Hv; [reflexivity|].
  cbn [forallb fst] in Hv. apply andb_true_iff in Hv as [Hv1 Hv2].
  cbn [tm_subscribe]. unfold valid_filter in Hv1.
  destruct (split_topic f); [now apply IH | discriminate].
Qed.

Lemma tm_subscribe_q_ideal (c : cid) (fqs : list (string * qos)) (n : node) :
  tm_subscribe_q ideal c fqs n =
    if forallb (fun fq => wf_filter (fst fq)) fqs then (fst (tm_subscribe c fqs n), true) else (n, false).
Proof.
  unfold tm_subscribe_q. cbn [ideal q_abort_on_malformed negb andb]. rewrite forallb_valid_wf.
  destruct (forallb (fun fq => wf_filter (fst fq)) fqs) eqn:Ev; cbn [negb]; [|reflexivity].
  rewrite <- forallb_valid_wf in Ev. pose proof (tm_subscribe_ok fqs c n Ev) as Hok.
  destruct (tm_subscribe c fqs n) as [n' ok]. cbn [snd] in Hok. subst ok. reflexivity.
Qed.

(** the abstraction commutes with every step: the session bookkeeping of the repaired
    broker IS the naive replay *)
Lemma abs_teardown (c : cid) (s : state) : abs (teardown ideal c s) = spec_teardown c (abs s).
Proof.
  unfold teardown, spec_teardown, abs. cbn [sp_on sp_m].
  destruct (alookup c (online s)) as [clean|]; reflexivity.
Qed.

Lemma abs_connect (c : cid) (clean : bool) (s : state) :
  abs (connect ideal c clean s) = spec_connect c clean (abs s).
Proof. unfold connect, spec_connect, abs. destruct clean; reflexivity. Qed.

Lemma abs_ensure (c : cid) (s : state) : abs (ensure_on ideal c s) = spec_ensure c (abs s).
Proof.
  unfold ensure_on, spec_ensure. cbn [abs sp_on]. destruct (is_on c (online s)); [reflexivity|].
  apply abs_connect.
Qed.

Lemma abs_next (s : state) (o : op) : abs (next ideal s o) = spec_step (abs s) o.
Proof.
  unfold next. destruct o as [c clean | c fqs | c fs | c]; cbn [step spec_step fst].
  - now rewrite abs_connect, abs_teardown.
  - rewrite <- abs_ensure. rewrite tm_subscribe_q_ideal.
    destruct (forallb (fun fq => wf_filter (fst fq)) fqs); cbn [fst]; [reflexivity|].
    unfold abs. cbn [sess online]. reflexivity.
  - rewrite <- abs_ensure. reflexivity.
  - apply abs_teardown.
Qed.

Lemma abs_run_from : forall ops s,
  abs (fold_left (next ideal) ops s) = fold_left spec_step ops (abs s).
Proof.
  induction ops as [|o r IH]; intros s; [reflexivity|].
  cbn [fold_left]. now rewrite IH, abs_next.
Qed.

Lemma abs_run (ops : list op) : abs (run ideal ops) = spec ops.
Proof. apply (abs_run_from ops st0). Qed.

Lemma live_run (ops : list op) :
  live ops = vis (online (run ideal ops)) (sess (run ideal ops)).
Proof. unfold live, live_of. now rewrite <- abs_run. Qed.

(** *** the invariant is preserved by every step *)
Lemma In_lpairs (f : string) (q : qos) (c : cid) (m : lmap) :
  In (f, q) (lpairs c m) <-> In ((c, f), q) m.
Proof.
  unfold lpairs. rewrite in_map_iff. split.
  - intros [[[c' f'] q'] [E H]]. cbn [fst snd] in E. injection E as -> ->.
    apply filter_In in H as [H1 H2]. cbn [fst] in H2. apply String.eqb_eq in H2. now subst c'.
  - intro H. exists ((c, f), q). split; [reflexivity|]. apply filter_In. split; [exact H|].
    cbn [fst]. apply String.eqb_refl.
Qed.

Lemma lset_functional_meq (k : lkey) (q : qos) (M : lmap) :
  (forall v, In (k, v) M -> v = q) -> forall x, In x (lset k q M) <-> x = (k, q) \/ In x M.
Proof.
  intros Hf [k' v']. rewrite In_lset. split.
  - intros [[-> ->]|[_ H]]; auto.
  - intros [E|H].
    + injection E as -> ->. left. auto.
    + destruct (key_eqb k' k) eqn:Ek.
      * apply key_eqb_eq in Ek. subst k'. left. split; [reflexivity|]. now apply Hf.
      * right. split; [|exact H]. intro E. subst k'.
        assert (key_eqb k k = true) by now apply key_eqb_eq. congruence.
Qed.

(** re-subscription from a stored session adds exactly the stored entries *)
Lemma restore_meq (c : cid) (m : lmap) : functional m ->
  forall pairs M,
    (forall f q, In (f, q) pairs -> In ((c, f), q) m) ->
    (forall x, In x M -> In x m) ->
    forall x, In x (lsub c pairs M) <-> In x M \/ exists f q, x = ((c, f), q) /\ In (f, q) pairs.
Proof.
  intro Hfun. unfold lsub. induction pairs as [|[f0 q0] r IH]; intros M Hp HM x.
  - cbn [fold_left]. split; [auto | intros [H|[f [q [_ []]]]]; exact H].
  - cbn [fold_left fst snd].
    assert (Hset : forall y, In y (lset (c, f0) q0 M) <-> y = ((c, f0), q0) \/ In y M).
    { apply lset_functional_meq. intros v Hv. apply (Hfun (c, f0)); [now apply HM|].
      apply Hp. now left. }
    rewrite IH.
    + rewrite Hset. split.
      * intros [[->|H]|[f [q [-> H]]]].
        -- right. exists f0, q0. split; [reflexivity | now left].
        -- now left.
        -- right. exists f, q. split; [reflexivity | now right].
      * intros [H|[f [q [-> [E|H]]]]].
        -- left. now right.
        -- injection E as -> ->. left. now left.
        -- right. exists f, q. auto.
    + intros f q H. apply Hp. now right.
    + intros y Hy. apply Hset in Hy as [->|Hy]; [apply Hp; now left | now apply HM].
Qed.

Lemma forallb_valid_lpairs (c : cid) (m : lmap) :
  all_wf m -> forallb (fun fq => valid_filter (fst fq)) (lpairs c m) = true.
Proof.
  intro Hm. apply forallb_forall. intros [f q] Hin. cbn [fst]. rewrite valid_filter_wf.
  apply In_lpairs in Hin. exact (Hm _ _ _ Hin).
Qed.

Lemma inv_teardown (c : cid) (s : state) : inv s -> inv (teardown ideal c s).
Proof.
  intros [Hr [Hw Hf]]. unfold teardown.
  destruct (alookup c (online s)) as [clean|] eqn:Ec; [|split; [exact Hr | split; [exact Hw | exact Hf]]].
  assert (Hsub : forall x, In x (if clean then ldrop c (sess s) else sess s) -> In x (sess s)).
  { destruct clean; [apply ldrop_sub | auto]. }
  split; [|split]; cbn [trie sess online].
  - unfold tm_unsubscribe. cbn [ideal q_abort_on_malformed].
    eapply repr_meq; [|apply repr_unsub_skip; exact Hr].
    intros [[c' f] q]. rewrite In_lunsub, !In_vis. cbn [fst snd]. rewrite is_on_aremove, In_lfilters.
    split.
    + intros [[H1 H2] H3]. assert (Hne : c' <> c).
      { intro E. subst c'. apply H3. split; [reflexivity|]. now exists q. }
      apply String.eqb_neq in Hne. rewrite Hne, H1. split; [reflexivity|].
      destruct clean; [|exact H2]. apply In_ldrop. cbn [fst]. split; [now apply String.eqb_neq | exact H2].
    + intros [H1 H2]. apply andb_true_iff in H1 as [H0 H1]. apply negb_true_iff, String.eqb_neq in H0.
      split; [split; [exact H1 | now apply Hsub]|]. intros [E _]. congruence.
  - now apply (all_wf_sub (sess s)).
  - now apply (functional_sub (sess s)).
Qed.

Lemma inv_connect (c : cid) (clean : bool) (s : state) :
  is_on c (online s) = false -> inv s -> inv (connect ideal c clean s).
Proof.
  intros Hoff [Hr [Hw Hf]]. unfold connect. destruct clean.
  - split; [|split]; cbn [trie sess online].
    + eapply repr_meq; [|exact Hr]. intros [[c' f] q]. rewrite !In_vis, In_ldrop. cbn [fst].
      rewrite is_on_aset. split.
      * intros [H1 H2]. assert (Hne : c' <> c) by (intro E; subst c'; congruence).
        apply String.eqb_neq in Hne as Hne'. rewrite Hne', H1. auto.
      * intros [H1 [H2 H3]]. apply String.eqb_neq in H2. rewrite H2 in H1. auto.
    + apply (all_wf_sub (sess s)); [apply ldrop_sub | exact Hw].
    + apply (functional_sub (sess s)); [apply ldrop_sub | exact Hf].
  - split; [|split]; cbn [trie sess online]; [|exact Hw|exact Hf].
    rewrite tm_subscribe_q_ideal. rewrite <- forallb_valid_wf, (forallb_valid_lpairs c _ Hw). cbn [fst].
    destruct (tm_subscribe_valid (lpairs c (sess s)) c (trie s) _ (forallb_valid_lpairs c _ Hw) Hr)
      as [n' [E Hr']].
    rewrite E. cbn [fst]. eapply repr_meq; [|exact Hr'].
    intros [[c' f] q].
    rewrite (restore_meq c (sess s) Hf (lpairs c (sess s)) (vis (online s) (sess s))).
    + rewrite !In_vis. cbn [fst]. rewrite is_on_aset. split.
      * intros [[H1 H2]|[f0 [q0 [E0 H]]]].
        -- rewrite H1, orb_true_r. auto.
        -- injection E0 as -> -> ->. rewrite String.eqb_refl. split; [reflexivity|]. now apply In_lpairs.
      * intros [H1 H2]. destruct (c' =? c) eqn:Ecc.
        -- apply String.eqb_eq in Ecc. subst c'. right. exists f, q. split; [reflexivity|]. now apply In_lpairs.
        -- left. auto.
    + intros f0 q0 H. now apply In_lpairs.
    + intros [k v] H. now apply In_vis in H.
Qed.

Lemma teardown_off (c : cid) (s : state) : is_on c (online (teardown ideal c s)) = false.
Proof.
  unfold teardown. destruct (alookup c (online s)) as [clean|] eqn:Ec.
  - cbn [online]. rewrite is_on_aremove, String.eqb_refl. reflexivity.
  - unfold is_on. now rewrite Ec.
Qed.

Lemma inv_ensure (c : cid) (s : state) :
  inv s -> inv (ensure_on ideal c s) /\ is_on c (online (ensure_on ideal c s)) = true.
Proof.
  intro Hi. unfold ensure_on. destruct (is_on c (online s)) eqn:Eon; [auto|].
  split; [now apply inv_connect|]. unfold connect. cbn [online]. rewrite is_on_aset, String.eqb_refl. reflexivity.
Qed.

Lemma inv_next (s : state) (o : op) : inv s -> inv (next ideal s o).
Proof.
  intro Hi. unfold next. destruct o as [c clean | c fqs | c fs | c]; cbn [step fst].
  - apply inv_connect; [apply teardown_off | now apply inv_teardown].
  - destruct (inv_ensure c s Hi) as [[Hr [Hw Hf]] Hon].
    set (s1 := ensure_on ideal c s) in *. rewrite tm_subscribe_q_ideal.
    destruct (forallb (fun fq => wf_filter (fst fq)) fqs) eqn:Ev; cbn [fst].
    + split; [|split]; cbn [trie sess online].
      * rewrite <- forallb_valid_wf in Ev.
        destruct (tm_subscribe_valid fqs c (trie s1) _ Ev Hr) as [n' [E Hr']].
        rewrite E. cbn [fst]. eapply repr_meq; [apply meq_sym, vis_lsub; exact Hon | exact Hr'].
      * now apply all_wf_lsub.
      * now apply functional_lsub.
    + split; [|split]; cbn [trie sess online]; assumption.
  - destruct (inv_ensure c s Hi) as [[Hr [Hw Hf]] Hon].
    set (s1 := ensure_on ideal c s) in *.
    split; [|split]; cbn [trie sess online].
    + unfold tm_unsubscribe. cbn [ideal q_abort_on_malformed].
      eapply repr_meq; [apply meq_sym, vis_lunsub | now apply repr_unsub_skip].
    + apply (all_wf_sub (sess s1)); [apply lunsub_sub | exact Hw].
    + apply (functional_sub (sess s1)); [apply lunsub_sub | exact Hf].
  - now apply inv_teardown.
Qed.

Lemma inv_run (ops : list op) : inv (run ideal ops).
Proof.
  unfold run. assert (G : forall ops s, inv s -> inv (fold_left (next ideal) ops s)).
  { induction ops0 as [|o r IH]; intros s Hs; [exact Hs|]. cbn [fold_left]. apply IH. now apply inv_next. }
  apply G. exact inv0.
Qed.

(** for every history the trie holds at filter [fl] exactly the (client, qos) pairs
    of the live subscriptions whose filter splits into [fl] *)
Theorem history_repr (ops : list op) : repr (trie (run ideal ops)) (live ops).
Proof. rewrite live_run. apply (inv_run ops). Qed.

(** every live filter is well formed *)
Lemma live_wf (ops : list op) : all_wf (live ops).
Proof.
  rewrite live_run. destruct (inv_run ops) as [_ [Hw _]].
  intros c f q Hin. apply In_vis in Hin as [_ Hin]. exact (Hw _ _ _ Hin).
Qed.

(** *** routing *)
(** the entries found for a topic, in terms of the live map, for ANY accepted topic *)
Lemma find_run_spec (ops : list op) (T : string) (ts : list level) :
  split_topic T = Some ts ->
  exists r, find (trie (run ideal ops)) T = Some r /\
    forall c q, In (c, q) r <->
      exists f, In ((c, f), q) (live ops) /\ gomatches (split_slash f) ts.
Proof.
  intro HT. unfold find. rewrite HT. eexists. split; [reflexivity|].
  intros c q. rewrite find_frontier_eq_find1, find1_spec. split.
  - intros [fl [Hg Hin]]. apply (history_repr ops) in Hin as [f [Hf Hin]].
    exists f. split; [exact Hin|]. apply split_topic_some in Hf as [_ ->]. exact Hg.
  - intros [f [Hin Hg]]. exists (split_slash f). split; [exact Hg|].
    apply (history_repr ops). exists f. split; [|exact Hin].
    apply split_topic_some. split; [|reflexivity]. exact (live_wf ops _ _ _ Hin).
Qed.

Theorem find_correct (ops : list op) (T : string) :
  has_wild T = false ->
  exists r, find (trie (run ideal ops)) T = Some r /\
    (forall c, (exists q, In (c, q) r) <->
               (exists f q, In ((c, f), q) (live ops) /\ matches (split_slash f) (split_slash T))) /\
    (forall c q, In (c, q) r ->
               exists f, In ((c, f), q) (live ops) /\ matches (split_slash f) (split_slash T)).
Proof.
  intro HT. destruct (topic_name_accepted T HT) as [Hs Hn].
  destruct (find_run_spec ops T _ Hs) as [r [Hr Hspec]].
  exists r. split; [exact Hr|]. split.
  - intro c. split.
    + intros [q Hin]. apply Hspec in Hin as [f [Hin Hg]]. exists f, q. split; [exact Hin|].
      now apply gomatches_matches.
    + intros [f [q [Hin Hm]]]. exists q. apply Hspec. exists f. split; [exact Hin|].
      now apply matches_gomatches.
  - intros c q Hin. apply Hspec in Hin as [f [Hin Hg]]. exists f. split; [exact Hin|].
    now apply gomatches_matches.
Qed.

(** results of findSubscribers compared as sets *)
Definition same_result (a b : option (list (cid * qos))) : Prop :=
  match a, b with
  | Some r1, Some r2 => forall x, In x r1 <-> In x r2
  | None, None => True
  | _, _ => False
  end.

(** routing is a function of the live map alone: two histories with the same live
    subscriptions route every topic (any string) identically - nothing else survives *)
Theorem no_residue (ops1 ops2 : list op) :
  (forall k v, In (k, v) (live ops1) <-> In (k, v) (live ops2)) ->
  forall T, same_result (find (trie (run ideal ops1)) T) (find (trie (run ideal ops2)) T).
Proof.
  intros He T. destruct (split_topic T) as [ts|] eqn:HT.
  - destruct (find_run_spec ops1 T ts HT) as [r1 [E1 S1]].
    destruct (find_run_spec ops2 T ts HT) as [r2 [E2 S2]].
    rewrite E1, E2. intros [c q]. rewrite S1, S2.
    split; intros [f [Hin Hg]]; exists f; (split; [now apply He | exact Hg]).
  - unfold find. rewrite HT. exact I.
Qed.

(** the history with every mention of filter [f] erased *)
Definition strip_op (f : string) (o : op) : op :=
  match o with
  | Sub c fqs => Sub c (filter (fun fq => negb (fst fq =? f)) fqs)
  | Unsub c fs => Unsub c (filter (fun g => negb (g =? f)) fs)
  | o => o
  end.
Definition strip (f : string) (ops : list op) : list op := map (strip_op f) ops.

Definition stripped (f : string) (m m' : lmap) : Prop :=
  forall c g q, In ((c, g), q) m' <-> g <> f /\ In ((c, g), q) m.

Definition sp_stripped (f : string) (sp sp' : spec_state) : Prop :=
  sp_on sp' = sp_on sp /\ stripped f (sp_m sp) (sp_m sp').

Lemma stripped_lsub : forall fqs f c m m',
  stripped f m m' ->
  stripped f (lsub c fqs m) (lsub c (filter (fun fq => negb (fst fq =? f)) fqs) m').
Proof.
  unfold lsub. induction fqs as [|[g0 q0] r IH]; intros f c m m' Hs; [exact Hs|].
  cbn [filter fst fold_left]. destruct (g0 =? f) eqn:E; cbn [negb].
  - apply String.eqb_eq in E. subst g0. apply IH.
    intros c' g q. rewrite (Hs c' g q), In_lset. cbn [fst snd]. split.
    + intros [H1 H2]. split; [exact H1|]. right. split; [congruence | exact H2].
    + intros [H1 [[E _]|[_ H2]]]; [congruence | auto].
  - apply String.eqb_neq in E. cbn [fold_left fst snd]. apply IH.
    intros c' g q. rewrite !In_lset, (Hs c' g q). cbn [fst snd]. split.
    + intros [[E1 ->]|[H1 [H2 H3]]].
      * injection E1 as -> ->. split; [exact E | left; auto].
      * split; [exact H2 | right; auto].
    + intros [H1 [[E1 ->]|[H2 H3]]]; [left; auto | right; auto].
Qed.

Lemma stripped_lunsub : forall fs f c m m',
  stripped f m m' ->
  stripped f (lunsub c fs m) (lunsub c (filter (fun g => negb (g =? f)) fs) m').
Proof.
  intros fs f c m m' Hs c' g q. rewrite !In_lunsub, (Hs c' g q). cbn [fst snd].
  rewrite filter_In. split.
  - intros [[H1 H2] H3]. split; [exact H1|]. split; [exact H2|].
    intros [E Hin]. apply H3. split; [exact E|]. split; [exact Hin|].
    apply negb_true_iff. now apply String.eqb_neq.
  - intros [H1 [H2 H3]]. split; [auto|]. intros [E [Hin _]]. apply H3. auto.
Qed.

Lemma stripped_ldrop (f : string) (c : cid) (m m' : lmap) :
  stripped f m m' -> stripped f (ldrop c m) (ldrop c m').
Proof. intros Hs c' g q. rewrite !In_ldrop, (Hs c' g q). cbn [fst]. tauto. Qed.

Lemma forallb_wf_strip (f : string) (fqs : list (string * qos)) :
  wf_filter f = true ->
  forallb (fun fq => wf_filter (fst fq)) (filter (fun fq => negb (fst fq =? f)) fqs) =
  forallb (fun fq => wf_filter (fst fq)) fqs.
Proof.
  intro Hf. induction fqs as [|[g q] r IH]; [reflexivity|].
  cbn [filter forallb fst]. destruct (g =? f) eqn:E; cbn [negb].
  - apply String.eqb_eq in E. subst g. rewrite Hf. exact IH.
  - cbn [forallb fst]. now rewrite IH.
Qed.

Lemma sp_stripped_teardown (f : string) (c : cid) (sp sp' : spec_state) :
  sp_stripped f sp sp' -> sp_stripped f (spec_teardown c sp) (spec_teardown c sp').
Proof.
  intros [Ho Hs]. unfold spec_teardown. rewrite Ho.
  destruct (alookup c (sp_on sp)) as [clean|]; [|split; assumption].
  split; cbn [sp_on sp_m]; [reflexivity|]. destruct clean; [now apply stripped_ldrop | exact Hs].
Qed.

Lemma sp_stripped_connect (f : string) (c : cid) (clean : bool) (sp sp' : spec_state) :
  sp_stripped f sp sp' -> sp_stripped f (spec_connect c clean sp) (spec_connect c clean sp').
Proof.
  intros [Ho Hs]. unfold spec_connect. split; cbn [sp_on sp_m]; [now rewrite Ho|].
  destruct clean; [now apply stripped_ldrop | exact Hs].
Qed.

Lemma sp_stripped_ensure (f : string) (c : cid) (sp sp' : spec_state) :
  sp_stripped f sp sp' -> sp_stripped f (spec_ensure c sp) (spec_ensure c sp').
Proof.
  intros H. unfold spec_ensure. destruct H as [Ho Hs]. rewrite Ho.
  destruct (is_on c (sp_on sp)); [split; assumption|]. apply sp_stripped_connect. split; assumption.
Qed.

Lemma sp_stripped_step (f : string) (sp sp' : spec_state) (o : op) :
  wf_filter f = true -> sp_stripped f sp sp' ->
  sp_stripped f (spec_step sp o) (spec_step sp' (strip_op f o)).
Proof.
  intros Hf Hs. destruct o as [c clean | c fqs | c fs | c]; cbn [strip_op spec_step].
  - now apply sp_stripped_connect, sp_stripped_teardown.
  - rewrite (forallb_wf_strip f fqs Hf). pose proof (sp_stripped_ensure f c sp sp' Hs) as [Ho Hm].
    destruct (forallb (fun fq => wf_filter (fst fq)) fqs); [|split; assumption].
    split; cbn [sp_on sp_m]; [exact Ho | now apply stripped_lsub].
  - pose proof (sp_stripped_ensure f c sp sp' Hs) as [Ho Hm].
    split; cbn [sp_on sp_m]; [exact Ho | now apply stripped_lunsub].
  - now apply sp_stripped_teardown.
Qed.

Lemma stripped_live (f : string) (ops : list op) :
  wf_filter f = true -> stripped f (live ops) (live (strip f ops)).
Proof.
  intro Hf. assert (G : forall ops sp sp', sp_stripped f sp sp' ->
              sp_stripped f (fold_left spec_step ops sp) (fold_left spec_step (map (strip_op f) ops) sp')).
  { induction ops0 as [|o r IH]; intros sp sp' Hs; [exact Hs|].
    cbn [map fold_left]. apply IH. now apply sp_stripped_step. }
  assert (H0 : sp_stripped f sp0 sp0).
  { split; [reflexivity|]. intros c g q. simpl. tauto. }
  destruct (G ops sp0 sp0 H0) as [Ho Hm]. fold (spec ops) in Ho, Hm. fold (strip f ops) in Ho, Hm.
  fold (spec (strip f ops)) in Ho, Hm.
  intros c g q. unfold live, live_of. rewrite !In_vis, Ho, (Hm c g q). cbn [fst]. tauto.
Qed.

(** after any history that ends with no subscriber of filter [f] left, every topic is
    routed exactly as after the same history in which [f] was never mentioned *)
Theorem no_residue_after_removal (ops : list op) (f : string) :
  wf_filter f = true ->
  (forall c q, ~ In ((c, f), q) (live ops)) ->
  forall T, same_result (find (trie (run ideal ops)) T) (find (trie (run ideal (strip f ops))) T).
Proof.
  intros Hf Hno. apply no_residue. intros [c g] v.
  rewrite (stripped_live f ops Hf c g v). split.
  - intro H. split; [|exact H]. intro E. subst g. now apply (Hno c v).
  - tauto.
Qed.

(** *** single-step corollaries *)
Lemma run_snoc (Q : quirks) (ops : list op) (o : op) : run Q (ops ++ [o]) = next Q (run Q ops) o.
Proof. unfold run. now rewrite fold_left_app. Qed.

Lemma spec_snoc (ops : list op) (o : op) : spec (ops ++ [o]) = spec_step (spec ops) o.
Proof. unfold spec. now rewrite fold_left_app. Qed.

Lemma spec_ensure_on (c : cid) (sp : spec_state) : is_on c (sp_on (spec_ensure c sp)) = true.
Proof.
  unfold spec_ensure. destruct (is_on c (sp_on sp)) eqn:E; [exact E|].
  unfold spec_connect. cbn [sp_on]. rewrite is_on_aset, String.eqb_refl. reflexivity.
Qed.

(** connecting an offline client with a clean session changes no visible entry *)
Lemma live_of_ensure (c : cid) (sp : spec_state) : meq (live_of (spec_ensure c sp)) (live_of sp).
Proof.
  unfold spec_ensure. destruct (is_on c (sp_on sp)) eqn:E; [apply meq_refl|].
  intros [[c' f] q]. unfold live_of, spec_connect. cbn [sp_on sp_m]. rewrite !In_vis, In_ldrop. cbn [fst].
  rewrite is_on_aset. split.
  - intros [H1 [H2 H3]]. apply String.eqb_neq in H2. rewrite H2 in H1. auto.
  - intros [H1 H2]. assert (Hne : c' <> c) by (intro; subst c'; congruence).
    apply String.eqb_neq in Hne as Hne'. rewrite Hne', H1. auto.
Qed.

Theorem resubscribe_overwrites_qos (ops : list op) (c : cid) (f : string) (q : qos) :
  wf_filter f = true ->
  let ops' := ops ++ [Sub c [(f, q)]] in
  (forall q', In ((c, f), q') (live ops') <-> q' = q) /\
  (forall q', In (c, q') (at_path (split_slash f) (trie (run ideal ops'))) <-> q' = q).
Proof.
  intros Hf ops'.
  assert (L : forall q', In ((c, f), q') (live ops') <-> q' = q).
  { intro q'. unfold ops', live. rewrite spec_snoc. cbn [spec_step forallb fst]. rewrite Hf. cbn [andb].
    unfold live_of. cbn [sp_on sp_m]. rewrite In_vis. cbn [fst]. rewrite spec_ensure_on.
    unfold lsub. cbn [fold_left fst snd]. rewrite In_lset. split.
    - intros [_ [[_ ->]|[H _]]]; [reflexivity | congruence].
    - intros ->. split; [reflexivity|]. left. auto. }
  split; [exact L|]. intro q'. rewrite (history_repr ops' (split_slash f) c q'). rewrite <- L. split.
  - intros [f' [Hf' Hin]].
    assert (Hs : split_topic f = Some (split_slash f)) by (apply split_topic_some; auto).
    now rewrite (split_topic_inj _ _ _ Hs Hf').
  - intro Hin. exists f. split; [apply split_topic_some; auto | exact Hin].
Qed.

Lemma trie_ensure (c : cid) (s : state) : trie (ensure_on ideal c s) = trie s.
Proof. unfold ensure_on, connect. destruct (is_on c (online s)); reflexivity. Qed.

Theorem unsub_unknown_is_noop (ops : list op) (c : cid) (f : string) :
  (forall q, ~ In ((c, f), q) (live ops)) ->
  let ops' := ops ++ [Unsub c [f]] in
  (forall k v, In (k, v) (live ops') <-> In (k, v) (live ops)) /\
  (forall fl, at_path fl (trie (run ideal ops')) = at_path fl (trie (run ideal ops))) /\
  (forall T, same_result (find (trie (run ideal ops')) T) (find (trie (run ideal ops)) T)).
Proof.
  intros Hno ops'.
  assert (L : forall k v, In (k, v) (live ops') <-> In (k, v) (live ops)).
  { intros k v. unfold ops', live. rewrite spec_snoc. cbn [spec_step].
    rewrite <- (live_of_ensure c (spec ops) (k, v)).
    set (sp1 := spec_ensure c (spec ops)). unfold live_of. cbn [sp_on sp_m].
    rewrite !In_vis. unfold lunsub. cbn [fold_left]. rewrite In_lremove. split; [tauto|].
    intros [H1 H2]. split; [exact H1|]. split; [|exact H2]. intro E. subst k.
    apply (Hno v). unfold live. apply (live_of_ensure c (spec ops)).
    fold sp1. unfold live_of. apply In_vis. auto. }
  split; [exact L|]. split; [|now apply no_residue].
  intro fl. unfold ops'. rewrite run_snoc. unfold next. cbn [step fst trie]. rewrite trie_ensure.
  unfold tm_unsubscribe. cbn.
  destruct (split_topic f) as [fl0|] eqn:Ef; [|reflexivity].
  rewrite remove_spec. destruct (lev_eq_dec fl fl0) as [->|]; [|reflexivity].
  apply aremove_noop. intros v Hin. apply (history_repr ops) in Hin as [f' [Hf' Hin]].
  rewrite (split_topic_inj _ _ _ Hf' Ef) in Hin. now apply (Hno v).
Qed.

(** a SUBSCRIBE that carries a malformed filter is refused as a whole: no SUBACK, the trie
    and the live subscriptions are unchanged; and splitTopic itself refuses every malformed filter *)
Theorem malformed_rejected :
  (forall f, wf_filter f = false -> split_topic f = None) /\
  (forall ops c fqs, forallb (fun fq => wf_filter (fst fq)) fqs = false ->
     snd (step ideal (run ideal ops) (Sub c fqs)) = Ack false /\
     trie (run ideal (ops ++ [Sub c fqs])) = trie (run ideal ops) /\
     forall x, In x (live (ops ++ [Sub c fqs])) <-> In x (live ops)).
Proof.
  split.
  - intros f Hf. rewrite split_topic_spec, Hf. reflexivity.
  - intros ops c fqs Hv. split; [|split].
    + cbn [step]. rewrite tm_subscribe_q_ideal, Hv. reflexivity.
    + rewrite run_snoc. unfold next. cbn [step]. rewrite tm_subscribe_q_ideal, Hv. cbn [fst trie].
      apply trie_ensure.
    + intro x. unfold live. rewrite spec_snoc. cbn [spec_step]. rewrite Hv. apply live_of_ensure.
Qed.

(** a disconnected client is not routed; a persistent session that reconnects gets back
    exactly the subscriptions that were live when its connection ended *)
Theorem offline_not_live (ops : list op) (c : cid) :
  forall f q, ~ In ((c, f), q) (live (ops ++ [Disc c])).
Proof.
  intros f q. unfold live. rewrite spec_snoc. cbn [spec_step]. unfold live_of, spec_teardown.
  destruct (alookup c (sp_on (spec ops))) as [clean|] eqn:E.
  - cbn [sp_on sp_m]. rewrite In_vis. cbn [fst]. rewrite is_on_aremove, String.eqb_refl. intros [H _]. discriminate.
  - rewrite In_vis. cbn [fst]. unfold is_on. rewrite E. intros [H _]. discriminate.
Qed.

Theorem reconnect_restores (ops : list op) (c : cid) :
  alookup c (sp_on (spec ops)) = Some false ->
  forall x, In x (live (ops ++ [Disc c; Conn c false])) <-> In x (live ops).
Proof.
  intros Hc [[c' f] q]. unfold live.
  replace (ops ++ [Disc c; Conn c false]) with ((ops ++ [Disc c]) ++ [Conn c false])
    by (rewrite <- app_assoc; reflexivity).
  rewrite !spec_snoc. cbn [spec_step]. set (sp := spec ops) in *.
  assert (E1 : spec_teardown c sp = {| sp_m := sp_m sp; sp_on := aremove c (sp_on sp) |}).
  { unfold spec_teardown. now rewrite Hc. }
  rewrite E1. unfold spec_teardown at 1. cbn [sp_on]. rewrite alookup_aremove, String.eqb_refl.
  unfold spec_connect, live_of. cbn [sp_on sp_m]. rewrite !In_vis. cbn [fst].
  rewrite is_on_aset, is_on_aremove.
  assert (Hon : is_on c (sp_on sp) = true) by (unfold is_on; now rewrite Hc).
  destruct (c' =? c) eqn:Ecc; cbn [negb andb orb].
  - apply String.eqb_eq in Ecc. subst c'. rewrite Hon. tauto.
  - tauto.
Qed.

(** *** the per-run property checker accepts every trace of the repaired model:
    the decidable [prop_trace] of TopicCheck.v demands nothing beyond the theorems *)
Lemma In_expected (m : lmap) (t : string) (c : cid) (q : qos) :
  In (c, q) (expected m t) <->
  exists f, In ((c, f), q) m /\ matchesb (split_slash f) (split_slash t) = true.
Proof.
  unfold expected. rewrite in_flat_map. split.
  - intros [[[c' f] q'] [Hin H]]. cbn [fst snd] in H.
    destruct (matchesb (split_slash f) (split_slash t)) eqn:E; [|destruct H].
    destruct H as [H|[]]. injection H as -> ->. exists f. auto.
  - intros [f [Hin Hm]]. exists ((c, f), q). split; [exact Hin|]. cbn [fst snd]. rewrite Hm. now left.
Qed.

Lemma found_agree_sets (ml il : list (cid * qos)) :
  (forall x, In x il <-> In x ml) -> found_agree ml il = true.
Proof.
  intro H. unfold found_agree. apply andb_true_iff. split; apply forallb_forall; intros [c q] Hin.
  - apply existsb_exists. exists (c, q). split; [now apply H|].
    unfold pair_eqb. cbn [fst snd]. now rewrite String.eqb_refl, N.eqb_refl.
  - apply existsb_exists. exists (c, q). split; [now apply H|]. cbn [fst]. apply String.eqb_refl.
Qed.

Lemma step_out_ideal (s : state) (o : op) :
  snd (step ideal s o) =
    match o with
    | Sub _ fqs => Ack (forallb (fun fq => wf_filter (fst fq)) fqs)
    | Unsub _ _ => Ack true
    | _ => NoOut
    end.
Proof.
  destruct o as [c clean | c fqs | c fs | c]; cbn [step snd]; try reflexivity.
  rewrite tm_subscribe_q_ideal. destruct (forallb (fun fq => wf_filter (fst fq)) fqs); reflexivity.
Qed.

Lemma prop_checker_sound_from : forall ops s,
  inv s -> prop_trace (abs s) ops (model_trace ideal s ops) = true.
Proof.
  induction ops as [|o r IH]; intros s Hi; [reflexivity|].
  destruct o as [o|t]; cbn [model_trace].
  - pose proof (step_out_ideal s o) as Hout. pose proof (abs_next s o) as Habs.
    pose proof (inv_next s o Hi) as Hi'. unfold next in Habs, Hi'.
    destruct (step ideal s o) as [s' out]. cbn [fst snd] in *. subst out.
    cbn [prop_trace]. rewrite <- Habs, (IH s' Hi'), andb_true_r.
    destruct o as [c clean | c fqs | c fs | c]; try reflexivity. apply eqb_reflx.
  - cbn [prop_trace]. rewrite (IH s Hi), andb_true_r.
    destruct (has_wild t) eqn:Ht; [reflexivity|].
    destruct (topic_name_accepted t Ht) as [Hs Hn]. unfold find. rewrite Hs.
    destruct Hi as [Hr [Hw _]].
    apply found_agree_sets. intros [c q].
    rewrite find_frontier_eq_find1, find1_spec, In_expected. unfold live_of, abs. cbn [sp_on sp_m]. split.
    + intros [fl [Hg Hin]]. apply Hr in Hin as [f [Hf Hin]]. exists f. split; [exact Hin|].
      apply split_topic_some in Hf as [_ ->]. apply matches_dec_correct. now apply gomatches_matches.
    + intros [f [Hin Hm]]. exists (split_slash f). split.
      * apply matches_gomatches; [exact Hn|]. now apply matches_dec_correct.
      * apply Hr. exists f. split; [|exact Hin]. apply split_topic_some. split; [|reflexivity].
        apply In_vis in Hin as [_ Hin]. exact (Hw _ _ _ Hin).
Qed.

Theorem prop_checker_sound (ops : list tr_op) :
  prop_trace sp0 ops (model_trace ideal st0 ops) = true.
Proof. apply (prop_checker_sound_from ops st0 inv0). Qed.

(** *** the code before commit ce10de8 (flag on) violates the property: after SUBSCRIBE
    [a/b; a/#/b] (refused) and the disconnect of c1, topic a/b is still routed to c1
    although no live subscription exists *)
Definition pinned_code : quirks := {| q_abort_on_malformed := true |}.

Theorem refuted_q_abort_on_malformed :
  exists ops T c q,
    has_wild T = false /\ live ops = [] /\
    exists r, find (trie (run pinned_code ops)) T = Some r /\ In (c, q) r.
Proof.
  exists [Sub "c1" [("a/b", 1%N); ("a/#/b", 1%N)]; Disc "c1"], "a/b", "c1", 1%N.
  split; [reflexivity|]. split; [vm_compute; reflexivity|].
  eexists. split; [vm_compute; reflexivity|]. left. reflexivity.
Qed.

(** the same for UNSUBSCRIBE [a+; a/b]: acknowledged, forgotten by the session, kept by the trie *)
Theorem refuted_q_abort_on_malformed_unsub :
  exists ops T c q,
    has_wild T = false /\ live ops = [] /\
    exists r, find (trie (run pinned_code ops)) T = Some r /\ In (c, q) r.
Proof.
  exists [Sub "c1" [("a/b", 1%N)]; Unsub "c1" ["a+"; "a/b"]; Disc "c1"], "a/b", "c1", 1%N.
  split; [reflexivity|]. split; [vm_compute; reflexivity|].
  eexists. split; [vm_compute; reflexivity|]. left. reflexivity.
Qed.

(** *** with the flag on, histories in which no multi-filter packet carries a malformed
    filter reach exactly the states of the repaired model *)
Definition clean_op (o : op) : bool :=
  match o with
  | Sub _ fqs => forallb (fun fq => wf_filter (fst fq)) fqs || (List.length fqs <=? 1)%nat
  | Unsub _ fs => forallb wf_filter fs || (List.length fs <=? 1)%nat
  | _ => true
  end.

Lemma abort_eq_skip_valid : forall fs c n,
  forallb wf_filter fs = true -> tm_unsubscribe_abort c fs n = tm_unsubscribe_skip c fs n.
Proof.
  induction fs as [|f r IH]; intros c n Hv; [reflexivity|].
  cbn [forallb] in Hv. apply andb_true_iff in Hv as [Hv1 Hv2].
  cbn [tm_unsubscribe_abort tm_unsubscribe_skip]. rewrite split_topic_spec, Hv1. now apply IH.
Qed.

Lemma abort_eq_skip_short : forall fs c n,
  (List.length fs <=? 1)%nat = true -> tm_unsubscribe_abort c fs n = tm_unsubscribe_skip c fs n.
Proof.
  intros [|f [|g r]] c n H; [reflexivity | | discriminate].
  cbn [tm_unsubscribe_abort tm_unsubscribe_skip]. destruct (split_topic f); reflexivity.
Qed.

Lemma forallb_wf_lfilters (c : cid) (m : lmap) : all_wf m -> forallb wf_filter (lfilters c m) = true.
Proof.
  intro Hm. apply forallb_forall. intros f Hin. apply In_lfilters in Hin as [v Hin].
  exact (Hm _ _ _ Hin).
Qed.

Lemma teardown_pinned (c : cid) (s : state) :
  all_wf (sess s) -> teardown pinned_code c s = teardown ideal c s.
Proof.
  intro Hw. unfold teardown. destruct (alookup c (online s)); [|reflexivity].
  unfold tm_unsubscribe. cbn [pinned_code ideal q_abort_on_malformed].
  now rewrite (abort_eq_skip_valid _ c (trie s) (forallb_wf_lfilters c _ Hw)).
Qed.

Lemma connect_pinned (c : cid) (clean : bool) (s : state) :
  all_wf (sess s) -> connect pinned_code c clean s = connect ideal c clean s.
Proof.
  intro Hw. unfold connect. destruct clean; [reflexivity|]. f_equal.
  unfold tm_subscribe_q. cbn [pinned_code ideal q_abort_on_malformed negb andb].
  now rewrite (forallb_valid_lpairs c _ Hw).
Qed.

Lemma ensure_pinned (c : cid) (s : state) :
  all_wf (sess s) -> ensure_on pinned_code c s = ensure_on ideal c s.
Proof. intro Hw. unfold ensure_on. destruct (is_on c (online s)); [reflexivity | now apply connect_pinned]. Qed.

Lemma all_wf_teardown (c : cid) (s : state) : all_wf (sess s) -> all_wf (sess (teardown ideal c s)).
Proof.
  intro Hw. unfold teardown. destruct (alookup c (online s)) as [[|]|]; cbn [sess]; try exact Hw.
  apply (all_wf_sub (sess s)); [apply ldrop_sub | exact Hw].
Qed.

Lemma all_wf_connect (c : cid) (clean : bool) (s : state) :
  all_wf (sess s) -> all_wf (sess (connect ideal c clean s)).
Proof.
  intro Hw. unfold connect. destruct clean; cbn [sess]; [|exact Hw].
  apply (all_wf_sub (sess s)); [apply ldrop_sub | exact Hw].
Qed.

Lemma all_wf_ensure (c : cid) (s : state) : all_wf (sess s) -> all_wf (sess (ensure_on ideal c s)).
Proof. intro Hw. unfold ensure_on. destruct (is_on c (online s)); [exact Hw | now apply all_wf_connect]. Qed.

Lemma all_wf_next (s : state) (o : op) : all_wf (sess s) -> all_wf (sess (next ideal s o)).
Proof.
  intro Hw. unfold next. destruct o as [c clean | c fqs | c fs | c]; cbn [step fst].
  - now apply all_wf_connect, all_wf_teardown.
  - rewrite tm_subscribe_q_ideal. pose proof (all_wf_ensure c s Hw) as Hw1.
    destruct (forallb (fun fq => wf_filter (fst fq)) fqs) eqn:Ev; cbn [fst sess]; [|exact Hw1].
    now apply all_wf_lsub.
  - cbn [sess]. apply (all_wf_sub (sess (ensure_on ideal c s))); [apply lunsub_sub | now apply all_wf_ensure].
  - now apply all_wf_teardown.
Qed.

Lemma next_pinned_clean (s : state) (o : op) :
  clean_op o = true -> all_wf (sess s) -> next pinned_code s o = next ideal s o.
Proof.
  intros Hc Hw. unfold next.
  destruct o as [c clean | c fqs | c fs | c]; cbn [step fst clean_op] in *.
  - rewrite (teardown_pinned c s Hw). apply connect_pinned. now apply all_wf_teardown.
  - rewrite (ensure_pinned c s Hw). set (s1 := ensure_on ideal c s).
    rewrite tm_subscribe_q_ideal. unfold tm_subscribe_q. cbn [pinned_code q_abort_on_malformed negb andb].
    destruct (forallb (fun fq => wf_filter (fst fq)) fqs) eqn:Ev.
    + rewrite <- forallb_valid_wf in Ev. pose proof (tm_subscribe_ok fqs c (trie s1) Ev) as Hok.
      destruct (tm_subscribe c fqs (trie s1)) as [n' ok]. cbn [snd fst] in *. subst ok. reflexivity.
    + cbn [orb] in Hc. destruct fqs as [|[f q] [|fq2 r]]; [discriminate | | discriminate].
      cbn [forallb fst andb] in Ev. rewrite andb_true_r in Ev.
      cbn [tm_subscribe]. rewrite split_topic_spec, Ev. cbn [fst]. destruct s1; reflexivity.
  - rewrite (ensure_pinned c s Hw). cbn [fst]. f_equal.
    unfold tm_unsubscribe. cbn [pinned_code ideal q_abort_on_malformed].
    apply orb_true_iff in Hc as [Hc|Hc].
    + now rewrite abort_eq_skip_valid.
    + now rewrite abort_eq_skip_short.
  - now apply teardown_pinned.
Qed.

Theorem unchanged_code_on_clean_histories (ops : list op) :
  forallb clean_op ops = true -> run pinned_code ops = run ideal ops.
Proof.
  unfold run. assert (G : forall ops s, forallb clean_op ops = true -> all_wf (sess s) ->
    fold_left (next pinned_code) ops s = fold_left (next ideal) ops s).
  { induction ops0 as [|o r IH]; intros s Hc Hw; [reflexivity|].
    cbn [forallb] in Hc. apply andb_true_iff in Hc as [Hc1 Hc2].
    cbn [fold_left]. rewrite (next_pinned_clean s o Hc1 Hw). apply IH; [exact Hc2 | now apply all_wf_next]. }
  intro Hc. apply G; [exact Hc | intros c f q []].
Qed.

(** non-vacuity: a concrete history with shared prefixes, '+', parent-level '#',
    re-subscription, unsubscription, a persistent session that drops and reconnects,
    a take-over with a clean session and a disconnect *)
Example C14_nonvacuous :
  let ops := [Conn "c1" false; Sub "c1" [("a/+", 0%N); ("a/#", 1%N)]; Sub "c2" [("a/b", 2%N)];
              Sub "c1" [("a/+", 2%N)]; Sub "c3" [("#", 0%N); ("a/b/#", 1%N)]; Unsub "c2" ["a/b"; "zz"];
              Disc "c3"; Disc "c1"] in
  live ops = [] /\
  find (trie (run ideal ops)) "a/b" = Some [] /\
  live (ops ++ [Conn "c1" false]) = [(("c1", "a/+"), 2%N); (("c1", "a/#"), 1%N)] /\
  find (trie (run ideal (ops ++ [Conn "c1" false]))) "a" = Some [("c1", 1%N)] /\
  live (ops ++ [Conn "c1" false; Conn "c1" true]) = [] /\
  find (trie (run ideal (ops ++ [Conn "c1" false; Conn "c1" true]))) "a/b" = Some [].
Proof. vm_compute. repeat split; reflexivity. Qed.
