(** C14 proofs, part 3: histories.  The trie after ANY history of SUBSCRIBE /
    UNSUBSCRIBE / disconnect steps (repaired behaviour, [ideal]) represents exactly
    the declarative live map; routing is MQTT matching over that map. *)
From EG.lib Require Import Base.
From EG.model Require Import Topic TopicCheck.
From EG.proofs Require Import TopicProofsSplit TopicProofsTrie.
Open Scope string_scope.
Open Scope list_scope.

(** *** the finite map keyed by (client, filter) *)
Lemma key_eqb_eq (a b : lkey) : key_eqb a b = true <-> a = b.
Proof.
  destruct a as [a1 a2], b as [b1 b2]. unfold key_eqb. simpl.
  rewrite andb_true_iff, !String.eqb_eq. split; [intros [-> ->]; reflexivity | intro H; injection H; auto].
Qed.

Lemma In_lremove (k k' : lkey) (v : qos) (m : lmap) :
  In (k, v) (lremove k' m) <-> k <> k' /\ In (k, v) m.
Proof.
  unfold lremove. rewrite filter_In. simpl. split.
  - intros [H1 H2]. split; [|exact H1]. intro E. subst k'.
    apply negb_true_iff in H2. assert (key_eqb k k = true) by now apply key_eqb_eq. congruence.
  - intros [H1 H2]. split; [exact H2|]. apply negb_true_iff.
    destruct (key_eqb k k') eqn:E; [|reflexivity]. apply key_eqb_eq in E. congruence.
Qed.

Lemma In_lset (k k' : lkey) (v v' : qos) (m : lmap) :
  In (k, v) (lset k' v' m) <-> (k = k' /\ v = v') \/ (k <> k' /\ In (k, v) m).
Proof.
  unfold lset. simpl. rewrite In_lremove. split.
  - intros [E|H]; [left; injection E; auto | right; exact H].
  - intros [[-> ->]|H]; [left; reflexivity | right; exact H].
Qed.

Lemma In_ldrop (k : lkey) (v : qos) (c : cid) (m : lmap) :
  In (k, v) (ldrop c m) <-> fst k <> c /\ In (k, v) m.
Proof.
  unfold ldrop. rewrite filter_In. simpl. split.
  - intros [H1 H2]. split; [|exact H1]. apply negb_true_iff in H2. now apply String.eqb_neq.
  - intros [H1 H2]. split; [exact H2|]. apply negb_true_iff. now apply String.eqb_neq.
Qed.

Lemma In_lfilters (f : string) (c : cid) (m : lmap) :
  In f (lfilters c m) <-> exists v, In ((c, f), v) m.
Proof.
  unfold lfilters. rewrite in_map_iff. split.
  - intros [[[c' f'] v] [E H]]. simpl in E. subst f'. apply filter_In in H as [H1 H2].
    simpl in H2. apply String.eqb_eq in H2. subst c'. now exists v.
  - intros [v H]. exists ((c, f), v). split; [reflexivity|]. apply filter_In. split; [exact H|].
    simpl. apply String.eqb_refl.
Qed.

Lemma In_lunsub : forall fs c k v m,
  In (k, v) (lunsub c fs m) <-> In (k, v) m /\ ~ (fst k = c /\ In (snd k) fs).
Proof.
  unfold lunsub. induction fs as [|f r IH]; intros c k v m.
  - simpl. split; [intro H; split; [exact H | intros [_ []]] | intros [H _]; exact H].
  - cbn [fold_left]. rewrite IH, In_lremove. destruct k as [kc kf]. simpl. split.
    + intros [[H1 H2] H3]. split; [exact H2|]. intros [E [E2|E2]].
      * subst. now apply H1.
      * apply H3. auto.
    + intros [H1 H2]. split; [split; [|exact H1]|].
      * intro E. injection E as -> ->. apply H2. auto.
      * intros [E E2]. apply H2. auto.
Qed.

(** *** representation relation between a trie and a finite map *)
Definition repr (n : node) (m : lmap) : Prop :=
  forall fl c q, In (c, q) (at_path fl n) <->
                 exists f, split_topic f = Some fl /\ In ((c, f), q) m.

Lemma repr_empty : repr empty_node [].
Proof.
  intros fl c q. rewrite at_path_empty. split; [intros [] | intros [f [_ []]]].
Qed.

Lemma repr_equiv (n : node) (m m' : lmap) :
  (forall k v, In (k, v) m <-> In (k, v) m') -> repr n m -> repr n m'.
Proof.
  intros He Hr fl c q. rewrite (Hr fl c q). split; intros [f [H1 H2]]; exists f; split; auto; now apply He.
Qed.

Lemma repr_insert (n : node) (m : lmap) (f : string) (fl : list level) (c : cid) (q : qos) :
  repr n m -> split_topic f = Some fl -> repr (insert fl c q n) (lset (c, f) q m).
Proof.
  intros Hr Hf fl' c' q'. rewrite insert_spec. destruct (lev_eq_dec fl' fl) as [->|Hne].
  - rewrite In_aset, (Hr fl c' q'). split.
    + intros [[-> ->]|[Hc [f' [Hf' Hin]]]].
      * exists f. split; [exact Hf|]. apply In_lset. left. auto.
      * exists f'. split; [exact Hf'|]. apply In_lset. right. split; [congruence | exact Hin].
    + intros [f' [Hf' Hin]]. pose proof (split_topic_inj _ _ _ Hf' Hf) as ->.
      apply In_lset in Hin as [[E ->]|[Hk Hin]].
      * left. injection E as ->. auto.
      * right. split; [congruence|]. exists f. auto.
  - rewrite (Hr fl' c' q'). split; intros [f' [Hf' Hin]]; exists f'; (split; [exact Hf'|]).
    + apply In_lset. right. split; [|exact Hin]. intro E. injection E as -> ->. congruence.
    + apply In_lset in Hin as [[E _]|[_ Hin]]; [|exact Hin]. injection E as -> ->. congruence.
Qed.

Lemma repr_remove (n : node) (m : lmap) (f : string) (fl : list level) (c : cid) :
  repr n m -> split_topic f = Some fl -> repr (remove fl c n) (lremove (c, f) m).
Proof.
  intros Hr Hf fl' c' q'. rewrite remove_spec. destruct (lev_eq_dec fl' fl) as [->|Hne].
  - rewrite In_aremove, (Hr fl c' q'). split.
    + intros [Hc [f' [Hf' Hin]]]. exists f'. split; [exact Hf'|]. apply In_lremove.
      split; [congruence | exact Hin].
    + intros [f' [Hf' Hin]]. pose proof (split_topic_inj _ _ _ Hf' Hf) as ->.
      apply In_lremove in Hin as [Hk Hin]. split; [congruence|]. exists f. auto.
  - rewrite (Hr fl' c' q'). split; intros [f' [Hf' Hin]]; exists f'; (split; [exact Hf'|]).
    + apply In_lremove. split; [|exact Hin]. intro E. injection E as -> ->. congruence.
    + now apply In_lremove in Hin as [_ Hin].
Qed.

(** removing a malformed key from the map does not concern the trie *)
Lemma repr_lremove_malformed (n : node) (m : lmap) (c : cid) (f : string) :
  repr n m -> split_topic f = None -> repr n (lremove (c, f) m).
Proof.
  intros Hr Hf fl' c' q'. rewrite (Hr fl' c' q').
  split; intros [f' [Hf' Hin]]; exists f'; (split; [exact Hf'|]).
  - apply In_lremove. split; [|exact Hin]. intro E. injection E as -> ->. congruence.
  - now apply In_lremove in Hin as [_ Hin].
Qed.

Lemma repr_unsub_skip : forall fs c n m,
  repr n m -> repr (tm_unsubscribe_skip c fs n) (lunsub c fs m).
Proof.
  unfold lunsub. induction fs as [|f r IH]; intros c n m Hr; [exact Hr|].
  cbn [tm_unsubscribe_skip fold_left]. destruct (split_topic f) as [fl|] eqn:Ef.
  - apply IH. now apply repr_remove.
  - apply IH. now apply repr_lremove_malformed.
Qed.

Lemma tm_subscribe_valid : forall fqs c n m,
  forallb (fun fq => valid_filter (fst fq)) fqs = true -> repr n m ->
  exists n', tm_subscribe c fqs n = (n', true) /\ repr n' (lsub c fqs m).
Proof.
  unfold lsub. induction fqs as [|[f q] r IH]; intros c n m Hv Hr.
  - exists n. split; [reflexivity | exact Hr].
  - cbn [forallb fst] in Hv. apply andb_true_iff in Hv as [Hv1 Hv2].
    cbn [tm_subscribe fold_left fst snd]. unfold valid_filter in Hv1.
    destruct (split_topic f) as [fl|] eqn:Ef; [|discriminate].
    apply IH; [exact Hv2|]. now apply repr_insert.
Qed.

Lemma lunsub_lfilters_drop (c : cid) (m : lmap) :
  forall k v, In (k, v) (lunsub c (lfilters c m) m) <-> In (k, v) (ldrop c m).
Proof.
  intros [kc kf] v. rewrite In_lunsub, In_ldrop. simpl. split.
  - intros [H1 H2]. split; [|exact H1]. intro E. subst kc. apply H2. split; [reflexivity|].
    apply In_lfilters. now exists v.
  - intros [H1 H2]. split; [exact H2|]. intros [E _]. congruence.
Qed.

(** *** one step of the repaired broker: the session map is the declarative live map,
    and the trie keeps representing it *)
Lemma forallb_valid_wf (fqs : list (string * qos)) :
  forallb (fun fq => valid_filter (fst fq)) fqs = forallb (fun fq => wf_filter (fst fq)) fqs.
Proof.
  induction fqs as [|[f q] r IH]; [reflexivity|].
  cbn [forallb fst]. now rewrite valid_filter_wf, IH.
Qed.

Lemma next_ideal (s : state) (o : op) :
  repr (trie s) (sess s) ->
  repr (trie (next ideal s o)) (sess (next ideal s o)) /\
  sess (next ideal s o) = live_step (sess s) o.
Proof.
  intro Hr. unfold next. destruct o as [c fqs | c fs | c]; cbn [step live_step ideal q_abort_on_malformed negb andb].
  - rewrite <- forallb_valid_wf.
    destruct (forallb (fun fq => valid_filter (fst fq)) fqs) eqn:Ev; cbn [negb].
    + destruct (tm_subscribe_valid fqs c (trie s) (sess s) Ev Hr) as [n' [E Hr']].
      rewrite E. cbn [fst trie sess]. auto.
    + cbn [fst]. auto.
  - cbn [fst trie sess]. split; [|reflexivity]. unfold tm_unsubscribe. cbn.
    now apply repr_unsub_skip.
  - cbn [fst trie sess]. split; [|reflexivity]. unfold tm_unsubscribe. cbn.
    eapply repr_equiv; [apply lunsub_lfilters_drop|]. now apply repr_unsub_skip.
Qed.

Lemma run_from_ideal : forall ops s,
  repr (trie s) (sess s) ->
  repr (trie (fold_left (next ideal) ops s)) (sess (fold_left (next ideal) ops s)) /\
  sess (fold_left (next ideal) ops s) = fold_left live_step ops (sess s).
Proof.
  induction ops as [|o r IH]; intros s Hr; [auto|].
  cbn [fold_left]. destruct (next_ideal s o Hr) as [H1 H2].
  destruct (IH _ H1) as [H3 H4]. split; [exact H3|]. now rewrite H4, H2.
Qed.

Lemma sess_run_live (ops : list op) : sess (run ideal ops) = live ops.
Proof. apply (run_from_ideal ops st0 repr_empty). Qed.

(** for every history the trie holds at filter [fl] exactly the (client, qos) pairs
    of the live subscriptions whose filter splits into [fl] *)
Theorem history_repr (ops : list op) : repr (trie (run ideal ops)) (live ops).
Proof.
  rewrite <- sess_run_live. apply (run_from_ideal ops st0 repr_empty).
Qed.

(** every live filter is well formed *)
Definition all_wf (m : lmap) : Prop := forall c f q, In ((c, f), q) m -> wf_filter f = true.

Lemma all_wf_lsub : forall fqs c m,
  forallb (fun fq => wf_filter (fst fq)) fqs = true -> all_wf m -> all_wf (lsub c fqs m).
Proof.
  unfold lsub. induction fqs as [|[f q] r IH]; intros c m Hv Hm; [exact Hm|].
  cbn [forallb fst] in Hv. apply andb_true_iff in Hv as [Hv1 Hv2].
  cbn [fold_left]. apply IH; [exact Hv2|].
  intros c' f' q' Hin. apply In_lset in Hin as [[E _]|[_ Hin]].
  - cbn [fst] in E. injection E as -> ->. exact Hv1.
  - now apply (Hm c' f' q').
Qed.

Lemma all_wf_live_step (m : lmap) (o : op) : all_wf m -> all_wf (live_step m o).
Proof.
  intro Hm. destruct o as [c fqs | c fs | c]; cbn [live_step].
  - destruct (forallb (fun fq => wf_filter (fst fq)) fqs) eqn:E; [now apply all_wf_lsub | exact Hm].
  - intros c' f' q' Hin. apply In_lunsub in Hin as [Hin _]. now apply (Hm c' f' q').
  - intros c' f' q' Hin. apply In_ldrop in Hin as [_ Hin]. now apply (Hm c' f' q').
Qed.

Lemma live_wf (ops : list op) : all_wf (live ops).
Proof.
  unfold live. assert (G : forall ops m, all_wf m -> all_wf (fold_left live_step ops m)).
  { induction ops0 as [|o r IH]; intros m Hm; [exact Hm|]. cbn [fold_left]. apply IH.
    now apply all_wf_live_step. }
  apply G. intros c f q [].
Qed.

(** *** routing *)
(** the entries found for a topic, in terms of the live map, for ANY accepted topic *)
Lemma find_run_spec (ops : list op) (T : string) (ts : list level) :
  split_topic T = Some ts ->
  exists r, find (trie (run ideal ops)) T = Some r /\
    forall c q, In (c, q) r <->
      exists f, In ((c, f), q) (live ops) /\ gomatches (split_slash f) ts.
Proof.
  intro HT. unfold find. rewrite HT. eexists. split; [reflexivity|].
  intros c q. rewrite find_frontier_eq_find1, find1_spec. split.
  - intros [fl [Hg Hin]]. apply (history_repr ops) in Hin as [f [Hf Hin]].
    exists f. split; [exact Hin|]. apply split_topic_some in Hf as [_ ->]. exact Hg.
  - intros [f [Hin Hg]]. exists (split_slash f). split; [exact Hg|].
    apply (history_repr ops). exists f. split; [|exact Hin].
    apply split_topic_some. split; [|reflexivity]. exact (live_wf ops _ _ _ Hin).
Qed.

Theorem find_correct (ops : list op) (T : string) :
  has_wild T = false ->
  exists r, find (trie (run ideal ops)) T = Some r /\
    (forall c, (exists q, In (c, q) r) <->
               (exists f q, In ((c, f), q) (live ops) /\ matches (split_slash f) (split_slash T))) /\
    (forall c q, In (c, q) r ->
               exists f, In ((c, f), q) (live ops) /\ matches (split_slash f) (split_slash T)).
Proof.
  intro HT. destruct (topic_name_accepted T HT) as [Hs Hn].
  destruct (find_run_spec ops T _ Hs) as [r [Hr Hspec]].
  exists r. split; [exact Hr|]. split.
  - intro c. split.
    + intros [q Hin]. apply Hspec in Hin as [f [Hin Hg]]. exists f, q. split; [exact Hin|].
      now apply gomatches_matches.
    + intros [f [q [Hin Hm]]]. exists q. apply Hspec. exists f. split; [exact Hin|].
      now apply matches_gomatches.
  - intros c q Hin. apply Hspec in Hin as [f [Hin Hg]]. exists f. split; [exact Hin|].
    now apply gomatches_matches.
Qed.

(** results of findSubscribers compared as sets *)
Definition same_result (a b : option (list (cid * qos))) : Prop :=
  match a, b with
  | Some r1, Some r2 => forall x, In x r1 <-> In x r2
  | None, None => True
  | _, _ => False
  end.

(** routing is a function of the live map alone: two histories with the same live
    subscriptions route every topic (any string) identically - nothing else survives *)
Theorem no_residue (ops1 ops2 : list op) :
  (forall k v, In (k, v) (live ops1) <-> In (k, v) (live ops2)) ->
  forall T, same_result (find (trie (run ideal ops1)) T) (find (trie (run ideal ops2)) T).
Proof.
  intros He T. destruct (split_topic T) as [ts|] eqn:HT.
  - destruct (find_run_spec ops1 T ts HT) as [r1 [E1 S1]].
    destruct (find_run_spec ops2 T ts HT) as [r2 [E2 S2]].
    rewrite E1, E2. intros [c q]. rewrite S1, S2.
    split; intros [f [Hin Hg]]; exists f; (split; [now apply He | exact Hg]).
  - unfold find. rewrite HT. exact I.
Qed.

(** the history with every mention of filter [f] erased *)
Definition strip_op (f : string) (o : op) : op :=
  match o with
  | Sub c fqs => Sub c (filter (fun fq => negb (fst fq =? f)) fqs)
  | Unsub c fs => Unsub c (filter (fun g => negb (g =? f)) fs)
  | Disc c => Disc c
  end.
Definition strip (f : string) (ops : list op) : list op := map (strip_op f) ops.

Definition stripped (f : string) (m m' : lmap) : Prop :=
  forall c g q, In ((c, g), q) m' <-> g <> f /\ In ((c, g), q) m.

Lemma stripped_lsub : forall fqs f c m m',
  stripped f m m' ->
  stripped f (lsub c fqs m) (lsub c (filter (fun fq => negb (fst fq =? f)) fqs) m').
Proof.
  unfold lsub. induction fqs as [|[g0 q0] r IH]; intros f c m m' Hs; [exact Hs|].
  cbn [filter fst fold_left]. destruct (g0 =? f) eqn:E; cbn [negb].
  - apply String.eqb_eq in E. subst g0. apply IH.
    intros c' g q. rewrite (Hs c' g q), In_lset. cbn [fst snd]. split.
    + intros [H1 H2]. split; [exact H1|]. right. split; [congruence | exact H2].
    + intros [H1 [[E _]|[_ H2]]]; [congruence | auto].
  - apply String.eqb_neq in E. cbn [fold_left fst snd]. apply IH.
    intros c' g q. rewrite !In_lset, (Hs c' g q). cbn [fst snd]. split.
    + intros [[E1 ->]|[H1 [H2 H3]]].
      * injection E1 as -> ->. split; [exact E | left; auto].
      * split; [exact H2 | right; auto].
    + intros [H1 [[E1 ->]|[H2 H3]]]; [left; auto | right; auto].
Qed.

Lemma stripped_lunsub : forall fs f c m m',
  stripped f m m' ->
  stripped f (lunsub c fs m) (lunsub c (filter (fun g => negb (g =? f)) fs) m').
Proof.
  intros fs f c m m' Hs c' g q. rewrite !In_lunsub, (Hs c' g q). cbn [fst snd].
  rewrite filter_In. split.
  - intros [[H1 H2] H3]. split; [exact H1|]. split; [exact H2|].
    intros [E Hin]. apply H3. split; [exact E|]. split; [exact Hin|].
    apply negb_true_iff. now apply String.eqb_neq.
  - intros [H1 [H2 H3]]. split; [auto|]. intros [E [Hin _]]. apply H3. auto.
Qed.

Lemma forallb_wf_strip (f : string) (fqs : list (string * qos)) :
  wf_filter f = true ->
  forallb (fun fq => wf_filter (fst fq)) (filter (fun fq => negb (fst fq =? f)) fqs) =
  forallb (fun fq => wf_filter (fst fq)) fqs.
Proof.
  intro Hf. induction fqs as [|[g q] r IH]; [reflexivity|].
  cbn [filter forallb fst]. destruct (g =? f) eqn:E; cbn [negb].
  - apply String.eqb_eq in E. subst g. rewrite Hf. exact IH.
  - cbn [forallb fst]. now rewrite IH.
Qed.

Lemma stripped_step (f : string) (m m' : lmap) (o : op) :
  wf_filter f = true -> stripped f m m' ->
  stripped f (live_step m o) (live_step m' (strip_op f o)).
Proof.
  intros Hf Hs. destruct o as [c fqs | c fs | c]; cbn [strip_op live_step].
  - rewrite (forallb_wf_strip f fqs Hf).
    destruct (forallb (fun fq => wf_filter (fst fq)) fqs); [now apply stripped_lsub | exact Hs].
  - now apply stripped_lunsub.
  - intros c' g q. rewrite !In_ldrop, (Hs c' g q). cbn [fst]. tauto.
Qed.

Lemma stripped_live (f : string) (ops : list op) :
  wf_filter f = true -> stripped f (live ops) (live (strip f ops)).
Proof.
  intro Hf. unfold live, strip.
  assert (G : forall ops m m', stripped f m m' ->
              stripped f (fold_left live_step ops m) (fold_left live_step (map (strip_op f) ops) m')).
  { induction ops0 as [|o r IH]; intros m m' Hs; [exact Hs|].
    cbn [map fold_left]. apply IH. now apply stripped_step. }
  apply G. intros c g q. simpl. tauto.
Qed.

(** after any history that ends with no subscriber of filter [f] left, every topic is
    routed exactly as after the same history in which [f] was never mentioned *)
Theorem no_residue_after_removal (ops : list op) (f : string) :
  wf_filter f = true ->
  (forall c q, ~ In ((c, f), q) (live ops)) ->
  forall T, same_result (find (trie (run ideal ops)) T) (find (trie (run ideal (strip f ops))) T).
Proof.
  intros Hf Hno. apply no_residue. intros [c g] v.
  rewrite (stripped_live f ops Hf c g v). split.
  - intro H. split; [|exact H]. intro E. subst g. now apply (Hno c v).
  - tauto.
Qed.

(** *** single-step corollaries *)
Lemma run_snoc (Q : quirks) (ops : list op) (o : op) : run Q (ops ++ [o]) = next Q (run Q ops) o.
Proof. unfold run. now rewrite fold_left_app. Qed.

Lemma live_snoc (ops : list op) (o : op) : live (ops ++ [o]) = live_step (live ops) o.
Proof. unfold live. now rewrite fold_left_app. Qed.

Theorem resubscribe_overwrites_qos (ops : list op) (c : cid) (f : string) (q : qos) :
  wf_filter f = true ->
  let ops' := ops ++ [Sub c [(f, q)]] in
  (forall q', In ((c, f), q') (live ops') <-> q' = q) /\
  (forall q', In (c, q') (at_path (split_slash f) (trie (run ideal ops'))) <-> q' = q).
Proof.
  intros Hf ops'.
  assert (L : forall q', In ((c, f), q') (live ops') <-> q' = q).
  { intro q'. unfold ops'. rewrite live_snoc. cbn [live_step forallb fst]. rewrite Hf. cbn [andb].
    unfold lsub. cbn [fold_left fst snd]. rewrite In_lset. split.
    - intros [[_ ->]|[H _]]; [reflexivity | congruence].
    - intros ->. left. auto. }
  split; [exact L|]. intro q'. rewrite (history_repr ops' (split_slash f) c q'). rewrite <- L. split.
  - intros [f' [Hf' Hin]].
    assert (Hs : split_topic f = Some (split_slash f)) by (apply split_topic_some; auto).
    now rewrite (split_topic_inj _ _ _ Hs Hf').
  - intro Hin. exists f. split; [apply split_topic_some; auto | exact Hin].
Qed.

Theorem unsub_unknown_is_noop (ops : list op) (c : cid) (f : string) :
  (forall q, ~ In ((c, f), q) (live ops)) ->
  let ops' := ops ++ [Unsub c [f]] in
  (forall k v, In (k, v) (live ops') <-> In (k, v) (live ops)) /\
  (forall fl, at_path fl (trie (run ideal ops')) = at_path fl (trie (run ideal ops))) /\
  (forall T, same_result (find (trie (run ideal ops')) T) (find (trie (run ideal ops)) T)).
Proof.
  intros Hno ops'.
  assert (L : forall k v, In (k, v) (live ops') <-> In (k, v) (live ops)).
  { intros k v. unfold ops'. rewrite live_snoc. cbn [live_step]. unfold lunsub. cbn [fold_left].
    rewrite In_lremove. split; [tauto|]. intro H. split; [|exact H]. intro E. subst k. now apply (Hno v). }
  split; [exact L|]. split; [|now apply no_residue].
  intro fl. unfold ops'. rewrite run_snoc. unfold next. cbn [step fst trie]. unfold tm_unsubscribe. cbn.
  destruct (split_topic f) as [fl0|] eqn:Ef; [|reflexivity].
  rewrite remove_spec. destruct (lev_eq_dec fl fl0) as [->|]; [|reflexivity].
  apply aremove_noop. intros v Hin. apply (history_repr ops) in Hin as [f' [Hf' Hin]].
  rewrite (split_topic_inj _ _ _ Hf' Ef) in Hin. now apply (Hno v).
Qed.

(** a SUBSCRIBE that carries a malformed filter is refused as a whole: no SUBACK, the
    state is unchanged; and splitTopic itself refuses every malformed filter *)
Theorem malformed_rejected :
  (forall f, wf_filter f = false -> split_topic f = None) /\
  (forall ops c fqs, forallb (fun fq => wf_filter (fst fq)) fqs = false ->
     step ideal (run ideal ops) (Sub c fqs) = (run ideal ops, Ack false) /\
     live (ops ++ [Sub c fqs]) = live ops).
Proof.
  split.
  - intros f Hf. rewrite split_topic_spec, Hf. reflexivity.
  - intros ops c fqs Hv. split.
    + cbn [step ideal q_abort_on_malformed negb andb]. now rewrite forallb_valid_wf, Hv.
    + rewrite live_snoc. cbn [live_step]. now rewrite Hv.
Qed.

(** *** the per-run property checker accepts every trace of the repaired model:
    the decidable [prop_trace] of TopicCheck.v demands nothing beyond the theorems *)
Lemma In_expected (m : lmap) (t : string) (c : cid) (q : qos) :
  In (c, q) (expected m t) <->
  exists f, In ((c, f), q) m /\ matchesb (split_slash f) (split_slash t) = true.
Proof.
  unfold expected. rewrite in_flat_map. split.
  - intros [[[c' f] q'] [Hin H]]. cbn [fst snd] in H.
    destruct (matchesb (split_slash f) (split_slash t)) eqn:E; [|destruct H].
    destruct H as [H|[]]. injection H as -> ->. exists f. auto.
  - intros [f [Hin Hm]]. exists ((c, f), q). split; [exact Hin|]. cbn [fst snd]. rewrite Hm. now left.
Qed.

Lemma found_agree_sets (ml il : list (cid * qos)) :
  (forall x, In x il <-> In x ml) -> found_agree ml il = true.
Proof.
  intro H. unfold found_agree. apply andb_true_iff. split; apply forallb_forall; intros [c q] Hin.
  - apply existsb_exists. exists (c, q). split; [now apply H|].
    unfold pair_eqb. cbn [fst snd]. now rewrite String.eqb_refl, N.eqb_refl.
  - apply existsb_exists. exists (c, q). split; [now apply H|]. cbn [fst]. apply String.eqb_refl.
Qed.

Lemma prop_checker_sound_from : forall ops s,
  repr (trie s) (sess s) -> all_wf (sess s) ->
  prop_trace (sess s) ops (model_trace ideal s ops) = true.
Proof.
  induction ops as [|o r IH]; intros s Hr Hw; [reflexivity|].
  destruct o as [o|t]; cbn [model_trace].
  - destruct (next_ideal s o Hr) as [Hr' Hs']. unfold next in Hr', Hs'.
    destruct (step ideal s o) as [s' out] eqn:Est. cbn [fst] in Hr', Hs'.
    cbn [prop_trace]. rewrite <- Hs'. rewrite IH; [|exact Hr'|rewrite Hs'; now apply all_wf_live_step].
    rewrite andb_true_r.
    destruct o as [c fqs | c fs | c]; cbn [step ideal q_abort_on_malformed negb andb] in Est.
    + rewrite forallb_valid_wf in Est.
      destruct (forallb (fun fq => wf_filter (fst fq)) fqs) eqn:Ev; cbn [negb] in Est.
      * rewrite <- forallb_valid_wf in Ev.
        destruct (tm_subscribe_valid fqs c (trie s) (sess s) Ev Hr) as [n' [E _]].
        rewrite E in Est. injection Est as <- <-. reflexivity.
      * injection Est as <- <-. reflexivity.
    + injection Est as <- <-. reflexivity.
    + injection Est as <- <-. reflexivity.
  - cbn [prop_trace]. rewrite (IH s Hr Hw), andb_true_r.
    destruct (has_wild t) eqn:Ht; [reflexivity|].
    destruct (topic_name_accepted t Ht) as [Hs Hn]. unfold find. rewrite Hs.
    apply found_agree_sets. intros [c q].
    rewrite find_frontier_eq_find1, find1_spec, In_expected. split.
    + intros [fl [Hg Hin]]. apply Hr in Hin as [f [Hf Hin]]. exists f. split; [exact Hin|].
      apply split_topic_some in Hf as [_ ->]. apply matches_dec_correct. now apply gomatches_matches.
    + intros [f [Hin Hm]]. exists (split_slash f). split.
      * apply matches_gomatches; [exact Hn|]. now apply matches_dec_correct.
      * apply Hr. exists f. split; [|exact Hin]. apply split_topic_some. split; [|reflexivity].
        exact (Hw _ _ _ Hin).
Qed.

Theorem prop_checker_sound (ops : list tr_op) :
  prop_trace [] ops (model_trace ideal st0 ops) = true.
Proof.
  apply (prop_checker_sound_from ops st0); [exact repr_empty | intros c f q []].
Qed.

(** *** the unchanged code (flag on) violates the property: after SUBSCRIBE [a/b; a/#/b]
    (refused) and the disconnect of c1, topic a/b is still routed to c1 although no
    live subscription exists *)
Definition pinned_code : quirks := {| q_abort_on_malformed := true |}.

Theorem refuted_q_abort_on_malformed :
  exists ops T c q,
    has_wild T = false /\ live ops = [] /\
    exists r, find (trie (run pinned_code ops)) T = Some r /\ In (c, q) r.
Proof.
  exists [Sub "c1" [("a/b", 1%N); ("a/#/b", 1%N)]; Disc "c1"], "a/b", "c1", 1%N.
  split; [reflexivity|]. split; [vm_compute; reflexivity|].
  eexists. split; [vm_compute; reflexivity|]. left. reflexivity.
Qed.

(** *** the unchanged code: on histories in which no multi-filter packet carries a
    malformed filter the code (flag on) and the repaired model coincide, so every
    theorem above holds for the unchanged code on those histories *)
Definition clean_op (o : op) : bool :=
  match o with
  | Sub _ fqs => forallb (fun fq => wf_filter (fst fq)) fqs || (List.length fqs <=? 1)%nat
  | Unsub _ fs => forallb wf_filter fs || (List.length fs <=? 1)%nat
  | Disc _ => true
  end.

Lemma abort_eq_skip_valid : forall fs c n,
  forallb wf_filter fs = true -> tm_unsubscribe_abort c fs n = tm_unsubscribe_skip c fs n.
Proof.
  induction fs as [|f r IH]; intros c n Hv; [reflexivity|].
  cbn [forallb] in Hv. apply andb_true_iff in Hv as [Hv1 Hv2].
  cbn [tm_unsubscribe_abort tm_unsubscribe_skip]. rewrite split_topic_spec, Hv1. now apply IH.
Qed.

Lemma abort_eq_skip_short : forall fs c n,
  (List.length fs <=? 1)%nat = true -> tm_unsubscribe_abort c fs n = tm_unsubscribe_skip c fs n.
Proof.
  intros [|f [|g r]] c n H; [reflexivity | | discriminate].
  cbn [tm_unsubscribe_abort tm_unsubscribe_skip]. destruct (split_topic f); reflexivity.
Qed.

Lemma forallb_wf_lfilters (c : cid) (m : lmap) : all_wf m -> forallb wf_filter (lfilters c m) = true.
Proof.
  intro Hm. apply forallb_forall. intros f Hin. apply In_lfilters in Hin as [v Hin].
  exact (Hm _ _ _ Hin).
Qed.

Lemma state_eta (s : state) : {| trie := trie s; sess := sess s |} = s.
Proof. destruct s; reflexivity. Qed.

Lemma next_pinned_clean (s : state) (o : op) :
  clean_op o = true -> all_wf (sess s) ->
  next pinned_code s o = next ideal s o /\ all_wf (sess (next ideal s o)).
Proof.
  intros Hc Hw. unfold next.
  destruct o as [c fqs | c fs | c]; cbn [step ideal pinned_code q_abort_on_malformed negb andb clean_op] in *.
  - rewrite forallb_valid_wf.
    destruct (forallb (fun fq => wf_filter (fst fq)) fqs) eqn:Ev; cbn [negb].
    + split; [reflexivity|]. destruct (tm_subscribe c fqs (trie s)) as [n' [|]]; cbn [fst sess]; [|exact Hw].
      now apply all_wf_lsub.
    + cbn [orb] in Hc. split; [|exact Hw]. destruct fqs as [|[f q] [|fq2 r]]; [discriminate | | discriminate].
      cbn [forallb fst andb] in Ev. rewrite andb_true_r in Ev.
      cbn [tm_subscribe]. rewrite split_topic_spec, Ev. cbn [fst]. apply state_eta.
  - cbn [fst sess]. split.
    + unfold tm_unsubscribe. cbn. f_equal. apply orb_true_iff in Hc as [Hc|Hc].
      * now rewrite abort_eq_skip_valid.
      * now rewrite abort_eq_skip_short.
    + intros c' f' q' Hin. apply In_lunsub in Hin as [Hin _]. exact (Hw _ _ _ Hin).
  - cbn [fst sess]. split.
    + unfold tm_unsubscribe. cbn. f_equal. apply abort_eq_skip_valid. now apply forallb_wf_lfilters.
    + intros c' f' q' Hin. apply In_ldrop in Hin as [_ Hin]. exact (Hw _ _ _ Hin).
Qed.

Theorem unchanged_code_on_clean_histories (ops : list op) :
  forallb clean_op ops = true -> run pinned_code ops = run ideal ops.
Proof.
  unfold run. assert (G : forall ops s, forallb clean_op ops = true -> all_wf (sess s) ->
    fold_left (next pinned_code) ops s = fold_left (next ideal) ops s).
  { induction ops0 as [|o r IH]; intros s Hc Hw; [reflexivity|].
    cbn [forallb] in Hc. apply andb_true_iff in Hc as [Hc1 Hc2].
    destruct (next_pinned_clean s o Hc1 Hw) as [E Hw']. cbn [fold_left]. rewrite E. now apply IH. }
  intro Hc. apply G; [exact Hc | intros c f q []].
Qed.

(** the same for UNSUBSCRIBE [a+; a/b]: acknowledged, forgotten by the session, kept by the trie *)
Theorem refuted_q_abort_on_malformed_unsub :
  exists ops T c q,
    has_wild T = false /\ live ops = [] /\
    exists r, find (trie (run pinned_code ops)) T = Some r /\ In (c, q) r.
Proof.
  exists [Sub "c1" [("a/b", 1%N)]; Unsub "c1" ["a+"; "a/b"]; Disc "c1"], "a/b", "c1", 1%N.
  split; [reflexivity|]. split; [vm_compute; reflexivity|].
  eexists. split; [vm_compute; reflexivity|]. left. reflexivity.
Qed.

(** non-vacuity: a concrete history with shared prefixes, '+', parent-level '#',
    re-subscription, unsubscription and a disconnect *)
Example C14_nonvacuous :
  let ops := [Sub "c1" [("a/+", 0%N); ("a/#", 1%N)]; Sub "c2" [("a/b", 2%N)]; Sub "c1" [("a/+", 2%N)];
              Sub "c3" [("#", 0%N); ("a/b/#", 1%N)]; Unsub "c2" ["a/b"; "zz"]; Disc "c3"] in
  live ops = [(("c1", "a/+"), 2%N); (("c1", "a/#"), 1%N)] /\
  find (trie (run ideal ops)) "a/b" = Some [("c1", 1%N); ("c1", 2%N)] /\
  find (trie (run ideal ops)) "a" = Some [("c1", 1%N)] /\
  find (trie (run ideal ops)) "b" = Some [].
Proof. vm_compute. repeat split; reflexivity. Qed.
