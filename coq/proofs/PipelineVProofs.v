(** C02 proofs, part 2: validation ([Spec.Validate] / [ValidateJumpIf]) -
    declarative characterisation, soundness for the run time, filter reuse,
    and the refutation witness of the quirk flag. *)
From EG.lib Require Import Base.
From EG.model Require Import Pipeline PipelineSpec.
From EG.proofs Require Import PipelineProofs.
Open Scope string_scope.
Open Scope list_scope.

(** ** helpers *)
Lemma mem_In : forall s l, mem s l = true <-> In s l.
Proof.
  intros s l. unfold mem. rewrite existsb_exists. split.
  - intros (x & Hx & E). apply seqb_eq in E. subst; auto.
  - intros H. exists s. split; auto. apply String.eqb_refl.
Qed.

Lemma mem_false : forall s l, mem s l = false <-> ~ In s l.
Proof.
  intros s l. rewrite <- mem_In. destruct (mem s l).
  - split; [discriminate | intros H; exfalso; apply H; reflexivity].
  - split; [intros _ H; discriminate | reflexivity].
Qed.

Lemma alookup_in : forall {A} k (l : list (string * A)) v, alookup k l = Some v -> In (k, v) l.
Proof.
  intros A k l; induction l as [|[k' v'] t IH]; intros v H; simpl in H; [discriminate|].
  destruct (String.eqb k k') eqn:E.
  - apply seqb_eq in E. inversion H; subst. left; reflexivity.
  - right. auto.
Qed.

Lemma validate_decls_spec : forall kinds ds seen,
  validate_decls kinds seen ds = true <->
  (NoDup (map dname ds) /\
   forall d, In d ds -> decl_ok kinds d = true /\ dname d <> END /\ ~ In (dname d) seen).
Proof.
  intros kinds ds; induction ds as [|d t IH]; intros seen; simpl.
  - split; [intros _; split; [constructor | intros d []] | reflexivity].
  - rewrite !andb_true_iff, !negb_true_iff, IH, seqb_neq, mem_false. split.
    + intros (((H1 & H2) & H3) & (H4 & H5)). split.
      * constructor; auto. intros Hin. apply in_map_iff in Hin as (d' & E & Hd').
        destruct (H5 d' Hd') as (_ & _ & Hn). apply Hn. left. auto.
      * intros d' [-> | Hd']; [auto|].
        destruct (H5 d' Hd') as (Ha & Hb & Hn). repeat split; auto. intros Hc. apply Hn. right; auto.
    + intros (Hnd & H). inversion Hnd as [|x l Hx Hl]; subst.
      destruct (H d (or_introl eq_refl)) as (Ha & Hb & Hc).
      split; [split; [split|]; auto|]. split; [exact Hl|].
      intros d' Hd'. destruct (H d' (or_intror Hd')) as (Ha' & Hb' & Hc').
      split; [exact Ha'|]. split; [exact Hb'|]. intros [E | Hin]; [|auto].
      apply Hx. rewrite E. apply in_map. auto.
Qed.

Lemma find_decl_in : forall name ds d, find_decl name ds = Some d -> In d ds /\ dname d = name.
Proof.
  intros name ds; induction ds as [|d0 t IH]; intros d H; simpl in H; [discriminate|].
  destruct (name =s dname d0) eqn:E.
  - apply seqb_eq in E. inversion H; subst. split; [left|]; auto.
  - destruct (IH d H); split; [right|]; auto.
Qed.

Lemma find_decl_unique : forall name ds d,
  NoDup (map dname ds) -> In d ds -> dname d = name -> find_decl name ds = Some d.
Proof.
  intros name ds; induction ds as [|d0 t IH]; intros d Hnd Hin Hn; [destruct Hin|].
  simpl. inversion Hnd as [|x l Hx Hl]; subst.
  destruct (dname d =s dname d0) eqn:E.
  - apply seqb_eq in E. destruct Hin as [-> | Hin]; auto.
    exfalso. apply Hx. rewrite <- E. apply in_map. auto.
  - destruct Hin as [-> | Hin]; [rewrite String.eqb_refl in E; discriminate | auto].
Qed.

(** counting with [filter] *)
Lemma count_zero : forall {A} (p : A -> bool) l,
  List.length (filter p l) = 0 <-> forall m x, nth_error l m = Some x -> p x = false.
Proof.
  intros A p l; induction l as [|a t IH]; simpl.
  - split; auto. intros _ m x H. destruct m; discriminate.
  - destruct (p a) eqn:Ep; simpl.
    + split; [discriminate|]. intros H. specialize (H 0 a eq_refl). congruence.
    + rewrite IH. split.
      * intros H m x Hx. destruct m; simpl in Hx; [inversion Hx; subst; auto | eauto].
      * intros H m x Hx. apply (H (S m) x). auto.
Qed.

Lemma count_one : forall {A} (p : A -> bool) l,
  List.length (filter p l) = 1 <->
  exists m x, nth_error l m = Some x /\ p x = true /\
              forall m' y, nth_error l m' = Some y -> p y = true -> m' = m.
Proof.
  intros A p l; induction l as [|a t IH]; simpl.
  - split; [discriminate|]. intros (m & x & H & _). destruct m; discriminate.
  - destruct (p a) eqn:Ep; simpl.
    + split.
      * intros H. assert (H0 : List.length (filter p t) = 0) by lia.
        rewrite count_zero in H0. exists 0, a. repeat split; auto.
        intros m' y Hy Hp. destruct m'; auto. simpl in Hy. rewrite (H0 _ _ Hy) in Hp. discriminate.
      * intros (m & x & Hx & Hp & Hu).
        assert (m = 0) by (symmetry; apply (Hu 0 a); auto). subst m.
        f_equal. apply count_zero. intros m y Hy. destruct (p y) eqn:Epy; auto.
        specialize (Hu (S m) y Hy Epy). discriminate.
    + rewrite IH. split.
      * intros (m & x & Hx & Hp & Hu). exists (S m), x. repeat split; auto.
        intros m' y Hy Hpy. destruct m'; simpl in Hy.
        -- inversion Hy; subst. congruence.
        -- f_equal. eauto.
      * intros (m & x & Hx & Hp & Hu). destruct m; simpl in Hx.
        -- inversion Hx; subst. congruence.
        -- exists m, x. repeat split; auto. intros m' y Hy Hpy.
           specialize (Hu (S m') y Hy Hpy). lia.
Qed.

Lemma later_named_skipn : forall flow i j t,
  later_named flow i j t <->
  exists m nd, j = S i + m /\ nth_error (skipn (S i) flow) m = Some nd /\ is_target t nd = true.
Proof.
  intros flow i j t. unfold later_named. split.
  - intros (Hlt & nd & Hnd & Hc). exists (j - S i), nd. split; [lia|].
    rewrite nth_error_skipn'. replace (S i + (j - S i)) with j by lia. split; auto.
    apply is_target_spec. auto.
  - intros (m & nd & -> & Hnd & Hc). split; [lia|]. exists nd.
    rewrite nth_error_skipn' in Hnd. split; auto. apply is_target_spec. auto.
Qed.

Lemma count_targets_valid : forall flow i t,
  count_targets t (skipn (S i) flow) = 1 <-> ValidJump flow i t.
Proof.
  intros flow i t. unfold count_targets, ValidJump. destruct (t =s END) eqn:Et.
  - apply seqb_eq in Et. subst t. split.
    + intros H. left. split; auto. assert (H0 : List.length (filter (is_target END) (skipn (S i) flow)) = 0) by lia.
      rewrite count_zero in H0. intros j Hj. apply later_named_skipn in Hj as (m & nd & _ & Hnd & Hc).
      rewrite (H0 _ _ Hnd) in Hc. discriminate.
    + intros [[_ H] | [H _]]; [|congruence].
      assert (H0 : List.length (filter (is_target END) (skipn (S i) flow)) = 0).
      { apply count_zero. intros m x Hx. destruct (is_target END x) eqn:E; auto.
        exfalso. apply (H (S i + m)). apply later_named_skipn. exists m, x. auto. }
      lia.
  - apply seqb_neq in Et. simpl. rewrite count_one. split.
    + intros (m & x & Hx & Hp & Hu). right. split; auto. exists (S i + m). split.
      * apply later_named_skipn. exists m, x. auto.
      * intros j' Hj'. apply later_named_skipn in Hj' as (m' & y & -> & Hy & Hpy).
        f_equal. eauto.
    + intros [[H _] | (_ & j & Hj & Hu)]; [congruence|].
      apply later_named_skipn in Hj as (m & x & -> & Hx & Hp).
      exists m, x. repeat split; auto. intros m' y Hy Hpy.
      assert (S i + m' = S i + m); [|lia]. apply Hu. apply later_named_skipn. exists m', y. auto.
Qed.

Lemma validate_flow_spec : forall kinds ds l,
  validate_flow kinds ds l = true <->
  forall m nd, nth_error l m = Some nd -> is_end nd = false ->
    exists rs, results_of kinds ds (fname nd) = Some rs /\
      forall rt, In rt (jumpif nd) -> mem (fst rt) rs = true /\ count_targets (snd rt) (skipn (S m) l) = 1.
Proof.
  intros kinds ds l; induction l as [|nd tl IH]; simpl.
  - split; auto. intros _ m nd H. destruct m; discriminate.
  - rewrite andb_true_iff, IH. split.
    + intros [Ht Hn] m x Hx He. destruct m; simpl in Hx.
      * inversion Hx; subst x. rewrite He in Hn. simpl in Hn.
        destruct (results_of kinds ds (fname nd)) as [rs|]; [|discriminate].
        exists rs. split; auto. intros rt Hrt. rewrite forallb_forall in Hn. specialize (Hn rt Hrt).
        unfold jump_ok in Hn. apply andb_true_iff in Hn as [H1 H2]. apply Nat.eqb_eq in H2. auto.
      * apply (Ht m x Hx He).
    + intros H. split.
      * intros m x Hx He. apply (H (S m) x Hx He).
      * destruct (is_end nd) eqn:He; auto. simpl.
        destruct (H 0 nd eq_refl He) as (rs & Hrs & Hj). rewrite Hrs.
        apply forallb_forall. intros rt Hrt. destruct (Hj rt Hrt) as [H1 H2].
        unfold jump_ok. rewrite H1. simpl in H2. rewrite H2. reflexivity.
Qed.

(** ** [validate] accepts exactly the declaratively valid specs *)
Lemma validate_characterisation : forall kinds ds flow,
  validate kinds ds flow = true <-> (ValidDecls kinds ds /\ ValidFlow kinds ds flow).
Proof.
  intros kinds ds flow. unfold validate. rewrite andb_true_iff, validate_decls_spec, validate_flow_spec.
  split.
  - intros [[Hnd Hd] Hf]. split.
    + split; auto. intros d Hin. destruct (Hd d Hin) as (H1 & H2 & _). auto.
    + intros i nd Hnth He. destruct (Hf i nd Hnth He) as (rs & Hrs & Hj).
      unfold results_of in Hrs. destruct (find_decl (fname nd) ds) as [d|] eqn:Efd; [|discriminate].
      apply find_decl_in in Efd as [Hin Hname]. exists d, rs. repeat split; auto.
      * destruct (Hj (r, t) H) as [Hm _]. apply mem_In. auto.
      * destruct (Hj (r, t) H) as [_ Hc]. apply count_targets_valid. auto.
  - intros [[Hnd Hd] Hf]. split.
    + split; auto. intros d Hin. destruct (Hd d Hin). repeat split; auto.
    + intros i nd Hnth He. destruct (Hf i nd Hnth He) as (d & rs & Hin & Hname & Hrs & Hj).
      exists rs. split.
      * unfold results_of. rewrite (find_decl_unique (fname nd) ds d); auto.
      * intros [r t] Hrt. destruct (Hj r t Hrt) as [H1 H2]. split; [apply mem_In; auto|].
        apply count_targets_valid. auto.
Qed.

(** ** validation is sound for the run time *)
Lemma valid_jump_found : forall kinds ds flow,
  validate kinds ds flow = true ->
  forall i nd r, nth_error flow i = Some nd -> is_end nd = false ->
    next_spec ideal flow i r <> SFell /\
    (r <> "" -> target nd r <> "" -> target nd r <> END ->
       exists j, next_spec ideal flow i r = SRun j /\ first_later_named flow i j (target nd r) /\
                 forall j', later_named flow i j' (target nd r) -> j' = j).
Proof.
  intros kinds ds flow Hv i nd r Hnd He.
  apply validate_characterisation in Hv as [_ Hf].
  destruct (next_spec_declarative flow i nd r Hnd) as (H1 & H2 & H3).
  destruct (String.eqb_spec r "") as [Er | Er].
  { split; [|intros; contradiction]. rewrite (H1 Er). unfold arrive.
    destruct (nth_error flow (S i)) as [x|]; [destruct (is_end x)|]; discriminate. }
  destruct (String.eqb_spec (target nd r) "") as [Et1 | Et1].
  { split; [|intros; contradiction]. rewrite (H2 Er (or_introl Et1)). discriminate. }
  destruct (String.eqb_spec (target nd r) END) as [Et2 | Et2].
  { split; [|intros; contradiction]. rewrite (H2 Er (or_intror Et2)). discriminate. }
  assert (Hin : In (r, target nd r) (jumpif nd)).
  { unfold target in *. destruct (alookup r (jumpif nd)) as [t|] eqn:Ea; [|congruence].
    apply alookup_in. auto. }
  destruct (Hf i nd Hnd He) as (d & rs & _ & _ & _ & Hj).
  destruct (Hj r (target nd r) Hin) as [_ [[Hc _] | (_ & j & Hl & Hu)]]; [congruence|].
  destruct (H3 Er Et1 Et2) as [(j' & Hfirst & Hs) | (Hnone & _)].
  - split; [rewrite Hs; discriminate|]. intros _ _ _. exists j'.
    split; [exact Hs|]. split; [exact Hfirst|].
    intros j'' Hj''. rewrite (Hu j'' Hj''). symmetry. apply Hu. apply Hfirst.
  - exfalso. apply (Hnone j). exact Hl.
Qed.

Lemma refwalk_nofell : forall q flow res,
  (forall j nd r, nth_error flow j = Some nd -> is_end nd = false -> next_spec q flow j r <> SFell) ->
  forall n s last v r fin n', RefWalk q flow res n s last v r fin n' ->
  good flow s -> s <> SFell -> fin <> SFell.
Proof.
  intros q flow res Hns n s last v r fin n' H; induction H as [n s last Hs | n j last v r fin n' H IH]; intros Hg Hne.
  - exact Hne.
  - destruct (Hg j eq_refl) as (nd & Hnd & He). apply IH.
    + apply next_spec_good.
    + apply (Hns j nd (res n) Hnd He).
Qed.

Lemma valid_never_falls_off : forall kinds ds flow res n act,
  validate kinds ds flow = true -> fin_of (do_handle ideal res flow n act) <> SFell.
Proof.
  intros kinds ds flow res n act Hv.
  eapply refwalk_nofell; [| apply do_handle_refwalk | apply arrive_good |].
  - intros j nd r Hnd He. apply (valid_jump_found kinds ds flow Hv j nd r Hnd He).
  - unfold arrive. destruct (nth_error flow 0) as [x|]; [destruct (is_end x)|]; discriminate.
Qed.

(** ** filter reuse: the instance a node runs is determined by the filter name
    alone; any number of nodes (under any aliases) may name the same filter *)
Lemma reuse_bound : forall kinds ds flow,
  validate kinds ds flow = true ->
  forall i j ndi ndj, nth_error flow i = Some ndi -> nth_error flow j = Some ndj ->
    is_end ndi = false -> is_end ndj = false -> fname ndi = fname ndj ->
    bound ds ndi = Some (fname ndi) /\ bound ds ndj = Some (fname ndi).
Proof.
  intros kinds ds flow Hv i j ndi ndj Hi Hj Hei Hej Hn.
  apply validate_characterisation in Hv as [[Hnd _] Hf].
  destruct (Hf i ndi Hi Hei) as (d & rs & Hin & Hname & _).
  unfold bound. rewrite <- Hn. rewrite (find_decl_unique (fname ndi) ds d Hnd Hin Hname).
  rewrite Hname. auto.
Qed.

(** reuse is accepted: one declared filter may appear under any list of
    aliases and namespaces *)
Lemma reuse_accepted : forall kinds ds d (ans : list (string * string)),
  validate kinds ds [] = true -> In d ds ->
  validate kinds ds (map (reuse_node (dname d)) ans) = true.
Proof.
  intros kinds ds d ans Hv Hin. apply validate_characterisation in Hv as [Hd _].
  apply validate_characterisation. split; auto.
  intros i nd Hnth He. rewrite nth_error_map in Hnth.
  destruct (nth_error ans i) as [an|]; [|discriminate]. simpl in Hnth. inversion Hnth; subst nd.
  destruct Hd as [_ Hd]. destruct (Hd d Hin) as [Hok _].
  unfold decl_ok in Hok. apply andb_true_iff in Hok as [_ Hk].
  destruct (alookup (dkind d) kinds) as [rs|] eqn:Ek; [|discriminate].
  exists d, rs. repeat split; auto; simpl in H; destruct H.
Qed.

(** ** theorem-shaped statements (closed by [exact] in props/C02.v) *)

Lemma thm_run_is_reference_walk : forall flow res n act,
  let o := do_handle ideal res flow n act in
  RefWalk ideal flow res n (arrive flow 0) "" (map fst (visits o)) (result o) (fin_of o) (ninv o) /\
  (forall v r fin n', RefWalk ideal flow res n (arrive flow 0) "" v r fin n' ->
     v = map fst (visits o) /\ r = result o /\ fin = fin_of o /\ n' = ninv o).
Proof.
  intros flow res n act o. split.
  - apply do_handle_refwalk.
  - intros v r fin n' H. eapply refwalk_functional; [apply do_handle_refwalk | exact H].
Qed.

Lemma thm_forward_only : forall flow res n act,
  let o := do_handle ideal res flow n act in
  Sorted.StronglySorted lt (map fst (visits o)) /\
  Forall (fun i => exists nd, nth_error flow i = Some nd /\ is_end nd = false) (map fst (visits o)) /\
  (forall i r j, next_spec ideal flow i r = SRun j -> i < j).
Proof.
  intros flow res n act o.
  destruct (loop_visits ideal res flow 0 n "" "" act) as [H1 H2]. fold (do_handle ideal res flow n act) in H1, H2.
  split; [exact H1|]. split; [|intros i r j; apply next_spec_forward].
  rewrite Forall_map. eapply Forall_impl; [|exact H2].
  intros v (_ & nd & Hnd & He & _). rewrite Nat.sub_0_r in Hnd. eauto.
Qed.

Lemma thm_nothing_after_end : forall flow res n act,
  let o := do_handle ideal res flow n act in
  saw_end o = true ->
  exists k nd, nth_error flow k = Some nd /\
    ((is_end nd = true /\ Forall (fun v => fst v < k) (visits o)) \/
     (is_end nd = false /\ (exists a, In (k, a) (visits o)) /\ result o <> "" /\
      (target nd (result o) = "" \/ target nd (result o) = END))) /\
    Forall (fun v => fst v <= k) (visits o) /\
    forall tail', do_handle ideal res (firstn (S k) flow ++ tail') n act = o.
Proof.
  intros flow res n act o Hs. exact (loop_end_prefix ideal res flow 0 n "" "" act Hs).
Qed.

Lemma thm_result_is_last : forall flow res n act,
  let o := do_handle ideal res flow n act in
  ninv o = n + List.length (visits o) /\
  result o = match List.length (visits o) with 0 => "" | S k => res (n + k) end.
Proof. intros. apply do_handle_result. Qed.

Lemma thm_namespace_per_node : forall flow res n act,
  let o := do_handle ideal res flow n act in
  Forall (fun v => exists nd, nth_error flow (fst v) = Some nd /\ is_end nd = false /\ snd v = eff_ns nd)
         (visits o).
Proof.
  intros flow res n act o.
  destruct (loop_visits ideal res flow 0 n "" "" act) as [_ H2]. fold (do_handle ideal res flow n act) in H2.
  eapply Forall_impl; [|exact H2].
  intros v (_ & nd & Hnd & He & Hns). rewrite Nat.sub_0_r in Hnd. eauto.
Qed.

Lemma thm_before_after : forall res before main after n act,
  let ob := side_run ideal res before n act in
  let om := do_handle ideal res main (n_after ob n) (act_after ob act) in
  let oa := side_run ideal res after (ninv om) (active om) in
  let h := hba ideal res before main after n act in
  (ended ob = true ->
     hvisits h = tagv_opt 0 ob /\ hsaw_end h = true /\ hresult h = res_after ob "" /\ hninv h = n_after ob n) /\
  (ended ob = false -> saw_end om = true ->
     hvisits h = tagv_opt 0 ob ++ tagv 1 om /\ hsaw_end h = true /\ hresult h = result om /\ hninv h = ninv om) /\
  (ended ob = false -> saw_end om = false ->
     hvisits h = tagv_opt 0 ob ++ tagv 1 om ++ tagv_opt 2 oa /\ hsaw_end h = ended oa /\
     hresult h = res_after oa (result om) /\ hninv h = n_after oa (ninv om)).
Proof. intros. apply hba_composition. Qed.

Lemma thm_before_after_result : forall kinds res (before : option (list decl * list node)) dm main after n act,
  valid_opt kinds before -> validate kinds dm main = true ->
  let h := hba ideal res (option_map snd before) main after n act in
  hninv h = n + List.length (hvisits h) /\
  hresult h = match List.length (hvisits h) with 0 => "" | S k => res (n + k) end.
Proof.
  intros kinds res before dm main after n act Hb Hm. apply hba_result.
  - destruct before as [[db b]|]; simpl in *; auto. eapply valid_never_falls_off; eauto.
  - intros _. eapply valid_never_falls_off; eauto.
Qed.

Lemma thm_validate_sound : forall kinds ds flow,
  validate kinds ds flow = true ->
  (forall i nd r, nth_error flow i = Some nd -> is_end nd = false ->
     next_spec ideal flow i r <> SFell /\
     (r <> "" -> target nd r <> "" -> target nd r <> END ->
        exists j, next_spec ideal flow i r = SRun j /\ first_later_named flow i j (target nd r) /\
                  forall j', later_named flow i j' (target nd r) -> j' = j)) /\
  (forall res n act, fin_of (do_handle ideal res flow n act) <> SFell).
Proof.
  intros kinds ds flow Hv. split.
  - apply (valid_jump_found kinds ds flow Hv).
  - intros. eapply valid_never_falls_off; eauto.
Qed.

Lemma thm_reuse_ok : forall kinds ds,
  (forall flow, validate kinds ds flow = true ->
     forall i j ndi ndj, nth_error flow i = Some ndi -> nth_error flow j = Some ndj ->
       is_end ndi = false -> is_end ndj = false -> fname ndi = fname ndj ->
       bound ds ndi = Some (fname ndi) /\ bound ds ndj = Some (fname ndi)) /\
  (forall d (ans : list (string * string)), validate kinds ds [] = true -> In d ds ->
     validate kinds ds (map (reuse_node (dname d)) ans) = true).
Proof.
  intros kinds ds. split.
  - intros flow Hv. apply (reuse_bound kinds ds flow Hv).
  - intros. apply reuse_accepted; auto.
Qed.

(** ** the quirk flag is a real deviation: with [q_end_alias_target] on, a
    spec accepted by validation jumps onto an aliased END node instead of the
    unique later filter node its jumpIf names *)
Definition kf_kinds : kinds_t := [("K", ["r1"; "r2"])].
Definition kf_decls : list decl := [{| dname := "f1"; dkind := "K"; dwf := true |}].
Definition kf_flow : list node :=
  [ {| fname := "f1"; falias := ""; fns := ""; jumpif := [("r1", "t")] |};
    {| fname := END; falias := "t"; fns := ""; jumpif := [] |};
    {| fname := "f1"; falias := "t"; fns := ""; jumpif := [] |} ].
Lemma thm_refuted_q_end_alias_target :
  exists kinds ds flow res,
    validate kinds ds flow = true /\
    (* ideal: the jump reaches node 2, the only later filter node named "t" *)
    next_spec ideal flow 0 (res 0) = SRun 2 /\
    map fst (visits (do_handle ideal res flow 0 DEFAULT_NS)) = [0; 2] /\
    (* flag on: the pipeline ends on the aliased END node, node 2 never runs *)
    next_spec quirky flow 0 (res 0) = SEnd /\
    map fst (visits (do_handle quirky res flow 0 DEFAULT_NS)) = [0] /\
    saw_end (do_handle quirky res flow 0 DEFAULT_NS) = true.
Proof.
  exists kf_kinds, kf_decls, kf_flow, (fun n => match n with 0 => "r1" | _ => "" end).
  vm_compute. repeat split; reflexivity.
Qed.

(** ** non-vacuity: a valid spec with filter reuse, aliases, an END node that is
    jumped over, namespaces; its run under a concrete result script *)
Definition nv_kinds : kinds_t := [("KA", ["r1"; "r2"]); ("KB", ["r2"; "r3"])].
Definition nv_decls : list decl :=
  [{| dname := "f1"; dkind := "KA"; dwf := true |}; {| dname := "f2"; dkind := "KB"; dwf := true |}].
Definition nv_flow : list node :=
  [ {| fname := "f1"; falias := ""; fns := ""; jumpif := [("r1", "b"); ("r2", END)] |};
    {| fname := END; falias := ""; fns := ""; jumpif := [] |};
    {| fname := "f2"; falias := "a"; fns := "n1"; jumpif := [] |};
    {| fname := "f2"; falias := "b"; fns := "n2"; jumpif := [("r3", "c")] |};
    {| fname := "f1"; falias := "x"; fns := ""; jumpif := [] |};
    {| fname := "f1"; falias := "c"; fns := ""; jumpif := [] |} ].
Definition nv_res (n : nat) : string := match n with 0 => "r1" | 1 => "r3" | _ => "" end.

Example nonvacuous :
  validate nv_kinds nv_decls nv_flow = true /\
  visits (do_handle ideal nv_res nv_flow 0 DEFAULT_NS) = [(0, "DEFAULT"); (3, "n2"); (5, "DEFAULT")] /\
  saw_end (do_handle ideal nv_res nv_flow 0 DEFAULT_NS) = false /\
  fin_of (do_handle ideal nv_res nv_flow 0 DEFAULT_NS) = SDone /\
  (* an unmapped result ends the pipeline, nothing else runs *)
  visits (do_handle ideal (fun _ => "r1") nv_flow 0 DEFAULT_NS) = [(0, "DEFAULT"); (3, "n2")] /\
  saw_end (do_handle ideal (fun _ => "r1") nv_flow 0 DEFAULT_NS) = true /\
  (* an END in the before flow stops main and after *)
  hvisits (hba ideal (fun _ => "r2") (Some nv_flow) nv_flow (Some nv_flow) 0 DEFAULT_NS) = [(0, 0, "DEFAULT")] /\
  (* invalid: backward target, duplicated target, undeclared result *)
  validate nv_kinds nv_decls [ {| fname := "f1"; falias := ""; fns := ""; jumpif := [] |};
                               {| fname := "f2"; falias := ""; fns := ""; jumpif := [("r2", "f1")] |} ] = false /\
  validate nv_kinds nv_decls [ {| fname := "f1"; falias := ""; fns := ""; jumpif := [("r1", "x")] |};
                               {| fname := "f2"; falias := "x"; fns := ""; jumpif := [] |};
                               {| fname := "f2"; falias := "x"; fns := ""; jumpif := [] |} ] = false /\
  validate nv_kinds nv_decls [ {| fname := "f1"; falias := ""; fns := ""; jumpif := [("r3", END)] |} ] = false.
Proof. vm_compute. repeat split; reflexivity. Qed.
