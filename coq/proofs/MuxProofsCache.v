(** Route cache (C12): for the defect-free flag set [ideal] the cached router is
    transparent for every request sequence and every eviction behaviour; one
    refutation per defect flag.  Mux-level C05 clauses on top (with the cache). *)
From EG.lib Require Import Base.
From EG.model Require Import Mux.
From EG.proofs Require Import MuxProofs.
Open Scope string_scope.

Lemma key_eqb_eq : forall a b : key, key_eqb a b = true <-> a = b.
Proof.
  intros [[a1 a2] a3] [[b1 b2] b3]. unfold key_eqb. cbn. split.
  - intro H. apply andb_true_iff in H as [H H3]. apply andb_true_iff in H as [H1 H2].
    apply String.eqb_eq in H1, H2, H3. now subst.
  - intro H. inversion H; subst. now rewrite !String.eqb_refl.
Qed.

Lemma key_eqb_refl : forall a, key_eqb a a = true.
Proof. intro a. now apply key_eqb_eq. Qed.

Definition same_key (rq1 rq2 : request) : Prop :=
  rq_host rq1 = rq_host rq2 /\ rq_method rq1 = rq_method rq2 /\ rq_path rq1 = rq_path rq2.

(** the ideal key is injective on (host, method, path) *)
Lemma key_injective : forall rq1 rq2, mk_key ideal rq1 = mk_key ideal rq2 <-> same_key rq1 rq2.
Proof.
  intros rq1 rq2. unfold mk_key, same_key. cbn. split.
  - intro H. inversion H. auto.
  - intros (H1 & H2 & H3). now rewrite H1, H2, H3.
Qed.

(** *** cache algebra *)
Lemma clookup_evict : forall keep k c,
  clookup k (evict keep c) = if keep k then clookup k c else None.
Proof.
  intros keep k c. unfold evict. induction c as [|[k' v'] c IH]; cbn.
  - now destruct (keep k).
  - destruct (keep k') eqn:Ek'; cbn.
    + destruct (key_eqb k k') eqn:E.
      * apply key_eqb_eq in E. subst. now rewrite Ek'.
      * exact IH.
    + rewrite IH. destruct (key_eqb k k') eqn:E; [|reflexivity].
      apply key_eqb_eq in E. subst. now rewrite Ek'.
Qed.

Lemma clookup_cput : forall k k0 v0 c,
  clookup k (cput k0 v0 c) = if key_eqb k k0 then Some v0 else clookup k c.
Proof.
  intros k k0 v0 c. unfold cput, cremove. cbn [clookup].
  destruct (key_eqb k k0) eqn:E; [reflexivity|].
  change (filter (fun kv => negb (key_eqb k0 (fst kv))) c) with (evict (fun x => negb (key_eqb k0 x)) c).
  rewrite clookup_evict.
  destruct (key_eqb k0 k) eqn:E2; [|reflexivity].
  apply key_eqb_eq in E2. subst. rewrite key_eqb_refl in E. discriminate.
Qed.

Section CacheProofs.
  Variable re_match : string -> string -> bool.
  Variable re_replace : string -> string -> string -> string.
  Variable ip_allow : N -> string -> bool.

  Local Notation host_match := (host_match re_match).
  Local Notation path_match := (path_match re_match).
  Local Notation headers_match := (headers_match re_match).
  Local Notation allow_all := (allow_all ip_allow).
  Local Notation paths_dec := (paths_dec re_match).
  Local Notation rules_dec := (rules_dec re_match ip_allow).
  Local Notation search_dec := (search_dec re_match ip_allow).
  Local Notation result_of := (result_of ip_allow).
  Local Notation search_nocache := (search_nocache re_match ip_allow).
  Local Notation denied := (denied re_match ip_allow).
  Local Notation hit_result := (hit_result ip_allow).
  Local Notation search_cached := (search_cached re_match ip_allow).
  Local Notation dispatch := (dispatch re_replace).
  Local Notation serve_nocache := (serve_nocache re_match re_replace ip_allow).
  Local Notation step := (step re_match re_replace ip_allow).
  Local Notation run_cached := (run_cached re_match re_replace ip_allow).

  (** *** requests with the same key traverse the rule set alike *)
  Lemma host_match_same : forall r rq1 rq2, same_key rq1 rq2 -> host_match r rq1 = host_match r rq2.
  Proof. intros r rq1 rq2 (H & _ & _). unfold Mux.host_match. now rewrite H. Qed.

  Lemma path_match_same : forall p rq1 rq2, same_key rq1 rq2 -> path_match p rq1 = path_match p rq2.
  Proof. intros p rq1 rq2 (_ & _ & H). unfold Mux.path_match. now rewrite H. Qed.

  Lemma method_match_same : forall p rq1 rq2, same_key rq1 rq2 -> method_match p rq1 = method_match p rq2.
  Proof. intros p rq1 rq2 (_ & H & _). unfold method_match. now rewrite H. Qed.

  (** headerMismatch is monotone *)
  Lemma paths_dec_hm_mono : forall rq ps mm,
    match paths_dec rq ps true mm with PHit _ hm' => hm' = true | PNone hm' _ => hm' = true end.
  Proof.
    intros rq ps. induction ps as [|a ps IH]; intro mm; cbn [Mux.paths_dec]; [reflexivity|].
    destruct (path_match a rq); cbn [negb]; [|apply IH].
    destruct (method_match a rq); cbn [negb]; [|apply IH].
    destruct (no_headers a); [reflexivity|].
    destruct (headers_match a rq); cbn [negb]; [reflexivity | apply IH].
  Qed.

  Lemma paths_dec_stable_hit : forall rq1 rq2 ps hm mm p,
    same_key rq1 rq2 ->
    paths_dec rq1 ps hm mm = PHit p false -> no_headers p = true ->
    hm = false /\ paths_dec rq2 ps false mm = PHit p false.
  Proof.
    intros rq1 rq2 ps hm mm p Hk. revert hm mm.
    induction ps as [|a ps IH]; intros hm mm H Hp; cbn [Mux.paths_dec] in *; [discriminate|].
    rewrite <- (path_match_same a rq1 rq2 Hk), <- (method_match_same a rq1 rq2 Hk).
    destruct (path_match a rq1); cbn [negb] in *; [|now apply IH].
    destruct (method_match a rq1); cbn [negb] in *; [|now apply IH].
    destruct (no_headers a) eqn:Ea.
    - inversion H; subst. split; reflexivity.
    - destruct (headers_match a rq1); cbn [negb] in *.
      + inversion H; subst. rewrite Hp in Ea. discriminate.
      + pose proof (paths_dec_hm_mono rq1 ps mm) as M. rewrite H in M. discriminate.
  Qed.

  Lemma paths_dec_stable_none : forall rq1 rq2 ps hm mm mm',
    same_key rq1 rq2 ->
    paths_dec rq1 ps hm mm = PNone false mm' ->
    hm = false /\ paths_dec rq2 ps false mm = PNone false mm'.
  Proof.
    intros rq1 rq2 ps hm mm mm' Hk. revert hm mm.
    induction ps as [|a ps IH]; intros hm mm H; cbn [Mux.paths_dec] in *.
    - inversion H; subst. split; reflexivity.
    - rewrite <- (path_match_same a rq1 rq2 Hk), <- (method_match_same a rq1 rq2 Hk).
      destruct (path_match a rq1); cbn [negb] in *; [|now apply IH].
      destruct (method_match a rq1); cbn [negb] in *; [|now apply IH].
      destruct (no_headers a); [discriminate|].
      destruct (headers_match a rq1); cbn [negb] in *; [discriminate|].
      pose proof (paths_dec_hm_mono rq1 ps mm) as M. rewrite H in M. discriminate.
  Qed.

  Lemma rules_dec_hm_mono : forall rq rs mm,
    match rules_dec rq rs true mm with
    | DHit _ _ _ hm' => hm' = true | DDenied => True | DEnd hm' _ _ => hm' = true end.
  Proof.
    intros rq rs. induction rs as [|r t IH]; intro mm; cbn [Mux.rules_dec]; [reflexivity|].
    destruct (host_match r rq); cbn [negb]; [|apply IH].
    destruct (allow_all (fl (ru_filter r)) rq); cbn [negb]; [|exact I].
    pose proof (paths_dec_hm_mono rq (ru_paths r) mm) as M.
    destruct (paths_dec rq (ru_paths r) true mm) as [p hm'|hm' mm']; [exact M|].
    subst hm'. specialize (IH mm'). destruct (rules_dec rq t true mm'); cbn; auto.
  Qed.

  Lemma allow_all_app' : forall a b rq, allow_all (a ++ b)%list rq = allow_all a rq && allow_all b rq.
  Proof. intros. apply (allow_all_app ip_allow). Qed.

  (** a header-less route found without any header mismatch: every request with the same key
      reaches the same entry through the same filters *)
  Lemma rules_dec_stable_hit : forall rq1 rq2 rs hm mm p own vis,
    same_key rq1 rq2 ->
    rules_dec rq1 rs hm mm = DHit p own vis false -> no_headers p = true ->
    hm = false /\
    result_of rq2 (rules_dec rq2 rs false mm) =
      if allow_all (vis ++ fl (pe_filter p))%list rq2 then Route p else Status 403.
  Proof.
    intros rq1 rq2 rs hm mm p own vis Hk. revert hm mm vis.
    induction rs as [|r t IH]; intros hm mm vis H Hp; cbn [Mux.rules_dec] in *; [discriminate|].
    rewrite <- (host_match_same r rq1 rq2 Hk).
    destruct (host_match r rq1); cbn [negb] in *; [|now apply IH].
    destruct (allow_all (fl (ru_filter r)) rq1); cbn [negb] in *; [|discriminate].
    destruct (paths_dec rq1 (ru_paths r) hm mm) as [p' hm'|hm' mm'] eqn:Ep.
    - inversion H; subst.
      destruct (paths_dec_stable_hit rq1 rq2 _ _ _ _ Hk Ep Hp) as [-> E2]. split; [reflexivity|].
      rewrite allow_all_app'.
      destruct (allow_all (fl (ru_filter r)) rq2); cbn [negb andb]; [|reflexivity].
      rewrite E2. reflexivity.
    - destruct (rules_dec rq1 t hm' mm') as [p' own' vis' hm''| |] eqn:Et; cbn [add_vis] in H; try discriminate.
      inversion H; subst.
      destruct (IH _ _ _ Et Hp) as [-> IH2].
      destruct (paths_dec_stable_none rq1 rq2 _ _ _ _ Hk Ep) as [-> E2]. split; [reflexivity|].
      rewrite <- app_assoc, allow_all_app'.
      destruct (allow_all (fl (ru_filter r)) rq2); cbn [negb andb]; [|reflexivity].
      rewrite E2, (result_of_add_vis ip_allow). exact IH2.
  Qed.

  Lemma rules_dec_stable_end : forall rq1 rq2 rs hm mm mm' vis,
    same_key rq1 rq2 ->
    rules_dec rq1 rs hm mm = DEnd false mm' vis ->
    hm = false /\
    result_of rq2 (rules_dec rq2 rs false mm) =
      if allow_all vis rq2 then Status (fail_code false mm') else Status 403.
  Proof.
    intros rq1 rq2 rs hm mm mm' vis Hk. revert hm mm vis.
    induction rs as [|r t IH]; intros hm mm vis H; cbn [Mux.rules_dec] in *.
    - inversion H; subst. split; reflexivity.
    - rewrite <- (host_match_same r rq1 rq2 Hk).
      destruct (host_match r rq1); cbn [negb] in *; [|now apply IH].
      destruct (allow_all (fl (ru_filter r)) rq1); cbn [negb] in *; [|discriminate].
      destruct (paths_dec rq1 (ru_paths r) hm mm) as [p' hm'|hm' mm''] eqn:Ep; [discriminate|].
      destruct (rules_dec rq1 t hm' mm'') as [p' own' vis' hm''| |hm2 mm2 vis2] eqn:Et; cbn [add_vis] in H; try discriminate.
      inversion H; subst.
      destruct (IH _ _ _ Et) as [-> IH2].
      destruct (paths_dec_stable_none rq1 rq2 _ _ _ _ Hk Ep) as [-> E2]. split; [reflexivity|].
      rewrite allow_all_app'.
      destruct (allow_all (fl (ru_filter r)) rq2); cbn [negb andb]; [|reflexivity].
      rewrite E2, (result_of_add_vis ip_allow). exact IH2.
  Qed.

  (** what the ideal miss branch stores answers every request with the same key correctly *)
  Lemma put_sound : forall sv rq1 rq2 v,
    same_key rq1 rq2 ->
    put_of ideal sv (search_dec sv rq1) = Some v ->
    hit_result rq2 v = search_nocache sv rq2.
  Proof.
    intros sv rq1 rq2 v Hk H. unfold Mux.search_nocache, Mux.search_dec in *.
    destruct (allow_all (fl (sv_filter sv)) rq1); cbn [negb] in H; [|discriminate].
    destruct (rules_dec rq1 (sv_rules sv) false false) as [p own vis hm| |hm mm vis] eqn:Ed;
      cbn [add_vis put_of] in H; try discriminate.
    - cbn [ideal q_cache_headerless_after_header q_cache_rule_filter_skipped orb] in H.
      destruct (no_headers p) eqn:Hp; cbn [andb] in H; [|discriminate].
      destruct hm; cbn [negb] in H; [discriminate|]. inversion H; subst v. clear H.
      destruct (rules_dec_stable_hit rq1 rq2 _ _ _ _ _ _ Hk Ed Hp) as [_ E].
      unfold Mux.hit_result. cbn [cv_filters cv_res]. rewrite <- app_assoc, allow_all_app'.
      destruct (allow_all (fl (sv_filter sv)) rq2); cbn [negb andb]; [|reflexivity].
      rewrite (result_of_add_vis ip_allow). symmetry. exact E.
    - destruct hm; [discriminate|]. inversion H; subst v. clear H.
      cbn [ideal q_cache_status_before_ipfilter].
      destruct (rules_dec_stable_end rq1 rq2 _ _ _ _ _ Hk Ed) as [_ E].
      unfold Mux.hit_result. cbn [cv_filters cv_res]. rewrite allow_all_app'.
      destruct (allow_all (fl (sv_filter sv)) rq2); cbn [negb andb]; [|reflexivity].
      rewrite (result_of_add_vis ip_allow). symmetry. exact E.
  Qed.

  (** *** the invariant: every cached value answers every request carrying its key like the
      cache-less router (up to re-evaluating the IP filters stored with it) *)
  Definition cache_sound (sv : server) (c : cache) : Prop :=
    forall k v, clookup k c = Some v ->
    forall rq, mk_key ideal rq = k -> hit_result rq v = search_nocache sv rq.

  Lemma cache_sound_empty : forall sv, cache_sound sv [].
  Proof. intros sv k v H. discriminate. Qed.

  Lemma cache_sound_evict : forall sv keep c, cache_sound sv c -> cache_sound sv (evict keep c).
  Proof.
    intros sv keep c Hc k v H. rewrite clookup_evict in H.
    destruct (keep k); [now apply Hc | discriminate].
  Qed.

  Lemma hit_equals_miss : forall sv c rq v,
    cache_sound sv c -> clookup (mk_key ideal rq) c = Some v ->
    fst (search_cached ideal sv c rq) = search_nocache sv rq.
  Proof.
    intros sv c rq v Hc H. unfold Mux.search_cached. rewrite H. cbn [fst]. now apply (Hc _ _ H).
  Qed.

  Lemma search_cached_sound : forall sv c rq,
    cache_sound sv c ->
    fst (search_cached ideal sv c rq) = search_nocache sv rq /\
    cache_sound sv (snd (search_cached ideal sv c rq)).
  Proof.
    intros sv c rq Hc. unfold Mux.search_cached.
    destruct (clookup (mk_key ideal rq) c) as [v|] eqn:El; cbn [fst snd].
    - split; [now apply (Hc _ _ El) | exact Hc].
    - split; [reflexivity|].
      destruct (put_of ideal sv (search_dec sv rq)) as [v|] eqn:Ep; [|exact Hc].
      intros k v' H rq2 Hk. rewrite clookup_cput in H.
      destruct (key_eqb k (mk_key ideal rq)) eqn:E.
      + inversion H; subst v'. apply key_eqb_eq in E. subst k.
        apply key_injective in Hk. apply (put_sound sv rq rq2 v); [|exact Ep].
        destruct Hk as (H1 & H2 & H3). repeat split; congruence.
      + now apply (Hc _ _ H).
  Qed.

  Lemma step_sound : forall sv c keep rq,
    cache_sound sv c ->
    fst (step ideal sv c keep rq) = serve_nocache sv rq /\ cache_sound sv (snd (step ideal sv c keep rq)).
  Proof.
    intros sv c keep rq Hc. unfold Mux.step.
    pose proof (search_cached_sound sv (evict keep c) rq (cache_sound_evict sv keep c Hc)) as [H1 H2].
    destruct (search_cached ideal sv (evict keep c) rq) as [r c'] eqn:E. cbn [fst snd] in *.
    split; [|exact H2]. unfold Mux.serve_nocache. now rewrite H1.
  Qed.

  (** C12: any sound cache (in particular the empty one), any eviction behaviour, any request sequence *)
  Theorem transparent_from : forall sv steps c,
    cache_sound sv c ->
    run_cached ideal sv c steps = map (fun s => serve_nocache sv (snd s)) steps.
  Proof.
    intros sv steps. induction steps as [|[keep rq] t IH]; intros c Hc; cbn [Mux.run_cached map]; [reflexivity|].
    pose proof (step_sound sv c keep rq Hc) as [H1 H2].
    destruct (step ideal sv c keep rq) as [o c'] eqn:E. cbn [fst snd] in *.
    rewrite H1, (IH c' H2). reflexivity.
  Qed.

  Theorem transparent : forall sv (steps : list ((key -> bool) * request)),
    run_cached ideal sv [] steps = map (fun s => serve_nocache sv (snd s)) steps.
  Proof. intros sv steps. apply transparent_from, cache_sound_empty. Qed.

  (** transparency across reloads: a reload installs the new spec with an empty cache *)
  Theorem transparent_ops_from : forall ops sv c,
    cache_sound sv c ->
    run_ops re_match re_replace ip_allow ideal sv c ops = ref_ops re_match re_replace ip_allow sv ops.
  Proof.
    induction ops as [|[keep rq|sv'|m] t IH]; intros sv c Hc; cbn [run_ops ref_ops]; [reflexivity| | |].
    - pose proof (step_sound sv c keep rq Hc) as [H1 H2].
      destruct (step ideal sv c keep rq) as [o c'] eqn:E. cbn [fst snd] in *.
      rewrite H1, (IH sv c' H2). reflexivity.
    - apply IH, cache_sound_empty.
    - apply IH. exact Hc.   (* routing does not read the mapper: the cache stays sound *)
  Qed.

  Theorem transparent_ops : forall sv ops,
    run_ops re_match re_replace ip_allow ideal sv [] ops = ref_ops re_match re_replace ip_allow sv ops.
  Proof. intros sv ops. apply transparent_ops_from, cache_sound_empty. Qed.

  (** the invariant holds along every run *)
  Fixpoint run_cache (q : quirks) (sv : server) (c : cache) (steps : list ((key -> bool) * request)) : cache :=
    match steps with
    | [] => c
    | (keep, rq) :: t => run_cache q sv (snd (step q sv c keep rq)) t
    end.

  Theorem cache_sound_invariant : forall sv steps,
    cache_sound sv (run_cache ideal sv [] steps).
  Proof.
    intros sv steps. assert (H : forall c, cache_sound sv c -> cache_sound sv (run_cache ideal sv c steps)).
    { induction steps as [|[keep rq] t IH]; intros c Hc; cbn [run_cache]; [exact Hc|].
      apply IH. now apply step_sound. }
    apply H, cache_sound_empty.
  Qed.

  (** an earlier history can never change how a later request is answered *)
  Theorem no_cross_request_influence : forall sv h1 h2 keep1 keep2 rq,
    last (run_cached ideal sv [] (h1 ++ [(keep1, rq)])%list) Panicked =
    last (run_cached ideal sv [] (h2 ++ [(keep2, rq)])%list) Panicked.
  Proof.
    intros sv h1 h2 keep1 keep2 rq. rewrite !transparent, !map_app. cbn [map snd].
    rewrite !last_last. reflexivity.
  Qed.

  (** *** mux-level C05 clauses, with the cache, for every history and eviction behaviour *)
  Theorem denied_never_dispatched : forall sv (steps : list ((key -> bool) * request)),
    Forall2 (fun s o => denied sv (snd s) = true -> o = Failed 403)
            steps (run_cached ideal sv [] steps).
  Proof.
    intros sv steps. rewrite transparent. induction steps as [|s t IH]; cbn [map]; constructor; [|exact IH].
    intro H. now apply denied_403_nocache.
  Qed.

  Theorem not_denied_unaffected : forall sv (steps : list ((key -> bool) * request)),
    Forall2 (fun s o => denied sv (snd s) = false -> o = serve_nocache (erase_filters sv) (snd s))
            steps (run_cached ideal sv [] steps).
  Proof.
    intros sv steps. rewrite transparent. induction steps as [|s t IH]; cbn [map]; constructor; [|exact IH].
    intro H. now apply not_denied_unaffected_nocache.
  Qed.
End CacheProofs.

(** *** refutations: each defect flag alone breaks transparency (witnesses of DESIGN 8.1) *)
Definition w_re (p s : string) : bool := false.
Definition w_rep (p s t : string) : string := s.
(* filter 0 (server) blocks 10.0.0.9; filter 1000 (rule 1) blocks 10.0.0.8 *)
Definition w_ip (f : N) (ip : string) : bool :=
  negb ((N.eqb f 0 && String.eqb ip "10.0.0.9") || (N.eqb f 1000 && String.eqb ip "10.0.0.8")).

Definition w_entry (path backend : string) (hs : list header_cond) : path_entry :=
  {| pe_path := path; pe_prefix := ""; pe_regexp := ""; pe_methods := []; pe_rewrite := "";
     pe_backend := backend; pe_headers := hs; pe_match_all := false; pe_filter := None; pe_body := 0%Z |}.

Definition w_sv (with_header_entry : bool) : server :=
  {| sv_filter := Some 0%N;
     sv_rules :=
       [ {| ru_host := "a.com"; ru_host_re := ""; ru_filter := Some 1000%N;
            ru_paths := [w_entry "/nomatch" "C" []] |};
         {| ru_host := "a.com"; ru_host_re := ""; ru_filter := None;
            ru_paths := (if with_header_entry
                         then [w_entry "/a" "A" [ {| hc_key := "X"; hc_values := ["v1"]; hc_regexp := "" |} ]]
                         else []) ++ [w_entry "/a" "B" []] |} ];
     sv_backends := ["A"; "B"; "C"]; sv_body := 0%Z; sv_xff := false |}.

Definition w_rq (host method path : string) (hs : list (string * string)) (ip : string) : request :=
  {| rq_host := host; rq_method := method; rq_path := path; rq_rawpath := ""; rq_headers := hs; rq_ip := ip; rq_body := 0%Z; rq_sni := "" |}.

Definition flag1 : quirks := {| q_cache_key_concat := true; q_cache_headerless_after_header := false;
  q_cache_status_before_ipfilter := false; q_cache_rule_filter_skipped := false |}.
Definition flag2 : quirks := {| q_cache_key_concat := false; q_cache_headerless_after_header := true;
  q_cache_status_before_ipfilter := false; q_cache_rule_filter_skipped := false |}.
Definition flag3 : quirks := {| q_cache_key_concat := false; q_cache_headerless_after_header := false;
  q_cache_status_before_ipfilter := true; q_cache_rule_filter_skipped := false |}.
Definition flag4 : quirks := {| q_cache_key_concat := false; q_cache_headerless_after_header := false;
  q_cache_status_before_ipfilter := false; q_cache_rule_filter_skipped := true |}.

(** with flag set [q] some request sequence is answered differently with the cache than without
    (no eviction needed), while [ideal] answers the same sequence transparently *)
Definition refuted (q : quirks) : Prop :=
  exists re_match re_replace ip_allow sv (steps : list ((key -> bool) * request)),
    run_cached re_match re_replace ip_allow q sv [] steps
      <> map (fun s => serve_nocache re_match re_replace ip_allow sv (snd s)) steps /\
    run_cached re_match re_replace ip_allow ideal sv [] steps
      = map (fun s => serve_nocache re_match re_replace ip_allow sv (snd s)) steps.

Definition w_steps (reqs : list request) : list ((key -> bool) * request) :=
  map (fun rq => (fun _ : key => true, rq)) reqs.

(** `GET a.com/a` then `mGET a.co/a`: the second is answered B from the colliding entry instead of 404 *)
Lemma refuted_key_concat : refuted flag1.
Proof.
  exists w_re, w_rep, w_ip, (w_sv false),
    (w_steps [w_rq "a.com" "GET" "/a" [] "10.0.1.1"; w_rq "a.co" "mGET" "/a" [] "10.0.1.1"]).
  split; [vm_compute; discriminate | vm_compute; reflexivity].
Qed.

(** `GET a.com/a` without X caches B behind the header-conditioned entry; with `X: v1` B instead of A *)
Lemma refuted_headerless_after_header : refuted flag2.
Proof.
  exists w_re, w_rep, w_ip, (w_sv true),
    (w_steps [w_rq "a.com" "GET" "/a" [] "10.0.1.1"; w_rq "a.com" "GET" "/a" [("X", "v1")] "10.0.1.1"]).
  split; [vm_compute; discriminate | vm_compute; reflexivity].
Qed.

(** `GET a.com/zz` caches 404; the client blocked by the server filter gets 404 instead of 403 *)
Lemma refuted_status_before_ipfilter : refuted flag3.
Proof.
  exists w_re, w_rep, w_ip, (w_sv true),
    (w_steps [w_rq "a.com" "GET" "/zz" [] "10.0.1.1"; w_rq "a.com" "GET" "/zz" [] "10.0.0.9"]).
  split; [vm_compute; discriminate | vm_compute; reflexivity].
Qed.

(** `GET a.com/a` caches B (rule 2); the client blocked by rule 1's filter is dispatched instead of 403 *)
Lemma refuted_rule_filter_skipped : refuted flag4.
Proof.
  exists w_re, w_rep, w_ip, (w_sv false),
    (w_steps [w_rq "a.com" "GET" "/a" [] "10.0.1.1"; w_rq "a.com" "GET" "/a" [] "10.0.0.8"]).
  split; [vm_compute; discriminate | vm_compute; reflexivity].
Qed.
