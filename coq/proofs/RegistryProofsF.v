(** C20 - soundness of the trace-level property checker [prop_obs] of
    model/RegistryCheck.v: whenever the checker accepts an observed history
    (snapshots, lifecycle log, per-snapshot live sets) the history satisfies the
    property, stated declaratively with explicit quantifiers over positions.

    Part 1: declarative vocabulary + the word of the lifecycle automaton
    satisfies it. *)
From EG.lib Require Import Base.
From EG.model Require Import Registry RegistryCheck.
From EG.proofs Require Import RegistryProofs RegistryProofsB RegistryProofsC RegistryProofsD.
Open Scope N_scope.

(** *** declarative vocabulary

    [news] = what one consumer is meant to see of one name, snapshot by snapshot
    (position i = the i-th applied snapshot; [None] = the name is absent). *)
Definition view (news : list (option spec)) (i : nat) : option spec := nth i news None.
Definition before (news : list (option spec)) (i : nat) : option spec :=
  match i with O => None | S j => view news j end.

Definition ospec_eqb (a b : option spec) : bool :=
  match a, b with
  | None, None => true
  | Some x, Some y => spec_eqb x y
  | _, _ => false
  end.

(** position of the latest change of the name's config at or before position [i]: the start of
    the maximal run of identical config bytes that contains [i] *)
Fixpoint run_start (news : list (option spec)) (i : nat) : nat :=
  match i with
  | O => O
  | S j => if ospec_eqb (view news j) (view news (S j)) then run_start news j else S j
  end.

(** the generation that must be live after snapshot [i]: the latest config, created when that
    config was last introduced *)
Definition gen (news : list (option spec)) (i : nat) : option ent :=
  match view news i with
  | Some s => Some {| e_spec := s; e_born := N.of_nat (run_start news i) |}
  | None => None
  end.
Definition gen_before (news : list (option spec)) (i : nat) : option ent :=
  match i with O => None | S j => gen news j end.

(** the callbacks of one name by one consumer that carry snapshot index [i], in log order *)
Definition events_at (i : nat) (W : list (N * call)) : list call :=
  map snd (filter (fun x => fst x =? N.of_nat i) W).

Definition mk (s : spec) (i : nat) : ent := {| e_spec := s; e_born := N.of_nat i |}.

(** what snapshot [i] must do to name [n]: one clause per case of the property *)
Definition step_ok (n : name) (news : list (option spec)) (i : nat) (ev : list call) : Prop :=
  (* the live generation before the snapshot carries the previous config *)
  (forall p, before news i = Some p -> exists g, gen_before news i = Some g /\ e_spec g = p) /\
  (* absent and stays absent: nothing *)
  (before news i = None -> view news i = None -> ev = []) /\
  (* appears (also: REappears, even with the bytes it had before it went away): one Init of a
     fresh generation *)
  (forall s, before news i = None -> view news i = Some s -> ev = [Init n (mk s i)]) /\
  (* disappears: one Close, of the live generation *)
  (forall g, gen_before news i = Some g -> view news i = None -> ev = [Close n g]) /\
  (* config bytes unchanged: untouched *)
  (forall p, before news i = Some p -> view news i = Some p -> ev = []) /\
  (* config changed, same kind: one Inherit, predecessor = the live generation *)
  (forall p s g, before news i = Some p -> gen_before news i = Some g -> view news i = Some s ->
                 p <> s -> same_kind p s = true -> ev = [Inherit n (mk s i) g]) /\
  (* kind changed: the old generation is closed, THEN the new one is initialised *)
  (forall p s g, before news i = Some p -> gen_before news i = Some g -> view news i = Some s ->
                 same_kind p s = false -> ev = [Close n g; Init n (mk s i)]).

(** *** equality tests are exact *)
Lemma spec_eqb_iff a b : spec_eqb a b = true <-> a = b.
Proof. split; [apply spec_eqb_eq|intros ->; apply spec_eqb_refl]. Qed.

Lemma ospec_eqb_iff a b : ospec_eqb a b = true <-> a = b.
Proof.
  destruct a as [x|], b as [y|]; cbn; try (split; [discriminate|discriminate]); try tauto.
  rewrite spec_eqb_iff. split; [intros ->; reflexivity|intros H; inversion H; reflexivity].
Qed.

Lemma ent_eqb_iff a b : ent_eqb a b = true <-> a = b.
Proof.
  destruct a as [s t], b as [s' t']. unfold ent_eqb. cbn [e_spec e_born].
  rewrite andb_true_iff, spec_eqb_iff, N.eqb_eq. split; [intros [-> ->]; reflexivity|intros H; inversion H; auto].
Qed.

Lemma call_eqb_iff a b : call_eqb a b = true <-> a = b.
Proof.
  destruct a, b; cbn; try (split; discriminate);
    rewrite ?andb_true_iff, ?ent_eqb_iff, ?N.eqb_eq;
    (split; [intuition congruence|intros H; inversion H; auto]).
Qed.

Lemma scall_eqb_iff a b : scall_eqb a b = true <-> a = b.
Proof.
  destruct a as [t c], b as [t' c']. unfold scall_eqb. cbn [fst snd].
  rewrite andb_true_iff, N.eqb_eq, call_eqb_iff. split; [intros [-> ->]; reflexivity|intros H; inversion H; auto].
Qed.

Lemma nspec_eqb_iff a b : nspec_eqb a b = true <-> a = b.
Proof.
  destruct a as [t c], b as [t' c']. unfold nspec_eqb. cbn [fst snd].
  rewrite andb_true_iff, N.eqb_eq, spec_eqb_iff. split; [intros [-> ->]; reflexivity|intros H; inversion H; auto].
Qed.

Lemma nent_eqb_iff a b : nent_eqb a b = true <-> a = b.
Proof.
  destruct a as [t c], b as [t' c']. unfold nent_eqb. cbn [fst snd].
  rewrite andb_true_iff, N.eqb_eq, ent_eqb_iff. split; [intros [-> ->]; reflexivity|intros H; inversion H; auto].
Qed.

(** *** the word of the automaton, position by position *)
Lemma spec_log_cons t n old x r :
  spec_log t n old (x :: r) =
  (map (pair t) (fst (spec_calls t n old x)) ++ fst (spec_log (t + 1) n (snd (spec_calls t n old x)) r),
   snd (spec_log (t + 1) n (snd (spec_calls t n old x)) r)).
Proof.
  cbn [spec_log]. destruct (spec_calls t n old x) as [cs o']. cbn [fst snd].
  destruct (spec_log (t + 1) n o' r) as [l fin]. reflexivity.
Qed.

Lemma steps_range n : forall news t old x,
  In x (fst (spec_log t n old news)) -> t <= fst x /\ fst x < t + N.of_nat (List.length news).
Proof.
  induction news as [|a r IH]; intros t old x H.
  - cbn in H. contradiction.
  - rewrite spec_log_cons in H. cbn [fst] in H. apply in_app_or in H as [H|H].
    + apply in_map_iff in H as (c & <- & _). cbn [fst List.length]. lia.
    + apply IH in H. cbn [List.length]. lia.
Qed.

Lemma events_at_app i a b : events_at i (a ++ b) = events_at i a ++ events_at i b.
Proof. unfold events_at. rewrite filter_app, map_app. reflexivity. Qed.

Lemma events_at_none i W : (forall x, In x W -> fst x <> N.of_nat i) -> events_at i W = [].
Proof.
  unfold events_at. induction W as [|a r IH]; intros H; cbn; [reflexivity|].
  destruct (N.eqb_spec (fst a) (N.of_nat i)) as [E|E].
  - exfalso. apply (H a); [left; reflexivity|exact E].
  - apply IH. intros x Hx. apply H. right. exact Hx.
Qed.

Lemma events_at_all i cs : events_at i (map (pair (N.of_nat i)) cs) = cs.
Proof.
  unfold events_at. induction cs as [|c r IH]; cbn; [reflexivity|].
  rewrite N.eqb_refl. cbn. rewrite IH. reflexivity.
Qed.

(** the word splits at every position: earlier positions' events, this position's, later ones' *)
Lemma word_split n pre x post :
  let i := List.length pre in
  let st := snd (spec_log 0 n None pre) in
  let W := fst (spec_log 0 n None (pre ++ x :: post)) in
  let chunk := fst (spec_calls (N.of_nat i) n st x) in
  exists Wpre Wpost,
    W = Wpre ++ map (pair (N.of_nat i)) chunk ++ Wpost /\
    (forall y, In y Wpre -> fst y < N.of_nat i) /\
    (forall y, In y Wpost -> N.of_nat i < fst y) /\
    events_at i W = chunk.
Proof.
  intros i st W chunk.
  exists (fst (spec_log 0 n None pre)),
         (fst (spec_log (N.of_nat i + 1) n (snd (spec_calls (N.of_nat i) n st x)) post)).
  assert (EW : W = fst (spec_log 0 n None pre) ++ map (pair (N.of_nat i)) chunk
                   ++ fst (spec_log (N.of_nat i + 1) n (snd (spec_calls (N.of_nat i) n st x)) post)).
  { subst W. rewrite spec_log_app. cbn [fst N.add]. rewrite spec_log_cons. reflexivity. }
  assert (R1 : forall y, In y (fst (spec_log 0 n None pre)) -> fst y < N.of_nat i).
  { intros y Hy. apply steps_range in Hy. subst i. lia. }
  assert (R2 : forall y, In y (fst (spec_log (N.of_nat i + 1) n (snd (spec_calls (N.of_nat i) n st x)) post)) ->
                         N.of_nat i < fst y).
  { intros y Hy. apply steps_range in Hy. lia. }
  split; [exact EW|]. split; [exact R1|]. split; [exact R2|].
  rewrite EW, !events_at_app, events_at_all.
  rewrite (events_at_none i (fst (spec_log 0 n None pre))) by (intros y Hy; apply R1 in Hy; lia).
  rewrite events_at_none by (intros y Hy; apply R2 in Hy; lia).
  rewrite app_nil_r. reflexivity.
Qed.

(** *** the state of the automaton is the generation of the latest config *)
Lemma run_start_ext : forall i l1 l2,
  (forall k, (k <= i)%nat -> view l1 k = view l2 k) -> run_start l1 i = run_start l2 i.
Proof.
  induction i as [|j IH]; intros l1 l2 H; [reflexivity|].
  cbn [run_start]. rewrite (H j), (H (S j)) by lia.
  rewrite (IH l1 l2) by (intros k Hk; apply H; lia). reflexivity.
Qed.

Lemma gen_ext i l1 l2 : (forall k, (k <= i)%nat -> view l1 k = view l2 k) -> gen l1 i = gen l2 i.
Proof. intros H. unfold gen. rewrite (H i), (run_start_ext i l1 l2 H) by lia. reflexivity. Qed.

Definition gen_last (pre : list (option spec)) : option ent :=
  match List.length pre with O => None | S j => gen pre j end.

Lemma view_app1 l x k : (k < List.length l)%nat -> view (l ++ x) k = view l k.
Proof. intros H. unfold view. apply app_nth1. exact H. Qed.

Lemma view_app_mid l x r : view (l ++ x :: r) (List.length l) = x.
Proof. unfold view. rewrite app_nth2 by lia. rewrite Nat.sub_diag. reflexivity. Qed.

Lemma state_snoc n l x :
  snd (spec_log 0 n None (l ++ [x])) =
  snd (spec_calls (N.of_nat (List.length l)) n (snd (spec_log 0 n None l)) x).
Proof. rewrite spec_log_app. cbn [snd N.add]. rewrite spec_log_cons. reflexivity. Qed.

Lemma state_is_gen n : forall pre, snd (spec_log 0 n None pre) = gen_last pre.
Proof.
  induction pre as [|x l IH] using rev_ind; [reflexivity|].
  rewrite state_snoc, IH. unfold gen_last. rewrite app_length. cbn [List.length].
  replace (List.length l + 1)%nat with (S (List.length l)) by lia.
  unfold gen at 2. rewrite (view_app_mid l x []).
  destruct (List.length l) as [|j] eqn:El.
  - (* first position *)
    destruct l; [|discriminate]. cbn. destruct x as [s|]; reflexivity.
  - assert (Hv : view (l ++ [x]) j = view l j) by (apply view_app1; lia).
    assert (Hr : run_start (l ++ [x]) j = run_start l j).
    { apply run_start_ext. intros k Hk. apply view_app1. lia. }
    cbn [run_start]. rewrite Hv, Hr.
    replace (view (l ++ [x]) (S j)) with x by (rewrite <- El; symmetry; apply (view_app_mid l x [])).
    unfold gen, spec_calls. destruct (view l j) as [p|], x as [s|]; cbn [ospec_eqb e_spec]; try reflexivity.
    destruct (spec_eqb p s) eqn:E.
    + apply spec_eqb_eq in E. subst s. reflexivity.
    + destruct (same_kind p s); reflexivity.
Qed.

(** [run_start], with explicit quantifiers *)
Lemma run_start_spec news : forall i,
  (run_start news i <= i)%nat /\
  (forall k, (run_start news i <= k <= i)%nat -> view news k = view news i) /\
  (run_start news i = O \/ view news (run_start news i - 1) <> view news i).
Proof.
  induction i as [|j (IH1 & IH2 & IH3)].
  - cbn. split; [lia|]. split; [|left; reflexivity]. intros k Hk. replace k with O by lia. reflexivity.
  - cbn [run_start]. destruct (ospec_eqb (view news j) (view news (S j))) eqn:E.
    + apply ospec_eqb_iff in E. split; [lia|]. split.
      * intros k Hk. destruct (Nat.eq_dec k (S j)) as [->|Hne]; [reflexivity|].
        rewrite <- E. apply IH2. lia.
      * rewrite <- E. exact IH3.
    + split; [lia|]. split.
      * intros k Hk. replace k with (S j) by lia. reflexivity.
      * right. replace (S j - 1)%nat with j by lia. intros H. rewrite H in E.
        assert (T : ospec_eqb (view news (S j)) (view news (S j)) = true) by (apply ospec_eqb_iff; reflexivity).
        congruence.
Qed.

(** *** every position of the word satisfies [step_ok] *)
Lemma chunk_ok n pre x post :
  step_ok n (pre ++ x :: post) (List.length pre)
          (fst (spec_calls (N.of_nat (List.length pre)) n (snd (spec_log 0 n None pre)) x)).
Proof.
  set (news := pre ++ x :: post). set (i := List.length pre).
  assert (Hview : view news i = x) by apply view_app_mid.
  assert (Hgb : gen_before news i = snd (spec_log 0 n None pre)).
  { rewrite state_is_gen. unfold gen_before, gen_last. fold i. destruct i as [|j] eqn:Ei; [reflexivity|].
    apply gen_ext. intros k Hk. apply view_app1. lia. }
  assert (Hbg : gen_before news i = match before news i with
                                    | Some p => Some {| e_spec := p; e_born := N.of_nat (run_start news (i - 1)) |}
                                    | None => None end).
  { unfold gen_before, before. destruct i as [|j]; [reflexivity|].
    unfold gen. replace (S j - 1)%nat with j by lia. reflexivity. }
  rewrite <- Hgb. unfold step_ok. rewrite Hview. clear Hgb.
  destruct (before news i) as [p|] eqn:Eb; rewrite Hbg; unfold spec_calls, mk; fold i.
  - repeat split.
    + intros p' H. inversion H; subst p'. eexists. split; reflexivity.
    + discriminate.
    + discriminate.
    + intros g Hg Hx. inversion Hg; subst g. rewrite Hx. reflexivity.
    + intros p' H Hx. inversion H; subst p'. rewrite Hx. cbn [e_spec]. rewrite spec_eqb_refl. reflexivity.
    + intros p' s g H Hg Hx Hne Hk. inversion H; subst p'. inversion Hg; subst g. rewrite Hx. cbn [e_spec].
      destruct (spec_eqb p s) eqn:E; [apply spec_eqb_eq in E; contradiction|]. rewrite Hk. reflexivity.
    + intros p' s g H Hg Hx Hk. inversion H; subst p'. inversion Hg; subst g. rewrite Hx. cbn [e_spec].
      destruct (spec_eqb p s) eqn:E.
      * apply spec_eqb_eq in E. subst s. rewrite same_kind_refl in Hk. discriminate.
      * rewrite Hk. reflexivity.
  - repeat split; try discriminate.
    + intros _ Hx. rewrite Hx. reflexivity.
    + intros s _ Hx. rewrite Hx. reflexivity.
Qed.

(** the word of the automaton satisfies the declarative property at every position *)
Lemma spec_word_sound n news i :
  (i < List.length news)%nat ->
  let W := fst (spec_log 0 n None news) in
  step_ok n news i (events_at i W) /\
  (exists Wpre Wpost,
      W = Wpre ++ map (pair (N.of_nat i)) (events_at i W) ++ Wpost /\
      (forall y, In y Wpre -> fst y < N.of_nat i) /\
      (forall y, In y Wpost -> N.of_nat i < fst y)) /\
  snd (spec_log 0 n None (firstn (S i) news)) = gen news i.
Proof.
  intros Hi W.
  destruct (nth_split news None Hi) as (pre & post & En & Hl).
  fold (view news i) in En.
  destruct (word_split n pre (view news i) post) as (Wpre & Wpost & EW & R1 & R2 & Ev).
  rewrite <- En, Hl in *. cbv zeta in *. fold W in EW, Ev.
  pose proof (chunk_ok n pre (view news i) post) as Hc. rewrite <- En, Hl in Hc.
  split; [rewrite Ev; exact Hc|]. split.
  - exists Wpre, Wpost. rewrite Ev. auto.
  - rewrite state_is_gen. unfold gen_last.
    rewrite firstn_length_le by lia. apply gen_ext.
    intros k Hk. unfold view. clear -Hk. revert k i Hk.
    induction news as [|a r IH]; intros k i Hk; [destruct k; reflexivity|].
    destruct k as [|k]; [reflexivity|]. destruct i as [|i]; [lia|].
    cbn [firstn nth]. apply (IH k i). lia.
Qed.

(** *** the per-snapshot part of the checker *)
Definition proj_news (w : N) (n : name) (cfgs : list (list (N * spec))) : list (option spec) :=
  map (fun l => filt w (cfg_of l n)) cfgs.

Definition empty_obs : step_obs :=
  {| so_reg := []; so_w0 := []; so_w1 := []; so_ev1 := []; so_sup := []; so_gate := []; so_pipe := [] |}.

Lemma rows_in {A} names (f : N -> option A) n x : In (n, x) (rows names f) <-> In n names /\ f n = Some x.
Proof.
  unfold rows. rewrite in_flat_map. split.
  - intros (m & Hm & H). destruct (f m) as [y|] eqn:E; [|destruct H].
    destruct H as [H|[]]. inversion H; subst. auto.
  - intros [Hn E]. exists n. split; [exact Hn|]. rewrite E. left. reflexivity.
Qed.

Lemma rows_ext {A} names (f g : N -> option A) : (forall n, f n = g n) -> rows names f = rows names g.
Proof. intros H. unfold rows. induction names as [|a r IH]; cbn; [reflexivity|]. rewrite H, IH. reflexivity. Qed.

Lemma list_eqb_eq {A} (eqb : A -> A -> bool) (H : forall a b, eqb a b = true <-> a = b) l1 l2 :
  list_eqb eqb l1 l2 = true -> l1 = l2.
Proof. apply (list_eqb_spec eqb H). Qed.

Definition live_gate (o : option ent) : option ent :=
  match o with Some e => if is_pipe e then None else Some e | None => None end.
Definition live_pipe (o : option ent) : option ent :=
  match o with Some e => if is_pipe e then Some e else None | None => None end.

Lemma prop_steps_sound grp names : forall cfgs done t s0 s1 obs,
  t = N.of_nat (List.length done) ->
  (forall n, s0 n = snd (spec_log 0 n None (proj_news 0 n done))) ->
  (forall n, s1 n = snd (spec_log 0 n None (proj_news 1 n done))) ->
  prop_steps grp names t cfgs s0 s1 obs = true ->
  List.length obs = List.length cfgs /\
  forall i, (i < List.length cfgs)%nat ->
    let o := nth i obs empty_obs in
    let upto := done ++ firstn (S i) cfgs in
    let cfg := cfg_of (nth i cfgs []) in
    drop_gen (so_sup o) = rows names (fun n => snd (spec_log 0 n None (proj_news 0 n upto))) /\
    (grp = 0 ->
       so_reg o = rows names cfg /\
       so_w0 o = rows names (fun n => filt 0 (cfg n)) /\
       so_w1 o = rows names (fun n => filt 1 (cfg n))) /\
    (grp <> 0 ->
       drop_gen (so_gate o) = rows names (fun n => live_gate (snd (spec_log 0 n None (proj_news 1 n upto)))) /\
       drop_gen (so_pipe o) = rows names (fun n => live_pipe (snd (spec_log 0 n None (proj_news 1 n upto))))).
Proof.
  induction cfgs as [|l cr IH]; intros done t s0 s1 obs Ht H0 H1 H.
  - destruct obs; [|discriminate]. split; [reflexivity|]. intros i Hi. cbn in Hi. lia.
  - destruct obs as [|o orr]; [discriminate|]. cbn [prop_steps] in H.
    apply andb_true_iff in H as [H Hrest]. apply andb_true_iff in H as [Hsup Hgrp].
    set (s0' := auto_next 0 t (cfg_of l) s0) in *. set (s1' := auto_next 1 t (cfg_of l) s1) in *.
    assert (S0 : forall n, s0' n = snd (spec_log 0 n None (proj_news 0 n (done ++ [l])))).
    { intros n. unfold s0', auto_next, proj_news. rewrite map_app. cbn [map]. rewrite state_snoc, map_length, <- Ht, H0.
      reflexivity. }
    assert (S1 : forall n, s1' n = snd (spec_log 0 n None (proj_news 1 n (done ++ [l])))).
    { intros n. unfold s1', auto_next, proj_news. rewrite map_app. cbn [map]. rewrite state_snoc, map_length, <- Ht, H1.
      reflexivity. }
    assert (Ht' : t + 1 = N.of_nat (List.length (done ++ [l]))).
    { rewrite app_length. cbn [List.length]. lia. }
    destruct (IH (done ++ [l]) (t + 1) s0' s1' orr Ht' S0 S1 Hrest) as [Hlen Hpos].
    split; [cbn [List.length]; lia|].
    intros [|i] Hi.
    + cbn [nth firstn]. cbv zeta. split; [|split].
      * apply (list_eqb_eq _ nent_eqb_iff) in Hsup. rewrite Hsup. apply rows_ext. exact S0.
      * intros ->. cbn [N.eqb] in Hgrp.
        apply andb_true_iff in Hgrp as [Hgrp _]. apply andb_true_iff in Hgrp as [Hgrp Hw1].
        apply andb_true_iff in Hgrp as [Hreg Hw0].
        apply (list_eqb_eq _ nspec_eqb_iff) in Hreg, Hw0, Hw1. auto.
      * intros Hne. destruct (N.eqb_spec grp 0) as [E|_]; [contradiction|].
        apply andb_true_iff in Hgrp as [Hg Hp].
        apply (list_eqb_eq _ nent_eqb_iff) in Hg, Hp. rewrite Hg, Hp.
        split; apply rows_ext; intros n; unfold live_gate, live_pipe; rewrite S1; reflexivity.
    + cbn [List.length] in Hi. assert (Hi' : (i < List.length cr)%nat) by lia.
      specialize (Hpos i Hi'). cbv zeta in *.
      change (nth (S i) (o :: orr) empty_obs) with (nth i orr empty_obs).
      change (nth (S i) (l :: cr) []) with (nth i cr []).
      change (firstn (S (S i)) (l :: cr)) with (l :: firstn (S i) cr).
      replace (done ++ l :: firstn (S i) cr) with ((done ++ [l]) ++ firstn (S i) cr)
        by (rewrite <- app_assoc; reflexivity).
      exact Hpos.
Qed.

Lemma proj_news_firstn w n cfgs k : proj_news w n (firstn k cfgs) = firstn k (proj_news w n cfgs).
Proof. unfold proj_news. symmetry. apply firstn_map. Qed.

Lemma proj_news_length w n cfgs : List.length (proj_news w n cfgs) = List.length cfgs.
Proof. apply map_length. Qed.

Lemma state_at w n cfgs i : (i < List.length cfgs)%nat ->
  snd (spec_log 0 n None (proj_news w n (firstn (S i) cfgs))) = gen (proj_news w n cfgs) i.
Proof.
  intros Hi. rewrite proj_news_firstn.
  apply (spec_word_sound n (proj_news w n cfgs) i). rewrite proj_news_length. exact Hi.
Qed.

(** *** the log part of the checker *)
Lemma vis_calls_0 l : vis_calls 0 l = l.
Proof. unfold vis_calls, visible. cbn. induction l as [|a r IH]; cbn; [reflexivity|]. rewrite IH. reflexivity. Qed.

Lemma in_calls_of w n log e :
  In e log -> l_who e = w -> entry_name e = n -> In (l_step e, l_call e) (calls_of w n log).
Proof.
  intros Hin Hw Hn. unfold calls_of. apply in_map_iff. exists e. split; [reflexivity|].
  apply filter_In. split; [exact Hin|]. rewrite Hw, Hn, !N.eqb_refl. reflexivity.
Qed.

Lemma existsb_eqb_in x l : existsb (N.eqb x) l = true -> In x l.
Proof. intros H. apply existsb_exists in H as (y & Hy & E). apply N.eqb_eq in E. subst. exact Hy. Qed.

Definition consumers (grp : N) : list N := if grp =? 0 then [0] else [0; 1].

Lemma prop_logs_sound grp names cfgs log :
  prop_logs grp names cfgs log = true ->
  (forall n w, In n names -> In w (consumers grp) ->
     calls_of w n log = vis_calls grp (fst (spec_log 0 n None (proj_news w n cfgs)))) /\
  (forall e, In e log -> In (entry_name e) names /\ In (l_who e) (consumers grp)).
Proof.
  unfold prop_logs. intros H.
  apply andb_true_iff in H as [H Hw]. apply andb_true_iff in H as [H Hn].
  rewrite forallb_forall in H, Hn, Hw. split.
  - intros n w Hin Hwin. specialize (H n Hin). rewrite forallb_forall in H.
    specialize (H w Hwin). apply (list_eqb_eq _ scall_eqb_iff) in H. exact H.
  - intros e He. split; [apply existsb_eqb_in, Hn, He|apply existsb_eqb_in, Hw, He].
Qed.

(** *** soundness of the checker, supervisor group (every call is visible) *)
Definition news_of (w : N) (c : reg_case) (n : name) : list (option spec) := proj_news w n (k_steps c).

Theorem checker_sound c crash log obs :
  k_grp c = 0 ->
  prop_obs c crash log obs = true ->
  let names := k_names c in
  let len := List.length (k_steps c) in
  (* no panic escaped the recovery wrappers *)
  crash = false /\
  (* no stray callbacks: every logged callback is the supervisor's, for a name of the name space,
     and carries the index of an applied snapshot *)
  (forall e, In e log -> l_who e = 0 /\ In (entry_name e) names /\ (N.to_nat (l_step e) < len)%nat) /\
  (* exactly-once lifecycle, position by position, and in position order *)
  (forall n, In n names -> forall i, (i < len)%nat ->
     let W := calls_of 0 n log in
     step_ok n (news_of 0 c n) i (events_at i W) /\
     exists Wpre Wpost,
       W = Wpre ++ map (pair (N.of_nat i)) (events_at i W) ++ Wpost /\
       (forall y, In y Wpre -> fst y < N.of_nat i) /\
       (forall y, In y Wpost -> N.of_nat i < fst y)) /\
  (* live set = snapshot, each name at the generation of its latest config *)
  List.length obs = len /\
  (forall i, (i < len)%nat ->
     let o := nth i obs empty_obs in
     let cfg := cfg_of (nth i (k_steps c) []) in
     (forall n g, In (n, g) (drop_gen (so_sup o)) <-> In n names /\ gen (news_of 0 c n) i = Some g) /\
     (forall n s, In (n, s) (so_reg o) <-> In n names /\ cfg n = Some s) /\
     (forall n s, In (n, s) (so_w0 o) <-> In n names /\ filt 0 (cfg n) = Some s) /\
     (forall n s, In (n, s) (so_w1 o) <-> In n names /\ filt 1 (cfg n) = Some s)) /\
  (* a panicking callback does not keep the other names of that snapshot from being reconciled *)
  (forall e, In e log -> l_pan e = true ->
     forall n, In n names -> n <> entry_name e ->
       step_ok n (news_of 0 c n) (N.to_nat (l_step e)) (events_at (N.to_nat (l_step e)) (calls_of 0 n log))).
Proof.
  intros Hg H names len. unfold prop_obs in H. rewrite Hg in H.
  apply andb_true_iff in H as [H Hsteps]. apply andb_true_iff in H as [Hcrash Hlogs].
  apply prop_logs_sound in Hlogs as [Hcalls Hstray].
  assert (Hword : forall n, In n names -> calls_of 0 n log = fst (spec_log 0 n None (news_of 0 c n))).
  { intros n Hn. rewrite (Hcalls n 0 Hn) by (left; reflexivity). apply vis_calls_0. }
  assert (Hrange : forall e, In e log -> l_who e = 0 /\ In (entry_name e) names /\ (N.to_nat (l_step e) < len)%nat).
  { intros e He. destruct (Hstray e He) as [Hn Hw]. cbn in Hw. destruct Hw as [Hw|[]]. symmetry in Hw.
    split; [exact Hw|]. split; [exact Hn|].
    pose proof (in_calls_of 0 (entry_name e) log e He Hw eq_refl) as Hin.
    rewrite (Hword _ Hn) in Hin. apply steps_range in Hin. cbn [fst] in Hin.
    unfold news_of in Hin. rewrite proj_news_length in Hin. fold len in Hin. lia. }
  assert (Hlife : forall n, In n names -> forall i, (i < len)%nat ->
            step_ok n (news_of 0 c n) i (events_at i (calls_of 0 n log)) /\
            exists Wpre Wpost,
              calls_of 0 n log = Wpre ++ map (pair (N.of_nat i)) (events_at i (calls_of 0 n log)) ++ Wpost /\
              (forall y, In y Wpre -> fst y < N.of_nat i) /\ (forall y, In y Wpost -> N.of_nat i < fst y)).
  { intros n Hn i Hi. rewrite (Hword n Hn).
    assert (Hi' : (i < List.length (news_of 0 c n))%nat) by (unfold news_of; rewrite proj_news_length; exact Hi).
    destruct (spec_word_sound n (news_of 0 c n) i Hi') as (A & B & _). split; [exact A|exact B]. }
  destruct (prop_steps_sound 0 names (k_steps c) [] 0 (fun _ => None) (fun _ => None) obs
              eq_refl (fun _ => eq_refl) (fun _ => eq_refl) Hsteps) as [Hlen Hpos].
  split; [destruct crash; [discriminate|reflexivity]|].
  split; [exact Hrange|]. split; [exact Hlife|]. split; [exact Hlen|]. split.
  - intros i Hi. destruct (Hpos i Hi) as (Hsup & Hg0 & _). destruct (Hg0 eq_refl) as (Hreg & Hw0 & Hw1).
    cbn [app] in Hsup. cbv zeta. rewrite Hsup, Hreg, Hw0, Hw1.
    split; [|split; [|split]]; intros n x; rewrite rows_in; [|reflexivity|reflexivity|reflexivity].
    unfold news_of. rewrite (state_at 0 n (k_steps c) i Hi). reflexivity.
  - intros e He _ n Hn _. destruct (Hrange e He) as (_ & _ & Hlt). apply Hlife; assumption.
Qed.

(** corollary, in the words of the property: a name that is absent and then present again - even
    with exactly the config bytes it had before - is initialised again, as a fresh generation *)
Lemma step_ok_reappears n news i ev s :
  step_ok n news i ev -> before news i = None -> view news i = Some s -> ev = [Init n (mk s i)].
Proof. intros (_ & _ & H & _) Hb Hv. exact (H s Hb Hv). Qed.

(** any group: the observed calls of every consumer are the visible part of a word that satisfies
    [step_ok] everywhere ([spec_word_sound]), and the live sets are the predicted generations *)
Theorem checker_sound_any_group c crash log obs :
  prop_obs c crash log obs = true ->
  let names := k_names c in
  let len := List.length (k_steps c) in
  crash = false /\
  (forall e, In e log -> In (entry_name e) names /\ In (l_who e) (consumers (k_grp c))) /\
  (forall n w, In n names -> In w (consumers (k_grp c)) ->
     calls_of w n log = vis_calls (k_grp c) (fst (spec_log 0 n None (news_of w c n)))) /\
  List.length obs = len /\
  (forall i, (i < len)%nat ->
     let o := nth i obs empty_obs in
     (forall n g, In (n, g) (drop_gen (so_sup o)) <-> In n names /\ gen (news_of 0 c n) i = Some g) /\
     (k_grp c <> 0 ->
        (forall n g, In (n, g) (drop_gen (so_gate o)) <-> In n names /\ live_gate (gen (news_of 1 c n) i) = Some g) /\
        (forall n g, In (n, g) (drop_gen (so_pipe o)) <-> In n names /\ live_pipe (gen (news_of 1 c n) i) = Some g))).
Proof.
  intros H names len. unfold prop_obs in H.
  apply andb_true_iff in H as [H Hsteps]. apply andb_true_iff in H as [Hcrash Hlogs].
  apply prop_logs_sound in Hlogs as [Hcalls Hstray].
  destruct (prop_steps_sound (k_grp c) names (k_steps c) [] 0 (fun _ => None) (fun _ => None) obs
              eq_refl (fun _ => eq_refl) (fun _ => eq_refl) Hsteps) as [Hlen Hpos].
  split; [destruct crash; [discriminate|reflexivity]|].
  split; [exact Hstray|]. split; [exact Hcalls|]. split; [exact Hlen|].
  intros i Hi. destruct (Hpos i Hi) as (Hsup & _ & Hg1). cbn [app] in Hsup, Hg1. cbv zeta. split.
  - intros n g. rewrite Hsup, rows_in. unfold news_of. rewrite (state_at 0 n (k_steps c) i Hi). reflexivity.
  - intros Hne. destruct (Hg1 Hne) as [Hgt Hpp]. rewrite Hgt, Hpp.
    split; intros n g; rewrite rows_in; unfold news_of; rewrite (state_at 1 n (k_steps c) i Hi); reflexivity.
Qed.

(** *** non-vacuity: a concrete history the checker accepts (two names; appear, unchanged,
    change with a panicking Inherit, kind change with a panicking Close, disappear, reappear
    with identical bytes) *)
Definition nv_A1 : spec := {| s_kind := 0; s_cat := cat_biz; s_v := 1 |}.
Definition nv_A2 : spec := {| s_kind := 0; s_cat := cat_biz; s_v := 2 |}.
Definition nv_B1 : spec := {| s_kind := 1; s_cat := cat_biz; s_v := 1 |}.
Definition nv_case : reg_case :=
  {| k_grp := 0; k_names := [0; 1];
     k_steps := [[(0, nv_A1); (1, nv_A1)]; [(0, nv_A1); (1, nv_A2)]; [(0, nv_B1)]; [(0, nv_B1); (1, nv_A2)]; []];
     k_pan := [(1, 1, 1); (2, 2, 0)]; k_sched := 5;
     o_crash := false; o_log := []; o_steps := [] |}.
Definition nv_log : list entry := vis_log 0 (fst (model_run ideal nv_case)).
Definition nv_obs : list step_obs := snd (model_run ideal nv_case).

Lemma checker_nonvacuous :
  prop_obs nv_case false nv_log nv_obs = true /\
  calls_of 0 1 nv_log =
    [(0, Init 1 (mk nv_A1 0)); (1, Inherit 1 (mk nv_A2 1) (mk nv_A1 0)); (2, Close 1 (mk nv_A2 1));
     (3, Init 1 (mk nv_A2 3)); (4, Close 1 (mk nv_A2 3))] /\
  calls_of 0 0 nv_log =
    [(0, Init 0 (mk nv_A1 0)); (2, Close 0 (mk nv_A1 0)); (2, Init 0 (mk nv_B1 2)); (4, Close 0 (mk nv_B1 2))] /\
  List.length (filter l_pan nv_log) = 2%nat.
Proof. repeat split; vm_compute; reflexivity. Qed.
