(** The decidable balance checker used on the implementation's per-server counts (group rrc)
    accepts exactly what the theorems promise: the closed form passes it. *)
From EG.lib Require Import Base.
From EG.model Require Import LB LBCheck.
From EG.proofs Require Import LBProofs.
From Coq Require Import ZifyBool.
Open Scope Z_scope.

Lemma filter_ext_in' {A} (f g : A -> bool) l : (forall x, In x l -> f x = g x) -> filter f l = filter g l.
Proof.
  induction l as [|x t IH]; intro H; [reflexivity|]. cbn [filter].
  rewrite (H x (or_introl eq_refl)), IH; [reflexivity|]. intros y Hy. apply H. right. exact Hy.
Qed.

Lemma closed_form_balanced n c0 k :
  0 < n -> 0 <= k ->
  balanced_counts n k (map (rr_count n c0 k) (zseq 0 (Z.to_nat n))) = true.
Proof.
  intros Hn Hk.
  set (kn := Z.to_nat k). assert (Ek : k = Z.of_nat kn) by (unfold kn; lia).
  set (cs := map (rr n) (tickets c0 kn)).
  assert (Hm : map (rr_count n c0 k) (zseq 0 (Z.to_nat n)) = map (fun j => count j cs) (zseq 0 (Z.to_nat n))).
  { apply map_ext_in. intros j Hj. apply zseq_In in Hj. unfold cs. rewrite rr_count_correct by lia. rewrite Ek. reflexivity. }
  rewrite Hm.
  assert (Hv : forall v, In v (map (fun j => count j cs) (zseq 0 (Z.to_nat n))) -> v = k / n \/ v = k / n + 1).
  { intros v Hv. apply in_map_iff in Hv as (j & <- & Hj). apply zseq_In in Hj.
    unfold cs. rewrite rr_count_correct by lia. rewrite Ek. apply rr_count_floor_ceil; lia. }
  unfold balanced_counts. rewrite !andb_true_iff. repeat split.
  - rewrite map_length, zseq_length. lia.
  - apply forallb_forall. intros v Hin. destruct (Hv v Hin); lia.
  - rewrite (filter_ext_in' _ (fun c => c =? k / n + 1)).
    + rewrite filter_map_length.
      pose proof (rr_balanced n c0 kn 0 Hn ltac:(lia)) as (_ & H2). cbv zeta in H2. fold cs in H2.
      rewrite <- Ek in H2. lia.
    + intros v Hin. destruct (Hv v Hin); lia.
  - assert (Hin : forall x, In x cs -> 0 <= x < Z.of_nat (Z.to_nat n)).
    { intros x Hx. unfold cs in Hx. apply in_map_iff in Hx as (c & <- & _). unfold rr.
      pose proof (Z.mod_pos_bound c n Hn). lia. }
    pose proof (sum_counts (Z.to_nat n) cs Hin) as HS. unfold zsum in HS. rewrite HS.
    unfold cs. rewrite map_length, tickets_length. lia.
Qed.

(** the sequential checker accepts the index sequence of k contiguous tickets *)
Lemma tickets_balanced n c0 k :
  0 < n -> balanced n (Z.of_nat k) (map (rr n) (tickets c0 k)) = true.
Proof.
  intros Hn. set (cs := map (rr n) (tickets c0 k)).
  assert (Hv : forall v, In v (map (fun i => count i cs) (zseq 0 (Z.to_nat n))) -> v = Z.of_nat k / n \/ v = Z.of_nat k / n + 1).
  { intros v Hv. apply in_map_iff in Hv as (j & <- & Hj). apply zseq_In in Hj.
    unfold cs. rewrite rr_count_correct by lia. apply rr_count_floor_ceil; lia. }
  pose proof (rr_balanced n c0 k 0 Hn ltac:(lia)) as (_ & H2). cbv zeta in H2. fold cs in H2.
  rewrite <- filter_map_length with (f := fun j => count j cs) (p := fun c => c =? Z.of_nat k / n + 1) in H2.
  unfold balanced. fold cs. rewrite andb_true_iff. split.
  - apply forallb_forall. intros v Hin. destruct (Hv v Hin); lia.
  - destruct (Z.of_nat k mod n =? 0) eqn:E.
    + apply forallb_forall. intros v Hin. destruct (Hv v Hin) as [->| ->]; [lia|].
      exfalso.
      assert (Hf : In (Z.of_nat k / n + 1) (filter (fun c => c =? Z.of_nat k / n + 1) (map (fun i => count i cs) (zseq 0 (Z.to_nat n))))).
      { apply filter_In. split; [exact Hin|lia]. }
      destruct (filter (fun c => c =? Z.of_nat k / n + 1) (map (fun i => count i cs) (zseq 0 (Z.to_nat n)))); [destruct Hf|].
      cbn [List.length] in H2. lia.
    + lia.
Qed.
