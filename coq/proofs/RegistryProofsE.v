(** C20 - lemmas, part 5: closed witnesses (refutation for the pinned code, non-vacuity). *)
From EG.lib Require Import Base.
From EG.model Require Import Registry.
From EG.proofs Require Import RegistryProofs RegistryProofsB RegistryProofsC RegistryProofsD.
Open Scope N_scope.

Definition sp (k c v : N) : spec := {| s_kind := k; s_cat := c; s_v := v |}.
Definition sched_of_list (names : list name) : sched :=
  {| ords := fun _ => names; w1_first := false; tc_first := false |}.
Definition only (n : name) (s : spec) : snapshot := fun m => if m =? n then Some s else None.
Definition nothing : snapshot := fun _ => None.
Definition never : oracle := fun _ _ _ => false.

Lemma visits_single n : visits n (fun _ => [n]).
Proof. intros i. split; [constructor; [intros []|constructor]|left; reflexivity]. Qed.

(** witness 1: a business controller of kind 0 is replaced by one of kind 1 under the same name *)
Definition ctlA := sp 0 cat_biz 1.
Definition ctlB := sp 1 cat_biz 1.
Definition wit_biz : list (sched * snapshot) :=
  [(sched_of_list [0], only 0 ctlA); (sched_of_list [0], only 0 ctlB)].

(** witness 2: a traffic gate is replaced by a pipeline under the same name, then the name disappears *)
Definition gate := sp 2 cat_gate 1.
Definition pipe := sp kind_pipeline cat_pipe 1.
Definition wit_gate : list (sched * snapshot) :=
  [(sched_of_list [0], only 0 gate); (sched_of_list [0], only 0 pipe); (sched_of_list [0], nothing)].

Lemma good_wit_biz : good_steps 0 wit_biz.
Proof. unfold good_steps, wit_biz. repeat (apply Forall_cons; [apply visits_single|]). apply Forall_nil. Qed.
Lemma good_wit_gate : good_steps 0 wit_gate.
Proof. unfold good_steps, wit_gate. repeat (apply Forall_cons; [apply visits_single|]). apply Forall_nil. Qed.

Lemma refuted_kind_change :
  (* pinned code, business controller -> business controller: Inherit on a foreign type (it panics),
     the old object is never closed, the new one never initialised *)
  good_steps 0 wit_biz /\
  calls_of 0 0 (snd (run pinned_q never wit_biz)) =
    [(0, Init 0 (mk_ent ctlA 0)); (1, Inherit 0 (mk_ent ctlB 1) (mk_ent ctlA 0))] /\
  map l_pan (log_of 0 (snd (run pinned_q never wit_biz))) = [false; true] /\
  fst (spec_log 0 0 None (snaps_for 0 0 wit_biz)) =
    [(0, Init 0 (mk_ent ctlA 0)); (1, Close 0 (mk_ent ctlA 0)); (1, Init 0 (mk_ent ctlB 1))] /\
  calls_of 0 0 (snd (run pinned_q never wit_biz)) <> fst (spec_log 0 0 None (snaps_for 0 0 wit_biz)) /\
  (* pinned code, traffic gate -> pipeline -> gone: update and delete both answer "not found";
     the gate is never closed and stays live although the last snapshot is empty *)
  good_steps 0 wit_gate /\
  calls_of 1 0 (snd (run pinned_q never wit_gate)) = [(0, Init 0 (mk_ent gate 0))] /\
  live 1 (fst (run pinned_q never wit_gate) 0) = Some (mk_ent gate 0) /\
  fst (spec_log 0 0 None (snaps_for 1 0 wit_gate)) =
    [(0, Init 0 (mk_ent gate 0)); (1, Close 0 (mk_ent gate 0)); (1, Init 0 (mk_ent pipe 1)); (2, Close 0 (mk_ent pipe 1))] /\
  (* the same inputs on the ideal model satisfy the specification *)
  calls_of 0 0 (snd (run ideal never wit_biz)) = fst (spec_log 0 0 None (snaps_for 0 0 wit_biz)) /\
  calls_of 1 0 (snd (run ideal never wit_gate)) = fst (spec_log 0 0 None (snaps_for 1 0 wit_gate)).
Proof.
  split; [exact good_wit_biz|].
  split; [vm_compute; reflexivity|].
  split; [vm_compute; reflexivity|].
  split; [vm_compute; reflexivity|].
  split; [intro H; vm_compute in H; discriminate H|].
  split; [exact good_wit_gate|].
  repeat split; vm_compute; reflexivity.
Qed.

(** non-vacuity: two names, five snapshots (appear, change, kind change, unchanged,
    disappear), a panic oracle that fires; the ideal model emits a non-trivial log and
    the hypotheses of the theorems hold *)
Definition two (a b : option spec) : snapshot := fun m => if m =? 0 then a else if m =? 1 then b else None.
Definition wit_run : list (sched * snapshot) :=
  [(sched_of_list [0; 1], two (Some ctlA) None);
   ({| ords := fun _ => [1; 0]; w1_first := true; tc_first := true |}, two (Some (sp 0 cat_biz 2)) (Some gate));
   (sched_of_list [1; 0], two (Some ctlB) (Some gate));
   (sched_of_list [0; 1], two (Some ctlB) (Some pipe));
   (sched_of_list [0; 1], two None (Some pipe))].
Definition wit_oracle : oracle := fun t op n => (t =? 1) && (op =? 1) && (n =? 0).

Lemma nonvacuous :
  good_steps 0 wit_run /\ good_steps 1 wit_run /\
  calls_of 0 0 (snd (run ideal wit_oracle wit_run)) =
    [(0, Init 0 (mk_ent ctlA 0)); (1, Inherit 0 (mk_ent (sp 0 cat_biz 2) 1) (mk_ent ctlA 0));
     (2, Close 0 (mk_ent (sp 0 cat_biz 2) 1)); (2, Init 0 (mk_ent ctlB 2)); (4, Close 0 (mk_ent ctlB 2))] /\
  calls_of 1 1 (snd (run ideal wit_oracle wit_run)) =
    [(1, Init 1 (mk_ent gate 1)); (3, Close 1 (mk_ent gate 1)); (3, Init 1 (mk_ent pipe 3))] /\
  existsb l_pan (snd (run ideal wit_oracle wit_run)) = true.
Proof.
  assert (V : forall n, n = 0 \/ n = 1 -> good_steps n wit_run).
  { intros n Hn. unfold good_steps, wit_run.
    repeat (apply Forall_cons;
            [intros i; cbn [fst ords sched_of_list];
             split; [repeat (apply NoDup_cons; [cbn; intuition discriminate|]); apply NoDup_nil
                    |destruct Hn as [-> | ->]; cbn; auto]|]).
    apply Forall_nil. }
  split; [apply V; auto|]. split; [apply V; auto|].
  repeat split; vm_compute; reflexivity.
Qed.
