(** C06 - string-level lemmas: separators, joins, splits, escapes are injective
    (each escape has a decoder that is its left inverse). *)
From EG.lib Require Import Base.
From EG.model Require Import Validator.
Open Scope string_scope.

Definition nochar (c : ascii) (s : string) : Prop := has_char c s = false.
Definition nonl (s : string) : Prop := nochar "010"%char s.

Lemma has_char_cons c a t : has_char c (String a t) = Ascii.eqb a c || has_char c t.
Proof.
  unfold has_char; simpl. destruct (Ascii.eqb a c); [reflexivity|].
  destruct (index_byte c t); reflexivity.
Qed.

Lemma has_char_empty c : has_char c EmptyString = false.
Proof. reflexivity. Qed.

Lemma has_char_app c a b : has_char c (a ++ b) = has_char c a || has_char c b.
Proof.
  induction a as [|x a IH]; simpl; [reflexivity|].
  rewrite !has_char_cons, IH, orb_assoc. reflexivity.
Qed.

Lemma nochar_cons c a t : nochar c (String a t) <-> Ascii.eqb a c = false /\ nochar c t.
Proof. unfold nochar. rewrite has_char_cons, orb_false_iff. tauto. Qed.

Lemma nochar_app c a b : nochar c (a ++ b) <-> nochar c a /\ nochar c b.
Proof. unfold nochar. rewrite has_char_app, orb_false_iff. tauto. Qed.

Lemma append_nil_r s : s ++ "" = s.
Proof. induction s; simpl; congruence. Qed.

Lemma append_assoc (a b c : string) : (a ++ b) ++ c = a ++ (b ++ c).
Proof. induction a; simpl; congruence. Qed.

Lemma append_inv_head (a x y : string) : a ++ x = a ++ y -> x = y.
Proof. induction a; simpl; intro H; [assumption|]. inversion H; auto. Qed.

(** a separator that occurs in neither prefix cuts uniquely *)
Lemma sep_inj c a b x y :
  nochar c a -> nochar c b -> a ++ String c x = b ++ String c y -> a = b /\ x = y.
Proof.
  revert b; induction a as [|p a IH]; intros [|q b] Ha Hb E; simpl in E.
  - inversion E; auto.
  - inversion E; subst. apply nochar_cons in Hb as [Hq _]. rewrite Ascii.eqb_refl in Hq. discriminate.
  - inversion E; subst. apply nochar_cons in Ha as [Hp _]. rewrite Ascii.eqb_refl in Hp. discriminate.
  - inversion E; subst. apply nochar_cons in Ha as [_ Ha]. apply nochar_cons in Hb as [_ Hb].
    destruct (IH b Ha Hb H1); subst; auto.
Qed.

(** the part after the LAST separator, when that part does not contain it *)
Lemma last_sep_inj c x1 x2 h1 h2 :
  nochar c h1 -> nochar c h2 -> x1 ++ String c h1 = x2 ++ String c h2 -> x1 = x2 /\ h1 = h2.
Proof.
  revert x2; induction x1 as [|p x1 IH]; intros [|q x2] H1 H2 E; simpl in E.
  - inversion E; auto.
  - inversion E; subst. exfalso. apply nochar_app in H1 as [_ H1].
    apply nochar_cons in H1 as [H1 _]. rewrite Ascii.eqb_refl in H1. discriminate.
  - inversion E; subst. exfalso. apply nochar_app in H2 as [_ H2].
    apply nochar_cons in H2 as [H2 _]. rewrite Ascii.eqb_refl in H2. discriminate.
  - inversion E; subst. destruct (IH x2 H1 H2 H3); subst; auto.
Qed.

(** ** join *)
Definition sepc (c : ascii) : string := String c EmptyString.

Lemma join_cons2 sep a b t : join sep (a :: b :: t) = a ++ sep ++ join sep (b :: t).
Proof. reflexivity. Qed.

Lemma join_inj c l1 l2 :
  l1 <> [] -> l2 <> [] -> Forall (nochar c) l1 -> Forall (nochar c) l2 ->
  join (sepc c) l1 = join (sepc c) l2 -> l1 = l2.
Proof.
  revert l2; induction l1 as [|a l1 IH]; intros l2 N1 N2 F1 F2 E; [congruence|].
  destruct l2 as [|b l2]; [congruence|].
  inversion F1 as [|? ? Ha F1']; inversion F2 as [|? ? Hb F2']; subst.
  destruct l1 as [|a' l1], l2 as [|b' l2].
  - simpl in E. congruence.
  - exfalso. rewrite join_cons2 in E. simpl in E. subst a.
    apply nochar_app in Ha as [_ Ha]. apply nochar_cons in Ha as [Ha _].
    rewrite Ascii.eqb_refl in Ha. discriminate.
  - exfalso. rewrite join_cons2 in E. simpl in E. subst b.
    apply nochar_app in Hb as [_ Hb]. apply nochar_cons in Hb as [Hb _].
    rewrite Ascii.eqb_refl in Hb. discriminate.
  - rewrite !join_cons2 in E. unfold sepc in E. simpl in E.
    destruct (sep_inj c a b _ _ Ha Hb E) as [-> E'].
    f_equal. apply IH; try assumption; discriminate.
Qed.

Lemma join_nochar c d l : nochar c (sepc d) -> Forall (nochar c) l -> nochar c (join (sepc d) l).
Proof.
  intros Hd. induction l as [|a l IH]; intro F; [reflexivity|].
  inversion F; subst. destruct l as [|b l]; [assumption|].
  rewrite join_cons2. apply nochar_app; split; [assumption|].
  apply nochar_app; split; [assumption|]. apply IH; assumption.
Qed.

(** ** split *)
Lemma split_on_nonempty c s : split_on c s <> [].
Proof.
  induction s as [|a s IH]; simpl; [discriminate|].
  destruct (Ascii.eqb a c); [discriminate|]. destruct (split_on c s); discriminate.
Qed.

Lemma split_on_nochar c s : Forall (nochar c) (split_on c s).
Proof.
  induction s as [|a s IH]; simpl.
  - constructor; [reflexivity|constructor].
  - destruct (Ascii.eqb a c) eqn:E.
    + constructor; [reflexivity|assumption].
    + destruct (split_on c s) as [|h tl]; [constructor; [|constructor]|].
      * apply nochar_cons; split; [assumption|reflexivity].
      * inversion IH; subst. constructor; [|assumption].
        apply nochar_cons; split; assumption.
Qed.

Lemma join_split c s : join (sepc c) (split_on c s) = s.
Proof.
  induction s as [|a s IH]; [reflexivity|]. simpl.
  destruct (Ascii.eqb a c) eqn:E.
  - apply Ascii.eqb_eq in E; subst a.
    pose proof (split_on_nonempty c s) as NE.
    destruct (split_on c s) as [|h tl]; [congruence|].
    rewrite join_cons2, IH. reflexivity.
  - pose proof (split_on_nonempty c s) as NE.
    destruct (split_on c s) as [|h tl]; [congruence|].
    destruct tl as [|h' tl].
    + simpl in *. congruence.
    + rewrite join_cons2 in IH. rewrite join_cons2. cbn [append]. rewrite IH. reflexivity.
Qed.

(** ** take / drop / prefix *)
Lemma stake_sdrop n s : stake n s ++ sdrop n s = s.
Proof. revert s; induction n; intros [|a s]; simpl; try reflexivity. rewrite IHn. reflexivity. Qed.

Lemma prefix_app a s : String.prefix a s = true -> s = a ++ sdrop (String.length a) s.
Proof.
  revert s; induction a as [|x a IH]; intros s H; [destruct s; reflexivity|].
  destruct s as [|y s]; simpl in H; [discriminate|].
  destruct (ascii_dec x y); [subst|discriminate]. simpl. f_equal. apply IH. assumption.
Qed.

Lemma prefix_app_true a x : String.prefix a (a ++ x) = true.
Proof.
  induction a as [|c a IH]; simpl; [destruct x; reflexivity|].
  destruct (ascii_dec c c); [assumption|congruence].
Qed.

Lemma sdrop_app a x : sdrop (String.length a) (a ++ x) = x.
Proof. induction a; simpl; auto. Qed.

Lemma nochar_sdrop c n s : nochar c s -> nochar c (sdrop n s).
Proof.
  revert s; induction n; intros [|a s] H; simpl; try assumption.
  apply IHn. apply nochar_cons in H. tauto.
Qed.

Lemma index_byte_spec c s i :
  index_byte c s = Some i -> s = stake i s ++ String c (sdrop (S i) s) /\ nochar c (stake i s).
Proof.
  revert i; induction s as [|a s IH]; intros i H; simpl in H; [discriminate|].
  destruct (Ascii.eqb a c) eqn:E.
  - inversion H; subst. apply Ascii.eqb_eq in E; subst. simpl. split; reflexivity.
  - destruct (index_byte c s) as [n|] eqn:En; [|discriminate]. inversion H; subst.
    destruct (IH n eq_refl) as [Hs Hn]. simpl. split.
    + f_equal. exact Hs.
    + apply nochar_cons; split; assumption.
Qed.

Lemma index_byte_app c u p : nochar c u -> index_byte c (u ++ String c p) = Some (String.length u).
Proof.
  induction u as [|a u IH]; intro H; simpl.
  - rewrite Ascii.eqb_refl. reflexivity.
  - apply nochar_cons in H as [Ha Hu]. rewrite Ha, (IH Hu). reflexivity.
Qed.

Lemma stake_app a x : stake (String.length a) (a ++ x) = a.
Proof. induction a; simpl; [destruct x; reflexivity|congruence]. Qed.

Lemma index_byte_none c s : index_byte c s = None <-> nochar c s.
Proof. unfold nochar, has_char. destruct (index_byte c s); split; congruence. Qed.

(** ** hexadecimal and percent escapes: decoders *)
Definition unhexdigit (a : ascii) : N :=
  let n := N_of_ascii a in
  if (n <? 58)%N then (n - 48)%N else if (n <? 71)%N then (n - 55)%N else (n - 87)%N.
Definition unhex2 (h l : ascii) : ascii := ascii_of_N (16 * unhexdigit h + unhexdigit l).

Lemma unhex2_hex up a :
  unhex2 (hexdigit up (N_of_ascii a / 16)) (hexdigit up (N_of_ascii a mod 16)) = a.
Proof. destruct up; destruct a as [[] [] [] [] [] [] [] []]; vm_compute; reflexivity. Qed.

Fixpoint unhex_string (s : string) : string :=
  match s with
  | String h (String l t) => String (unhex2 h l) (unhex_string t)
  | _ => EmptyString
  end.

Lemma unhex_hex s : unhex_string (hex_of_string s) = s.
Proof.
  induction s as [|a s IH]; [reflexivity|].
  cbn [hex_of_string hex2 unhex_string]. rewrite unhex2_hex, IH. reflexivity.
Qed.

Lemma hex_of_string_inj a b : hex_of_string a = hex_of_string b -> a = b.
Proof. intro H. rewrite <- (unhex_hex a), <- (unhex_hex b), H. reflexivity. Qed.

Fixpoint pct_decode (plus : bool) (s : string) : string :=
  match s with
  | EmptyString => EmptyString
  | String a t =>
      if Ascii.eqb a "%"%char then
        match t with
        | String h (String l t') => String (unhex2 h l) (pct_decode plus t')
        | _ => EmptyString
        end
      else String (if plus && Ascii.eqb a "+"%char then " "%char else a) (pct_decode plus t)
  end.

Lemma uri_escape_char a t :
  pct_decode false (if unreserved a || Ascii.eqb a "/"%char then String a t
                    else String "%"%char (hex2 true a t)) = String a (pct_decode false t).
Proof. destruct a as [[] [] [] [] [] [] [] []]; reflexivity. Qed.

Lemma uri_unescape s : pct_decode false (uri_escape s) = s.
Proof.
  induction s as [|a s IH]; [reflexivity|]. cbn [uri_escape].
  transitivity (pct_decode false (if unreserved a || Ascii.eqb a "/"%char then String a (uri_escape s)
                                  else String "%"%char (hex2 true a (uri_escape s)))).
  - destruct (unreserved a || Ascii.eqb a "/"%char); reflexivity.
  - rewrite uri_escape_char, IH. reflexivity.
Qed.

Lemma uri_escape_inj a b : uri_escape a = uri_escape b -> a = b.
Proof. intro H. rewrite <- (uri_unescape a), <- (uri_unescape b), H. reflexivity. Qed.

Lemma qesc_char a t :
  pct_decode true (if unreserved a then String a t
                   else if Ascii.eqb a " "%char then String "+"%char t
                   else String "%"%char (hex2 true a t)) = String a (pct_decode true t).
Proof. destruct a as [[] [] [] [] [] [] [] []]; reflexivity. Qed.

Lemma qunesc s : pct_decode true (qesc s) = s.
Proof.
  induction s as [|a s IH]; [reflexivity|]. cbn [qesc].
  transitivity (pct_decode true (if unreserved a then String a (qesc s)
                   else if Ascii.eqb a " "%char then String "+"%char (qesc s)
                   else String "%"%char (hex2 true a (qesc s)))).
  - destruct (unreserved a); [reflexivity|]. destruct (Ascii.eqb a " "%char); reflexivity.
  - rewrite qesc_char, IH. reflexivity.
Qed.

Lemma qesc_inj a b : qesc a = qesc b -> a = b.
Proof. intro H. rewrite <- (qunesc a), <- (qunesc b), H. reflexivity. Qed.

(** escaped text never contains the separators of the encodings built on it *)
Definition sepfree (a : ascii) : bool :=
  negb (Ascii.eqb a "010"%char) && negb (Ascii.eqb a "&"%char) && negb (Ascii.eqb a "="%char).

Fixpoint all_chars (p : ascii -> bool) (s : string) : bool :=
  match s with EmptyString => true | String a t => p a && all_chars p t end.

Lemma qesc_char_sepfree a t :
  all_chars sepfree t = true ->
  all_chars sepfree (if unreserved a then String a t
                     else if Ascii.eqb a " "%char then String "+"%char t
                     else String "%"%char (hex2 true a t)) = true.
Proof. intro H. destruct a as [[] [] [] [] [] [] [] []]; cbn; rewrite H; reflexivity. Qed.

Lemma qesc_sepfree s : all_chars sepfree (qesc s) = true.
Proof.
  induction s as [|a s IH]; [reflexivity|]. cbn [qesc].
  pose proof (qesc_char_sepfree a (qesc s) IH) as H.
  destruct (unreserved a); [exact H|]. destruct (Ascii.eqb a " "%char); exact H.
Qed.

Lemma all_chars_nochar p c s :
  p c = false -> all_chars p s = true -> nochar c s.
Proof.
  intros Hc. induction s as [|a s IH]; intro H; [reflexivity|].
  simpl in H. apply andb_true_iff in H as [Ha Hs].
  apply nochar_cons; split; [|auto].
  destruct (Ascii.eqb a c) eqn:E; [|reflexivity]. apply Ascii.eqb_eq in E; subst. congruence.
Qed.

Lemma qesc_nonl s : nonl (qesc s).
Proof. apply (all_chars_nochar sepfree); [reflexivity|apply qesc_sepfree]. Qed.
Lemma qesc_noamp s : nochar "&"%char (qesc s).
Proof. apply (all_chars_nochar sepfree); [reflexivity|apply qesc_sepfree]. Qed.
Lemma qesc_noeq s : nochar "="%char (qesc s).
Proof. apply (all_chars_nochar sepfree); [reflexivity|apply qesc_sepfree]. Qed.

Lemma uri_char_nonl a t :
  all_chars sepfree t = true ->
  all_chars (fun x => negb (Ascii.eqb x "010"%char))
            (if unreserved a || Ascii.eqb a "/"%char then String a t else String "%"%char (hex2 true a t)) =
  all_chars (fun x => negb (Ascii.eqb x "010"%char)) t.
Proof. intros _. destruct a as [[] [] [] [] [] [] [] []]; reflexivity. Qed.

Lemma uri_escape_nonl s : nonl (uri_escape s).
Proof.
  apply (all_chars_nochar (fun x => negb (Ascii.eqb x "010"%char))); [reflexivity|].
  induction s as [|a s IH]; [reflexivity|]. cbn [uri_escape].
  destruct a as [[] [] [] [] [] [] [] []]; cbn; exact IH.
Qed.

Lemma canonical_uri_nonl p : nonl (canonical_uri p).
Proof. destruct p; [reflexivity|]. apply uri_escape_nonl. Qed.

(** ** white-space canonicalisation keeps strings newline free *)
Lemma has_char_srev_acc c s acc : has_char c (srev_acc s acc) = has_char c s || has_char c acc.
Proof.
  revert acc; induction s as [|a s IH]; intro acc; simpl; [reflexivity|].
  rewrite IH, !has_char_cons. destruct (Ascii.eqb a c), (has_char c s), (has_char c acc); reflexivity.
Qed.

Lemma nochar_srev c s : nochar c s -> nochar c (srev s).
Proof. unfold nochar, srev. rewrite has_char_srev_acc, has_char_empty, orb_false_r. auto. Qed.

Lemma nochar_strip_left c p s : nochar c s -> nochar c (strip_left p s).
Proof.
  induction s as [|a s IH]; intro H; simpl; [assumption|].
  destruct (p a); [|assumption]. apply IH. apply nochar_cons in H. tauto.
Qed.

Lemma nochar_strip_both c p s : nochar c s -> nochar c (strip_both p s).
Proof.
  intro H. unfold strip_both. apply nochar_srev, nochar_strip_left, nochar_srev, nochar_strip_left, H.
Qed.

Lemma nochar_collapse c s : nochar c s -> nochar c (collapse_spaces s).
Proof.
  induction s as [|a s IH]; intro H; [assumption|].
  apply nochar_cons in H as [Ha Hs]. cbn [collapse_spaces].
  destruct (is_sp a).
  - destruct s as [|b s']; [apply nochar_cons; split; [assumption|reflexivity]|].
    destruct (is_sp b); [auto|]. apply nochar_cons; split; auto.
  - apply nochar_cons; split; auto.
Qed.

Lemma canon_hvalue_nonl vs : Forall nonl vs -> nonl (canon_hvalue vs).
Proof.
  intro F. unfold canon_hvalue. apply (join_nochar _ ","%char); [reflexivity|].
  induction F; constructor; [|assumption].
  unfold canon_hvalue1. apply nochar_collapse, nochar_strip_both. assumption.
Qed.

Lemma nochar_stake c n s : nochar c s -> nochar c (stake n s).
Proof.
  revert s; induction n; intros [|a s] H; simpl; try reflexivity.
  apply nochar_cons in H as [Ha Hs]. apply nochar_cons; split; auto.
Qed.
