(** Proofs about the rate limiter model (C09). *)
From EG.lib Require Import Base.
From EG.model Require Import RL.
From Coq Require Import ZifyBool.
Open Scope Z_scope.

Definition valid (p : policy) : Prop := 0 < pP p /\ 0 < pL p /\ 0 <= pT p.

Lemma quot_div a b : 0 <= a -> 0 < b -> a ÷ b = a / b.
Proof. intros; apply Z.quot_div_nonneg; lia. Qed.

Lemma cur_tokens_nonneg p s c : 0 <= cur_tokens p s c.
Proof. unfold cur_tokens; lia. Qed.

(** characterisation of [acquire] for a valid policy, in terms of [/] *)
Lemma acquire_spec p s el c :
  valid p -> 0 <= el ->
  let cycle := el / pP p in
  let tokens := cur_tokens p s cycle in
  acquire p s el c =
    if pL p * (pT p / pP p + 1) <=? tokens then (s, Reject (pT p))
    else if tokens <? pL p then ({| cyc := cycle; tok := tokens + c |}, Permit 0)
    else ({| cyc := cycle; tok := tokens + c |}, Permit (pP p * (cycle + tokens / pL p) - el)).
Proof.
  intros (HP & HL & HT) Hel cycle tokens. unfold acquire, max_tokens.
  destruct (pP p =? 0) eqn:E; [lia|].
  rewrite (quot_div el (pP p)) by lia. rewrite (quot_div (pT p) (pP p)) by lia.
  fold cycle. fold tokens.
  rewrite (quot_div tokens (pL p)) by (try apply cur_tokens_nonneg; lia).
  reflexivity.
Qed.

(** absolute slot: position of a permit on the limiter's own grid *)
Definition next_slot (p : policy) (s : rl) : Z := cyc s * pL p + tok s.

Lemma div_bounds a b : 0 < b -> b * (a / b) <= a < b * (a / b) + b.
Proof. intros. pose proof (Z.mul_div_le a b). pose proof (Z.mul_succ_div_gt a b). lia. Qed.

Lemma wait_bound p s el c s' w :
  valid p -> 0 <= el -> acquire p s el c = (s', Permit w) -> 0 <= w <= pT p.
Proof.
  intros Hv Hel H. pose proof Hv as (HP & HL & HT).
  rewrite acquire_spec in H by assumption. cbv zeta in H.
  set (cycle := el / pP p) in *. set (tokens := cur_tokens p s cycle) in *.
  destruct (pL p * (pT p / pP p + 1) <=? tokens) eqn:E1; [discriminate|].
  destruct (tokens <? pL p) eqn:E2; inversion H; subst; clear H; [lia|].
  pose proof (div_bounds el (pP p) HP) as B1. fold cycle in B1.
  pose proof (div_bounds tokens (pL p) HL) as B2.
  pose proof (div_bounds (pT p) (pP p) HP) as B3.
  set (q := tokens / pL p) in *. set (k := pT p / pP p) in *.
  assert (1 <= q) by nia.
  assert (q <= k) by nia.
  split; nia.
Qed.

Lemma spare_immediate p s el c :
  valid p -> 0 <= el -> cur_tokens p s (el / pP p) < pL p ->
  snd (acquire p s el c) = Permit 0.
Proof.
  intros Hv Hel Hs. pose proof Hv as (HP & HL & HT).
  rewrite acquire_spec by assumption. cbv zeta.
  pose proof (div_bounds (pT p) (pP p) HP).
  assert (0 <= pT p / pP p) by (apply Z.div_pos; lia).
  destruct (_ <=? _) eqn:E1; [nia|].
  destruct (_ <? _) eqn:E2; [reflexivity|lia].
Qed.

(** ** Histories: admitted requests take strictly increasing absolute slots.

    [slots p s ops] = for every arrival, [Some slot] if admitted. With unit
    counts the slot of an admitted request is [cycle*L + tokens] and its release
    period ([(el + wait) / P]) is [slot / L]. *)
Definition slot_of (p : policy) (s : rl) (el : Z) : Z :=
  (el / pP p) * pL p + cur_tokens p s (el / pP p).

Definition inv (p : policy) (s : rl) (el : Z) : Prop := cyc s <= el / pP p /\ 0 <= tok s.

Lemma slot_ge_next p s el : valid p -> inv p s el -> next_slot p s <= slot_of p s el.
Proof.
  intros (HP & HL & HT) (Hc & Ht). unfold next_slot, slot_of, cur_tokens. nia.
Qed.

Lemma release_period p s el s' w :
  valid p -> 0 <= el -> acquire p s el 1 = (s', Permit w) ->
  (el + w) / pP p = slot_of p s el / pL p /\ next_slot p s' = slot_of p s el + 1 /\ cyc s' = el / pP p /\ 0 <= tok s'.
Proof.
  intros Hv Hel H. pose proof Hv as (HP & HL & HT).
  rewrite acquire_spec in H by assumption. cbv zeta in H. unfold slot_of.
  set (cycle := el / pP p) in *. set (tokens := cur_tokens p s cycle) in *.
  assert (0 <= tokens) by apply cur_tokens_nonneg.
  destruct (_ <=? _) eqn:E1; [discriminate|].
  destruct (tokens <? pL p) eqn:E2; inversion H; subst; clear H; unfold next_slot; cbn [cyc tok].
  - repeat split; try lia. rewrite Z.add_0_r. fold cycle.
    apply Z.div_unique with (r := tokens); lia.
  - repeat split; try lia.
    replace (el + (pP p * (cycle + tokens / pL p) - el)) with ((cycle + tokens / pL p) * pP p) by lia.
    rewrite Z.div_mul by lia.
    rewrite Z.div_add_l by lia. reflexivity.
Qed.

Lemma reject_keeps p s el c s' w : acquire p s el c = (s', Reject w) -> s' = s.
Proof.
  unfold acquire. destruct (pP p =? 0); [discriminate|].
  destruct (_ <=? _); [intros H; inversion H; reflexivity|].
  destruct (_ <? _); discriminate.
Qed.

(** trace of a unit-count history: per arrival the slot if admitted *)
Fixpoint slots (p : policy) (s : rl) (els : list Z) : list (option Z) :=
  match els with
  | [] => []
  | el :: t =>
      match acquire p s el 1 with
      | (s', Permit _) => Some (slot_of p s el) :: slots p s' t
      | (s', _) => None :: slots p s' t
      end
  end.

Fixpoint nondecr (lo : Z) (l : list Z) : Prop :=
  match l with
  | [] => True
  | x :: t => lo <= x /\ nondecr x t
  end.

Fixpoint admitted (l : list (option Z)) : list Z :=
  match l with
  | [] => []
  | Some x :: t => x :: admitted t
  | None :: t => admitted t
  end.

Fixpoint increasing_from (lo : Z) (l : list Z) : Prop :=
  match l with
  | [] => True
  | x :: t => lo <= x /\ increasing_from (x + 1) t
  end.

Lemma inv_mono p s el el' : valid p -> el <= el' -> inv p s el -> inv p s el'.
Proof.
  intros (HP & _) Hle (Hc & Ht). split; [|assumption].
  pose proof (Z.div_le_mono el el' (pP p) HP Hle). lia.
Qed.

Lemma slots_increasing p : valid p -> forall els s lo,
  0 <= lo -> nondecr lo els -> inv p s lo ->
  increasing_from (next_slot p s) (admitted (slots p s els)).
Proof.
  intros Hv. induction els as [|el t IH]; intros s lo Hlo Hnd Hinv; cbn [slots admitted increasing_from]; [exact I|].
  destruct Hnd as (Hle & Hnd).
  assert (Hel : 0 <= el) by lia.
  pose proof (inv_mono p s lo el Hv Hle Hinv) as Hinv'.
  destruct (acquire p s el 1) as [s' o] eqn:E. destruct o as [w|w|].
  - cbn [admitted increasing_from].
    pose proof (release_period p s el s' w Hv Hel E) as (_ & Hn & Hc & Ht).
    split; [apply slot_ge_next; assumption|].
    rewrite <- Hn. apply (IH s' el); try assumption. split; [lia|assumption].
  - cbn [admitted]. apply reject_keeps in E; subst s'. apply (IH s el); assumption.
  - exfalso. destruct Hv as (HP & _). unfold acquire in E.
    destruct (pP p =? 0) eqn:E0; [lia|].
    destruct (_ <=? _); [discriminate|]. destruct (_ <? _); discriminate.
Qed.

(** counting: a strictly increasing list has at most L members in any block [k*L, (k+1)*L) *)
Definition in_block (L k x : Z) : bool := x / L =? k.

Lemma count_block_bound L k : 0 < L -> forall l lo,
  increasing_from lo l ->
  Z.of_nat (List.length (filter (in_block L k) l)) <= Z.max 0 ((k + 1) * L - Z.max lo (k * L)).
Proof.
  intros HL. induction l as [|x t IH]; intros lo Hinc; cbn [filter List.length]; [lia|].
  destruct Hinc as (Hlo & Hinc). specialize (IH (x + 1) Hinc).
  unfold in_block at 1. destruct (x / L =? k) eqn:E.
  - cbn [List.length]. pose proof (div_bounds x L HL). nia.
  - lia.
Qed.

Theorem release_bound p els k :
  valid p -> nondecr 0 els ->
  Z.of_nat (List.length (filter (in_block (pL p) k) (admitted (slots p rl0 els)))) <= pL p.
Proof.
  intros Hv Hnd. pose proof Hv as (HP & HL & HT).
  assert (Hinv : inv p rl0 0) by (unfold inv; cbn [cyc tok rl0]; rewrite Z.div_0_l by lia; lia).
  pose proof (slots_increasing p Hv els rl0 0 (Z.le_refl 0) Hnd Hinv) as Hinc.
  pose proof (count_block_bound (pL p) k HL _ _ Hinc). lia.
Qed.

(** ** Rejection only when the whole horizon is reserved (unit counts).

    [covered]: every slot from the start of the state's cycle up to its next
    free slot has been handed out to an admitted request. *)
Fixpoint final (p : policy) (s : rl) (els : list Z) : rl :=
  match els with
  | [] => s
  | el :: t => final p (fst (acquire p s el 1)) t
  end.

Definition covered (p : policy) (s : rl) (adm : list Z) : Prop :=
  forall x, cyc s * pL p <= x < next_slot p s -> In x adm.

Lemma covered_step p s el s' o adm :
  valid p -> 0 <= el -> inv p s el -> covered p s adm ->
  acquire p s el 1 = (s', o) ->
  covered p s' (adm ++ match o with Permit _ => [slot_of p s el] | _ => [] end) /\ inv p s' el.
Proof.
  intros Hv Hel Hinv Hcov E. pose proof Hv as (HP & HL & HT).
  destruct o as [w|w|].
  - pose proof (release_period p s el s' w Hv Hel E) as (_ & Hn & Hc & Ht).
    split; [|split; lia].
    intros x Hx. rewrite Hn, Hc in Hx. apply in_or_app.
    destruct (Z.eq_dec x (slot_of p s el)) as [->|Hne]; [right; left; reflexivity|left].
    apply Hcov. destruct Hinv as (Hi1 & Hi2).
    unfold slot_of, cur_tokens, next_slot in *. nia.
  - apply reject_keeps in E; subst s'. rewrite app_nil_r. split; assumption.
  - exfalso. unfold acquire in E. destruct (pP p =? 0) eqn:E0; [lia|].
    destruct (_ <=? _); [discriminate|]. destruct (_ <? _); discriminate.
Qed.

Lemma slots_cons p s el t :
  admitted (slots p s (el :: t)) =
  match snd (acquire p s el 1) with Permit _ => [slot_of p s el] | _ => [] end
    ++ admitted (slots p (fst (acquire p s el 1)) t).
Proof. cbn [slots]. destruct (acquire p s el 1) as [s' [w|w|]]; reflexivity. Qed.

Lemma final_covered p : valid p -> forall pre s lo adm0 el,
  0 <= lo -> nondecr lo (pre ++ [el]) -> inv p s lo -> covered p s adm0 ->
  covered p (final p s pre) (adm0 ++ admitted (slots p s pre)) /\ inv p (final p s pre) el.
Proof.
  intros Hv. induction pre as [|a t IH]; intros s lo adm0 el Hlo Hnd Hinv Hcov.
  - cbn [final slots admitted]. rewrite app_nil_r. cbn in Hnd. destruct Hnd as (Hle & _).
    split; [assumption|]. eapply inv_mono; eassumption.
  - cbn [app nondecr] in Hnd. destruct Hnd as (Hle & Hnd).
    assert (Ha : 0 <= a) by lia.
    pose proof (inv_mono p s lo a Hv Hle Hinv) as Hinv'.
    destruct (acquire p s a 1) as [s1 o] eqn:E.
    pose proof (covered_step p s a s1 o adm0 Hv Ha Hinv' Hcov E) as (Hc1 & Hi1).
    rewrite slots_cons. cbn [final]. rewrite E. cbn [fst snd].
    rewrite app_assoc. apply (IH s1 a); assumption.
Qed.

Lemma nondecr_last pre : forall lo el, nondecr lo (pre ++ [el]) -> lo <= el.
Proof.
  induction pre as [|a t IH]; intros lo el Hnd; cbn in Hnd; [lia|].
  destruct Hnd as (H1 & H2). specialize (IH a el H2). lia.
Qed.

Theorem reject_horizon_full p pre el s' w :
  valid p -> nondecr 0 (pre ++ [el]) ->
  acquire p (final p rl0 pre) el 1 = (s', Reject w) ->
  forall x, (el / pP p) * pL p <= x < (el / pP p + pT p / pP p + 1) * pL p ->
            In x (admitted (slots p rl0 pre)).
Proof.
  intros Hv Hnd E x Hx. pose proof Hv as (HP & HL & HT).
  assert (Hinv0 : inv p rl0 0) by (unfold inv; cbn [cyc tok rl0]; rewrite Z.div_0_l by lia; lia).
  assert (Hcov0 : covered p rl0 []) by (intros y Hy; unfold next_slot in Hy; cbn [cyc tok rl0] in Hy; lia).
  pose proof (final_covered p Hv pre rl0 0 [] el (Z.le_refl 0) Hnd Hinv0 Hcov0) as (Hcov & Hinv).
  cbn [app] in Hcov. apply Hcov.
  assert (Hel : 0 <= el) by (apply (nondecr_last pre 0 el Hnd)).
  rewrite acquire_spec in E by assumption. cbv zeta in E.
  set (s := final p rl0 pre) in *. destruct Hinv as (Hi1 & Hi2).
  assert (0 <= pT p / pP p) by (apply Z.div_pos; lia).
  destruct (_ <=? _) eqn:E1; [|destruct (_ <? _); discriminate].
  unfold cur_tokens, next_slot in *. nia.
Qed.
