(** Proofs about the rate limiter model (C09). *)
From EG.lib Require Import Base.
From EG.model Require Import RL.
From Coq Require Import ZifyBool.
Open Scope Z_scope.

Definition valid (p : policy) : Prop := 0 < pP p /\ 0 < pL p /\ 0 <= pT p.

Lemma quot_div a b : 0 <= a -> 0 < b -> a ÷ b = a / b.
Proof. intros; apply Z.quot_div_nonneg; lia. Qed.

Lemma cur_tokens_nonneg p s c : 0 <= cur_tokens p s c.
Proof. unfold cur_tokens; lia. Qed.

(** characterisation of [acquire] for a valid policy, in terms of [/] *)
Lemma acquire_spec p s el c :
  valid p -> 0 <= el ->
  let cycle := el / pP p in
  let tokens := cur_tokens p s cycle in
  acquire p s el c =
    if pL p * (pT p / pP p + 1) <=? tokens then (s, Reject (pT p))
    else if tokens <? pL p then ({| cyc := cycle; tok := tokens + c |}, Permit 0)
    else ({| cyc := cycle; tok := tokens + c |}, Permit (pP p * (cycle + tokens / pL p) - el)).
Proof.
  intros (HP & HL & HT) Hel cycle tokens. unfold acquire, max_tokens.
  destruct (pP p =? 0) eqn:E; [lia|].
  rewrite (quot_div el (pP p)) by lia. rewrite (quot_div (pT p) (pP p)) by lia.
  fold cycle. fold tokens.
  rewrite (quot_div tokens (pL p)) by (try apply cur_tokens_nonneg; lia).
  reflexivity.
Qed.

(** absolute slot: position of a permit on the limiter's own grid *)
Definition next_slot (p : policy) (s : rl) : Z := cyc s * pL p + tok s.

Lemma div_bounds a b : 0 < b -> b * (a / b) <= a < b * (a / b) + b.
Proof. intros. pose proof (Z.mul_div_le a b). pose proof (Z.mul_succ_div_gt a b). lia. Qed.

Lemma wait_bound p s el c s' w :
  valid p -> 0 <= el -> acquire p s el c = (s', Permit w) -> 0 <= w <= pT p.
Proof.
  intros Hv Hel H. pose proof Hv as (HP & HL & HT).
  rewrite acquire_spec in H by assumption. cbv zeta in H.
  set (cycle := el / pP p) in *. set (tokens := cur_tokens p s cycle) in *.
  destruct (pL p * (pT p / pP p + 1) <=? tokens) eqn:E1; [discriminate|].
  destruct (tokens <? pL p) eqn:E2; inversion H; subst; clear H; [lia|].
  pose proof (div_bounds el (pP p) HP) as B1. fold cycle in B1.
  pose proof (div_bounds tokens (pL p) HL) as B2.
  pose proof (div_bounds (pT p) (pP p) HP) as B3.
  set (q := tokens / pL p) in *. set (k := pT p / pP p) in *.
  assert (1 <= q) by nia.
  assert (q <= k) by nia.
  split; nia.
Qed.

Lemma spare_immediate p s el c :
  valid p -> 0 <= el -> cur_tokens p s (el / pP p) < pL p ->
  snd (acquire p s el c) = Permit 0.
Proof.
  intros Hv Hel Hs. pose proof Hv as (HP & HL & HT).
  rewrite acquire_spec by assumption. cbv zeta.
  pose proof (div_bounds (pT p) (pP p) HP).
  assert (0 <= pT p / pP p) by (apply Z.div_pos; lia).
  destruct (_ <=? _) eqn:E1; [nia|].
  destruct (_ <? _) eqn:E2; [reflexivity|lia].
Qed.

(** ** Histories: admitted requests take strictly increasing absolute slots.

    [slots p s ops] = for every arrival, [Some slot] if admitted. With unit
    counts the slot of an admitted request is [cycle*L + tokens] and its release
    period ([(el + wait) / P]) is [slot / L]. *)
Definition slot_of (p : policy) (s : rl) (el : Z) : Z :=
  (el / pP p) * pL p + cur_tokens p s (el / pP p).

Definition inv (p : policy) (s : rl) (el : Z) : Prop := cyc s <= el / pP p /\ 0 <= tok s.

Lemma slot_ge_next p s el : valid p -> inv p s el -> next_slot p s <= slot_of p s el.
Proof.
  intros (HP & HL & HT) (Hc & Ht). unfold next_slot, slot_of, cur_tokens. nia.
Qed.

Lemma release_period p s el s' w :
  valid p -> 0 <= el -> acquire p s el 1 = (s', Permit w) ->
  (el + w) / pP p = slot_of p s el / pL p /\ next_slot p s' = slot_of p s el + 1 /\ cyc s' = el / pP p /\ 0 <= tok s'.
Proof.
  intros Hv Hel H. pose proof Hv as (HP & HL & HT).
  rewrite acquire_spec in H by assumption. cbv zeta in H. unfold slot_of.
  set (cycle := el / pP p) in *. set (tokens := cur_tokens p s cycle) in *.
  assert (0 <= tokens) by apply cur_tokens_nonneg.
  destruct (_ <=? _) eqn:E1; [discriminate|].
  destruct (tokens <? pL p) eqn:E2; inversion H; subst; clear H; unfold next_slot; cbn [cyc tok].
  - repeat split; try lia. rewrite Z.add_0_r. fold cycle.
    apply Z.div_unique with (r := tokens); lia.
  - repeat split; try lia.
    replace (el + (pP p * (cycle + tokens / pL p) - el)) with ((cycle + tokens / pL p) * pP p) by lia.
    rewrite Z.div_mul by lia.
    rewrite Z.div_add_l by lia. reflexivity.
Qed.

Lemma reject_keeps p s el c s' w : acquire p s el c = (s', Reject w) -> s' = s.
Proof.
  unfold acquire. destruct (pP p =? 0); [discriminate|].
  destruct (_ <=? _); [intros H; inversion H; reflexivity|].
  destruct (_ <? _); discriminate.
Qed.

(** trace of a unit-count history: per arrival the slot if admitted *)
Fixpoint slots (p : policy) (s : rl) (els : list Z) : list (option Z) :=
  match els with
  | [] => []
  | el :: t =>
      match acquire p s el 1 with
      | (s', Permit _) => Some (slot_of p s el) :: slots p s' t
      | (s', _) => None :: slots p s' t
      end
  end.

Fixpoint nondecr (lo : Z) (l : list Z) : Prop :=
  match l with
  | [] => True
  | x :: t => lo <= x /\ nondecr x t
  end.

Fixpoint admitted (l : list (option Z)) : list Z :=
  match l with
  | [] => []
  | Some x :: t => x :: admitted t
  | None :: t => admitted t
  end.

Fixpoint increasing_from (lo : Z) (l : list Z) : Prop :=
  match l with
  | [] => True
  | x :: t => lo <= x /\ increasing_from (x + 1) t
  end.

Lemma inv_mono p s el el' : valid p -> el <= el' -> inv p s el -> inv p s el'.
Proof.
  intros (HP & _) Hle (Hc & Ht). split; [|assumption].
  pose proof (Z.div_le_mono el el' (pP p) HP Hle). lia.
Qed.

Lemma slots_increasing p : valid p -> forall els s lo,
  0 <= lo -> nondecr lo els -> inv p s lo ->
  increasing_from (next_slot p s) (admitted (slots p s els)).
Proof.
  intros Hv. induction els as [|el t IH]; intros s lo Hlo Hnd Hinv; cbn [slots admitted increasing_from]; [exact I|].
  destruct Hnd as (Hle & Hnd).
  assert (Hel : 0 <= el) by lia.
  pose proof (inv_mono p s lo el Hv Hle Hinv) as Hinv'.
  destruct (acquire p s el 1) as [s' o] eqn:E. destruct o as [w|w|].
  - cbn [admitted increasing_from].
    pose proof (release_period p s el s' w Hv Hel E) as (_ & Hn & Hc & Ht).
    split; [apply slot_ge_next; assumption|].
    rewrite <- Hn. apply (IH s' el); try assumption. split; [lia|assumption].
  - cbn [admitted]. apply reject_keeps in E; subst s'. apply (IH s el); assumption.
  - exfalso. destruct Hv as (HP & _). unfold acquire in E.
    destruct (pP p =? 0) eqn:E0; [lia|].
    destruct (_ <=? _); [discriminate|]. destruct (_ <? _); discriminate.
Qed.

(** counting: a strictly increasing list has at most L members in any block [k*L, (k+1)*L) *)
Definition in_block (L k x : Z) : bool := x / L =? k.

Lemma count_block_bound L k : 0 < L -> forall l lo,
  increasing_from lo l ->
  Z.of_nat (List.length (filter (in_block L k) l)) <= Z.max 0 ((k + 1) * L - Z.max lo (k * L)).
Proof.
  intros HL. induction l as [|x t IH]; intros lo Hinc; cbn [filter List.length]; [lia|].
  destruct Hinc as (Hlo & Hinc). specialize (IH (x + 1) Hinc).
  unfold in_block at 1. destruct (x / L =? k) eqn:E.
  - cbn [List.length]. pose proof (div_bounds x L HL). nia.
  - lia.
Qed.

Theorem release_bound p els k :
  valid p -> nondecr 0 els ->
  Z.of_nat (List.length (filter (in_block (pL p) k) (admitted (slots p rl0 els)))) <= pL p.
Proof.
  intros Hv Hnd. pose proof Hv as (HP & HL & HT).
  assert (Hinv : inv p rl0 0) by (unfold inv; cbn [cyc tok rl0]; rewrite Z.div_0_l by lia; lia).
  pose proof (slots_increasing p Hv els rl0 0 (Z.le_refl 0) Hnd Hinv) as Hinc.
  pose proof (count_block_bound (pL p) k HL _ _ Hinc). lia.
Qed.

(** ** Rejection only when the whole horizon is reserved (unit counts).

    [covered]: every slot from the start of the state's cycle up to its next
    free slot has been handed out to an admitted request. *)
Fixpoint final (p : policy) (s : rl) (els : list Z) : rl :=
  match els with
  | [] => s
  | el :: t => final p (fst (acquire p s el 1)) t
  end.

Definition covered (p : policy) (s : rl) (adm : list Z) : Prop :=
  forall x, cyc s * pL p <= x < next_slot p s -> In x adm.

Lemma covered_step p s el s' o adm :
  valid p -> 0 <= el -> inv p s el -> covered p s adm ->
  acquire p s el 1 = (s', o) ->
  covered p s' (adm ++ match o with Permit _ => [slot_of p s el] | _ => [] end) /\ inv p s' el.
Proof.
  intros Hv Hel Hinv Hcov E. pose proof Hv as (HP & HL & HT).
  destruct o as [w|w|].
  - pose proof (release_period p s el s' w Hv Hel E) as (_ & Hn & Hc & Ht).
    split; [|split; lia].
    intros x Hx. rewrite Hn, Hc in Hx. apply in_or_app.
    destruct (Z.eq_dec x (slot_of p s el)) as [->|Hne]; [right; left; reflexivity|left].
    apply Hcov. destruct Hinv as (Hi1 & Hi2).
    unfold slot_of, cur_tokens, next_slot in *. nia.
  - apply reject_keeps in E; subst s'. rewrite app_nil_r. split; assumption.
  - exfalso. unfold acquire in E. destruct (pP p =? 0) eqn:E0; [lia|].
    destruct (_ <=? _); [discriminate|]. destruct (_ <? _); discriminate.
Qed.

Lemma slots_cons p s el t :
  admitted (slots p s (el :: t)) =
  match snd (acquire p s el 1) with Permit _ => [slot_of p s el] | _ => [] end
    ++ admitted (slots p (fst (acquire p s el 1)) t).
Proof. cbn [slots]. destruct (acquire p s el 1) as [s' [w|w|]]; reflexivity. Qed.

Lemma final_covered p : valid p -> forall pre s lo adm0 el,
  0 <= lo -> nondecr lo (pre ++ [el]) -> inv p s lo -> covered p s adm0 ->
  covered p (final p s pre) (adm0 ++ admitted (slots p s pre)) /\ inv p (final p s pre) el.
Proof.
  intros Hv. induction pre as [|a t IH]; intros s lo adm0 el Hlo Hnd Hinv Hcov.
  - cbn [final slots admitted]. rewrite app_nil_r. cbn in Hnd. destruct Hnd as (Hle & _).
    split; [assumption|]. eapply inv_mono; eassumption.
  - cbn [app nondecr] in Hnd. destruct Hnd as (Hle & Hnd).
    assert (Ha : 0 <= a) by lia.
    pose proof (inv_mono p s lo a Hv Hle Hinv) as Hinv'.
    destruct (acquire p s a 1) as [s1 o] eqn:E.
    pose proof (covered_step p s a s1 o adm0 Hv Ha Hinv' Hcov E) as (Hc1 & Hi1).
    rewrite slots_cons. cbn [final]. rewrite E. cbn [fst snd].
    rewrite app_assoc. apply (IH s1 a); assumption.
Qed.

Lemma nondecr_last pre : forall lo el, nondecr lo (pre ++ [el]) -> lo <= el.
Proof.
  induction pre as [|a t IH]; intros lo el Hnd; cbn in Hnd; [lia|].
  destruct Hnd as (H1 & H2). specialize (IH a el H2). lia.
Qed.

Theorem reject_horizon_full p pre el s' w :
  valid p -> nondecr 0 (pre ++ [el]) ->
  acquire p (final p rl0 pre) el 1 = (s', Reject w) ->
  forall x, (el / pP p) * pL p <= x < (el / pP p + pT p / pP p + 1) * pL p ->
            In x (admitted (slots p rl0 pre)).
Proof.
  intros Hv Hnd E x Hx. pose proof Hv as (HP & HL & HT).
  assert (Hinv0 : inv p rl0 0) by (unfold inv; cbn [cyc tok rl0]; rewrite Z.div_0_l by lia; lia).
  assert (Hcov0 : covered p rl0 []) by (intros y Hy; unfold next_slot in Hy; cbn [cyc tok rl0] in Hy; lia).
  pose proof (final_covered p Hv pre rl0 0 [] el (Z.le_refl 0) Hnd Hinv0 Hcov0) as (Hcov & Hinv).
  cbn [app] in Hcov. apply Hcov.
  assert (Hel : 0 <= el) by (apply (nondecr_last pre 0 el Hnd)).
  rewrite acquire_spec in E by assumption. cbv zeta in E.
  set (s := final p rl0 pre) in *. destruct Hinv as (Hi1 & Hi2).
  assert (0 <= pT p / pP p) by (apply Z.div_pos; lia).
  destruct (_ <=? _) eqn:E1; [|destruct (_ <? _); discriminate].
  unfold cur_tokens, next_slot in *. nia.
Qed.

(** ** Timeout 0 (MQTT limiters): admission iff the current period has room; never a wait *)
Lemma acquire_T0 p s el c :
  valid p -> pT p = 0 -> 0 <= el ->
  let cycle := el / pP p in
  let tokens := cur_tokens p s cycle in
  acquire p s el c =
    if tokens <? pL p then ({| cyc := cycle; tok := tokens + c |}, Permit 0) else (s, Reject 0).
Proof.
  intros Hv HT0 Hel cycle tokens. pose proof Hv as (HP & HL & HT).
  rewrite acquire_spec by assumption. cbv zeta. fold cycle. fold tokens.
  rewrite HT0. rewrite Z.div_0_l by lia. rewrite Z.add_0_l, Z.mul_1_r.
  destruct (pL p <=? tokens) eqn:E1; destruct (tokens <? pL p) eqn:E2; try reflexivity; lia.
Qed.

(** history of a timeout-0 limiter with arbitrary non-negative counts (bytes):
    [hist] = (period, count) of every admitted arrival, newest first *)
Fixpoint run_hist (p : policy) (s : rl) (ops : list (Z * Z)) (hist : list (Z * Z)) : rl * list (Z * Z) :=
  match ops with
  | [] => (s, hist)
  | (el, c) :: t =>
      match acquire p s el c with
      | (s', Permit _) => run_hist p s' t ((el / pP p, c) :: hist)
      | (s', _) => run_hist p s' t hist
      end
  end.

Definition sum_in (k : Z) (hist : list (Z * Z)) : Z :=
  fold_right (fun '(k', c) a => if k' =? k then c + a else a) 0 hist.

Fixpoint nondecr_ops (lo : Z) (ops : list (Z * Z)) : Prop :=
  match ops with
  | [] => True
  | (el, c) :: t => lo <= el /\ 0 <= c /\ nondecr_ops el t
  end.

Definition acct (p : policy) (s : rl) (hist : list (Z * Z)) : Prop :=
  (forall k c, In (k, c) hist -> k <= cyc s) /\ sum_in (cyc s) hist <= tok s /\ 0 <= tok s.

Lemma sum_in_zero k hist : (forall k' c, In (k', c) hist -> k' < k) -> sum_in k hist = 0.
Proof.
  induction hist as [|[k' c] t IH]; intros H; cbn [sum_in fold_right]; [reflexivity|].
  fold (sum_in k t). pose proof (H k' c (or_introl eq_refl)).
  destruct (k' =? k) eqn:E; [lia|]. apply IH. intros k2 c2 Hin. apply (H k2 c2). right; exact Hin.
Qed.

(** what the current period has already admitted is bounded by the tokens counted against it *)
Lemma acct_sum_le_tokens p s hist cycle :
  valid p -> acct p s hist -> cyc s <= cycle -> sum_in cycle hist <= cur_tokens p s cycle.
Proof.
  intros (HP & HL & HT) (Ha & Hb & Hc) Hle. unfold cur_tokens.
  destruct (Z.eq_dec cycle (cyc s)) as [->|Hne].
  - lia.
  - rewrite sum_in_zero; [lia|]. intros k' c Hin. specialize (Ha k' c Hin). lia.
Qed.

Lemma acct_step p s hist el c s' w :
  valid p -> pT p = 0 -> 0 <= el -> 0 <= c -> inv p s el -> acct p s hist ->
  acquire p s el c = (s', Permit w) ->
  sum_in (el / pP p) hist < pL p /\ acct p s' ((el / pP p, c) :: hist) /\ inv p s' el.
Proof.
  intros Hv HT0 Hel Hc0 (Hi1 & Hi2) Hacct E.
  pose proof (acct_sum_le_tokens p s hist (el / pP p) Hv Hacct Hi1) as Hsum.
  rewrite acquire_T0 in E by assumption. cbv zeta in E.
  destruct (_ <? _) eqn:E1; [|discriminate]. inversion E; subst; clear E.
  split; [lia|]. destruct Hacct as (Ha & Hb & Hc). split.
  - unfold acct; cbn [cyc tok]. split; [|split].
    + intros k c' [Heq|Hin]; [inversion Heq; lia|]. specialize (Ha k c' Hin). lia.
    + cbn [sum_in fold_right]. fold (sum_in (el / pP p) hist). rewrite Z.eqb_refl. lia.
    + pose proof (cur_tokens_nonneg p s (el / pP p)). lia.
  - unfold inv; cbn [cyc tok]. pose proof (cur_tokens_nonneg p s (el / pP p)). lia.
Qed.

Lemma acquire_T0_reject_keeps p s el c s' o :
  valid p -> pT p = 0 -> 0 <= el -> acquire p s el c = (s', o) ->
  (exists w, o = Permit w) \/ s' = s.
Proof.
  intros Hv HT0 Hel E. rewrite acquire_T0 in E by assumption. cbv zeta in E.
  destruct (_ <? _); inversion E; subst; [left; eexists; reflexivity | right; reflexivity].
Qed.

(** every admitted packet found strictly less than L bytes (or packets) already admitted in its period *)
Definition hist_ok (p : policy) (hist : list (Z * Z)) : Prop :=
  forall pre k c post, hist = pre ++ (k, c) :: post -> sum_in k post < pL p.

Lemma run_hist_ok p : valid p -> pT p = 0 -> forall ops s lo hist,
  0 <= lo -> nondecr_ops lo ops -> inv p s lo -> acct p s hist -> hist_ok p hist ->
  hist_ok p (snd (run_hist p s ops hist)).
Proof.
  intros Hv HT0. induction ops as [|[el c] t IH]; intros s lo hist Hlo Hnd Hinv Hacct Hok; cbn [run_hist snd]; [exact Hok|].
  destruct Hnd as (Hle & Hc0 & Hnd). assert (Hel : 0 <= el) by lia.
  pose proof (inv_mono p s lo el Hv Hle Hinv) as Hinv'.
  destruct (acquire p s el c) as [s' o] eqn:E.
  pose proof E as E0. rewrite acquire_T0 in E0 by assumption. cbv zeta in E0.
  destruct (cur_tokens p s (el / pP p) <? pL p) eqn:E1; inversion E0; subst s' o; clear E0.
  - pose proof (acct_step p s hist el c _ 0 Hv HT0 Hel Hc0 Hinv' Hacct E) as (Hlt & Hacct' & Hinv2).
    eapply (IH _ el); try eassumption.
    intros pre k c' post Heq. destruct pre as [|x pre']; cbn [app] in Heq.
    + inversion Heq; subst. exact Hlt.
    + inversion Heq; subst. eapply Hok. reflexivity.
  - apply (IH s el); assumption.
Qed.

Theorem mqtt_single_limit p ops :
  valid p -> pT p = 0 -> nondecr_ops 0 ops ->
  hist_ok p (snd (run_hist p rl0 ops [])).
Proof.
  intros Hv HT0 Hnd. pose proof Hv as (HP & HL & HT).
  apply (run_hist_ok p Hv HT0 ops rl0 0 []); try assumption; try lia.
  - unfold inv; cbn [cyc tok rl0]; rewrite Z.div_0_l by lia; lia.
  - unfold acct; cbn [cyc tok rl0 sum_in fold_right]. split; [intros k c []|lia].
  - intros pre k c post Heq. destruct pre; discriminate.
Qed.

(** ** Filter level *)
Lemma handle_unmatched h now lims matches i :
  existsb (fun b : bool => b) matches = false ->
  flt_handle_aux h now lims matches i = (h, FPass 0 None).
Proof.
  revert matches i. induction lims as [|l lt IH]; intros [|m mt] i Hm; cbn [flt_handle_aux]; try reflexivity.
  cbn [existsb] in Hm. apply orb_false_iff in Hm as (-> & Hm). apply IH; exact Hm.
Qed.

(** *** URL rule matching *)
Lemma prefix_iff (a b : string) : String.prefix a b = true <-> exists rest, b = (a ++ rest)%string.
Proof.
  revert b. induction a as [|c a IH]; intros b.
  - destruct b; simpl; (split; [intros _; eexists; reflexivity | intros _; reflexivity]).
  - destruct b as [|d b]; simpl.
    + split; [discriminate | intros (rest & H); discriminate H].
    + destruct (Ascii.ascii_dec c d) as [->|Hne].
      * rewrite IH. split; intros (rest & H); exists rest; congruence.
      * split; [discriminate | intros (rest & H); congruence].
Qed.

Lemma str_nonempty_iff s : str_nonempty s = true <-> s <> ""%string.
Proof.
  unfold str_nonempty. rewrite negb_true_iff. split.
  - intros H ->. rewrite String.eqb_refl in H. discriminate.
  - intros H. apply String.eqb_neq. exact H.
Qed.

Lemma method_ok_iff u m : method_ok u m = true <-> fu_methods u = [] \/ In m (fu_methods u).
Proof.
  unfold method_ok. destruct (fu_methods u) as [|x xs] eqn:E.
  - split; [left; reflexivity | reflexivity].
  - rewrite existsb_exists. split.
    + intros (y & Hy & Heq). apply String.eqb_eq in Heq. subst y. right; exact Hy.
    + intros [H|H]; [discriminate|]. exists m. split; [exact H | apply String.eqb_refl].
Qed.

Lemma url_match_spec u m p rx :
  url_match u m p rx = true <->
  (fu_methods u = [] \/ In m (fu_methods u)) /\
  ((fu_exact u <> ""%string /\ p = fu_exact u) \/
   (fu_prefix u <> ""%string /\ exists rest, p = (fu_prefix u ++ rest)%string) \/
   (fu_regex u <> ""%string /\ rx = true)).
Proof.
  unfold url_match, sm_match.
  rewrite andb_true_iff, !orb_true_iff, !andb_true_iff, method_ok_iff, !str_nonempty_iff,
    String.eqb_eq, prefix_iff. tauto.
Qed.

Lemma match_row_none us m p rxs :
  (forall u rx, In (u, rx) (combine us rxs) -> url_match u m p rx = false) ->
  existsb (fun b : bool => b) (match_row us m p rxs) = false.
Proof.
  revert rxs. induction us as [|u ut IH]; intros [|rx rt] H; cbn [match_row existsb]; try reflexivity.
  rewrite (H u rx (or_introl eq_refl)). cbn [orb]. apply IH.
  intros u' rx' Hin. apply H. right; exact Hin.
Qed.

Lemma unmatched_request_unlimited h now lims us m p rxs i :
  (forall u rx, In (u, rx) (combine us rxs) -> url_match u m p rx = false) ->
  flt_handle_aux h now lims (match_row us m p rxs) i = (h, FPass 0 None).
Proof. intros H. apply handle_unmatched, match_row_none, H. Qed.

Lemma hget_hset_other h k k' v : k <> k' -> hget (hset h k v) k' = hget h k'.
Proof.
  intros Hne. induction h as [|[k0 v0] t IH]; cbn [hset hget].
  - destruct (k' =? k) eqn:E; [lia|reflexivity].
  - destruct (k =? k0) eqn:E1; cbn [hget].
    + destruct (k' =? k) eqn:E2; [lia|]. destruct (k' =? k0) eqn:E3; [lia|reflexivity].
    + destruct (k' =? k0); [reflexivity|exact IH].
Qed.

(** reload (ideal): every rule of the new spec that equals a rule of the previous
    generation under an unchanged policy keeps that rule's limiter object; no existing
    limiter object is modified; the previous generation keeps all its references. *)
Lemma reload_ideal snew sold now : forall urls h oldl next h' r o n pk,
  reload_urls ideal snew sold now urls h oldl next = (h', r, o, n, pk) ->
  (forall x, In x oldl -> x <> None) ->
  pk = false /\ o = oldl /\ next <= n /\
  (forall k, k < next -> hget h' k = hget h k) /\
  List.length r = List.length urls /\
  (forall j u, nth_error urls j = Some u ->
     forall i k, find_prev snew sold u (combine (fs_urls sold) oldl) 0 = Some (i, Some k) ->
     nth_error r j = Some (Some k)).
Proof.
  induction urls as [|u t IH]; intros h oldl next h' r o n pk E Hold; cbn [reload_urls] in E.
  - inversion E; subst. repeat split; try lia; try reflexivity. intros [|j] u0 Hn; discriminate.
  - destruct (find_prev snew sold u (combine (fs_urls sold) oldl) 0) as [[i [k|]]|] eqn:Ef.
    + cbn [q_rl_inherit_steals_limiter ideal] in E.
      destruct (reload_urls ideal snew sold now t h oldl next) as [[[[h1 r1] o1] n1] pk1] eqn:Er.
      inversion E; subst; clear E.
      destruct (IH _ _ _ _ _ _ _ _ Er Hold) as (Hpk & Ho & Hn & Hh & Hlen & Hshare).
      repeat split; try assumption; [cbn [List.length]; lia|].
      intros [|j] u0 Hnth i0 k0 Hf; cbn [nth_error] in *.
      * inversion Hnth; subst. rewrite Ef in Hf. inversion Hf; subst. reflexivity.
      * eapply Hshare; eassumption.
    + exfalso. (* a None reference in the old generation is impossible for ideal *)
      clear - Ef Hold. revert Ef. generalize 0%nat.
      assert (Hc : forall x, In x (combine (fs_urls sold) oldl) -> snd x <> None).
      { intros [a b] Hin. apply in_combine_r in Hin. cbn. apply Hold; exact Hin. }
      induction (combine (fs_urls sold) oldl) as [|[pu pl] l IHl]; intros m Ef; cbn [find_prev] in Ef; [discriminate|].
      destruct (furl_eqb u pu && is_same_policy snew sold (fu_ref u)).
      * inversion Ef; subst. apply (Hc (pu, None)); [left; reflexivity|reflexivity].
      * apply (IHl (fun x Hx => Hc x (or_intror Hx)) (S m) Ef).
    + destruct (reload_urls ideal snew sold now t (hset h next _) oldl (next + 1)) as [[[[h1 r1] o1] n1] pk1] eqn:Er.
      inversion E; subst; clear E.
      destruct (IH _ _ _ _ _ _ _ _ Er Hold) as (Hpk & Ho & Hn & Hh & Hlen & Hshare).
      repeat split; try assumption; try lia; [| cbn [List.length]; lia |].
      * intros k Hk. rewrite Hh by lia. apply hget_hset_other. lia.
      * intros [|j] u0 Hnth i0 k0 Hf; cbn [nth_error] in *.
        -- inversion Hnth; subst. rewrite Ef in Hf. discriminate.
        -- eapply Hshare; eassumption.
Qed.

(** ** The two-dimensional MQTT limiter (requests, bytes), timeout 0 *)
Definition pol2 (P L0 L1 : Z) : mpolicy := {| mT := 0; mP := P; mL := [L0; L1] |}.
Definition dim (P L : Z) : policy := {| pT := 0; pP := P; pL := L |}.

Lemma macquire2 P L0 L1 c t0 t1 el c0 c1 :
  0 < P -> 0 < L0 -> 0 < L1 -> 0 <= el ->
  let cycle := el / P in
  let k0 := cur_tokens (dim P L0) {| cyc := c; tok := t0 |} cycle in
  let k1 := cur_tokens (dim P L1) {| cyc := c; tok := t1 |} cycle in
  macquire (pol2 P L0 L1) {| mcyc := c; mtok := [t0; t1] |} el [c0; c1] =
    if (k0 <? L0) && (k1 <? L1)
    then ({| mcyc := cycle; mtok := [k0 + c0; k1 + c1] |}, MPermit 0)
    else ({| mcyc := c; mtok := [t0; t1] |}, MReject 0).
Proof.
  intros HP H0 H1 Hel cycle k0 k1. unfold macquire, pol2.
  cbn [mL mP mT mtok mcyc List.length Nat.eqb negb zip3 map existsb forallb].
  destruct (P =? 0) eqn:EP; [lia|].
  rewrite (Z.quot_0_l P) by lia. rewrite (quot_div el P) by lia. fold cycle.
  unfold cur_tokens in k0, k1. cbn [cyc tok pL dim] in k0, k1. fold k0. fold k1.
  rewrite !Z.add_0_l, !Z.mul_1_r, !orb_false_r, !andb_true_r.
  destruct (L0 <=? k0) eqn:E0; destruct (L1 <=? k1) eqn:E1;
    destruct (k0 <? L0) eqn:E2; destruct (k1 <? L1) eqn:E3; cbn [orb andb]; try reflexivity; lia.
Qed.

(** history of admitted packets: (period, bytes) newest first *)
Fixpoint mrun_hist (P L0 L1 : Z) (c t0 t1 : Z) (ops : list (Z * Z)) (hist : list (Z * Z)) : list (Z * Z) :=
  match ops with
  | [] => hist
  | (el, b) :: t =>
      match macquire (pol2 P L0 L1) {| mcyc := c; mtok := [t0; t1] |} el [1; b] with
      | ({| mcyc := c'; mtok := [t0'; t1'] |}, MPermit _) => mrun_hist P L0 L1 c' t0' t1' t ((el / P, b) :: hist)
      | ({| mcyc := c'; mtok := [t0'; t1'] |}, _) => mrun_hist P L0 L1 c' t0' t1' t hist
      | _ => hist
      end
  end.

(** per admitted packet: fewer than L0 packets and fewer than L1 bytes were admitted before it in its period *)
Definition hist2_ok (L0 L1 : Z) (hist : list (Z * Z)) : Prop :=
  forall pre k b post, hist = pre ++ (k, b) :: post ->
    sum_in k (map (fun '(k', _) => (k', 1)) post) < L0 /\ sum_in k post < L1.

Lemma mrun_hist_ok P L0 L1 : 0 < P -> 0 < L0 -> 0 < L1 -> forall ops c t0 t1 lo hist,
  0 <= lo -> nondecr_ops lo ops ->
  inv (dim P L0) {| cyc := c; tok := t0 |} lo -> inv (dim P L1) {| cyc := c; tok := t1 |} lo ->
  acct (dim P L0) {| cyc := c; tok := t0 |} (map (fun '(k', _) => (k', 1)) hist) ->
  acct (dim P L1) {| cyc := c; tok := t1 |} hist ->
  hist2_ok L0 L1 hist ->
  hist2_ok L0 L1 (mrun_hist P L0 L1 c t0 t1 ops hist).
Proof.
  intros HP H0 H1.
  assert (Hv0 : valid (dim P L0)) by (unfold valid; cbn; lia).
  assert (Hv1 : valid (dim P L1)) by (unfold valid; cbn; lia).
  induction ops as [|[el b] t IH]; intros c t0 t1 lo hist Hlo Hnd Hi0 Hi1 Ha0 Ha1 Hok; cbn [mrun_hist]; [exact Hok|].
  destruct Hnd as (Hle & Hb0 & Hnd). assert (Hel : 0 <= el) by lia.
  pose proof (inv_mono _ _ lo el Hv0 Hle Hi0) as Hi0'. pose proof (inv_mono _ _ lo el Hv1 Hle Hi1) as Hi1'.
  rewrite macquire2 by assumption. cbv zeta.
  set (k0 := cur_tokens (dim P L0) {| cyc := c; tok := t0 |} (el / P)).
  set (k1 := cur_tokens (dim P L1) {| cyc := c; tok := t1 |} (el / P)).
  destruct (k0 <? L0) eqn:E0; destruct (k1 <? L1) eqn:E1; cbn [andb];
    try (apply (IH c t0 t1 el); assumption).
  assert (A0 : acquire (dim P L0) {| cyc := c; tok := t0 |} el 1 = ({| cyc := el / P; tok := k0 + 1 |}, Permit 0)).
  { rewrite acquire_T0 by (try assumption; reflexivity). cbv zeta. cbn [pP pL dim]. fold k0. rewrite E0. reflexivity. }
  assert (A1 : acquire (dim P L1) {| cyc := c; tok := t1 |} el b = ({| cyc := el / P; tok := k1 + b |}, Permit 0)).
  { rewrite acquire_T0 by (try assumption; reflexivity). cbv zeta. cbn [pP pL dim]. fold k1. rewrite E1. reflexivity. }
  pose proof (acct_step _ _ _ el 1 _ 0 Hv0 eq_refl Hel ltac:(lia) Hi0' Ha0 A0) as (Hlt0 & Ha0' & Hi0'').
  pose proof (acct_step _ _ _ el b _ 0 Hv1 eq_refl Hel Hb0 Hi1' Ha1 A1) as (Hlt1 & Ha1' & Hi1'').
  cbn [pP pL dim] in *.
  apply (IH (el / P) (k0 + 1) (k1 + b) el); try assumption.
  intros pre k b' post Heq. destruct pre as [|x pre']; cbn [app] in Heq.
  - inversion Heq; subst. split; assumption.
  - inversion Heq; subst. eapply Hok. reflexivity.
Qed.

Theorem mqtt_multi_limit P L0 L1 ops :
  0 < P -> 0 < L0 -> 0 < L1 -> nondecr_ops 0 ops ->
  hist2_ok L0 L1 (mrun_hist P L0 L1 0 0 0 ops []).
Proof.
  intros HP H0 H1 Hnd.
  apply (mrun_hist_ok P L0 L1 HP H0 H1 ops 0 0 0 0 []); try assumption; try lia.
  - unfold inv; cbn [cyc tok pP dim]; rewrite Z.div_0_l by lia; lia.
  - unfold inv; cbn [cyc tok pP dim]; rewrite Z.div_0_l by lia; lia.
  - unfold acct; cbn [cyc tok map sum_in fold_right]. split; [intros k c []|lia].
  - unfold acct; cbn [cyc tok sum_in fold_right]. split; [intros k c []|lia].
  - intros pre k c post Heq. destruct pre; discriminate.
Qed.
