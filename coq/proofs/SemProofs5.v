(** C17 proofs, part 5: the cap in force is a function of the LAST configured spec only,
    whatever the path of hot reloads, restarts and failure recoveries. *)
From EG.lib Require Import Base.
From EG.model Require Import Sem.
From EG.proofs Require Import SemProofs SemProofs2.
From Coq Require Import ZifyBool.
Open Scope Z_scope.

Lemma size_w_acquire w x n : size (fst (w_acquire w x n)) = size w.
Proof.
  unfold w_acquire. destruct ((n <=? size w - cur w) && is_nil (wq w)); [reflexivity|].
  destruct (size w <? n); reflexivity.
Qed.

Lemma real_l_release s n : real (l_release s n) = real s.
Proof.
  unfold l_release. destruct (cur (ws s) - n <? 0); [reflexivity|].
  destruct (notify _ _ _) as [[c' wk] rest]. reflexivity.
Qed.

(** every step keeps the semaphore's size; realCapacity changes only by SetMaxCount *)
Lemma size_real_step q s l :
  size (ws (lstep q s l)) = size (ws s) /\
  real (lstep q s l) = match l with LSetMax n => if crashed s then real s else Z.min n (size (ws s)) | _ => real s end.
Proof.
  unfold lstep. destruct (crashed s) eqn:Hc; [destruct l; auto|].
  destruct l as [ | c | | c | n | i].
  - pose proof (size_w_acquire (ws s) WAcc 1) as H.
    destruct (w_acquire (ws s) WAcc 1) as [w []]; cbn [fst] in H; unfold set_ws; cbn; auto.
  - destruct ((0 <? held s) && negb (mem_N c (opened s)) && negb (mem_N c (closed s))); cbn; auto.
  - destruct (0 <? held s); [|auto]. rewrite size_l_release, real_l_release. cbn. auto.
  - destruct (mem_N c (opened s)); [|auto]. rewrite size_l_release, real_l_release. cbn. auto.
  - cbn. auto.
  - destruct (nth_error (pend s) i) as [d|]; [|auto].
    destruct (0 <? d).
    + destruct (q_grow_release_unchecked q).
      * destruct (cur (ws s) - d <? 0); cbn [ws real]; [unfold set_pend; cbn; auto|].
        rewrite size_l_release, real_l_release. unfold set_pend. cbn. auto.
      * destruct (pool s <? d); [auto|]. cbn [ws real]. rewrite size_l_release, real_l_release.
        unfold set_pend. cbn. auto.
    + destruct (d <? 0).
      * pose proof (size_w_acquire (ws (set_pend s (remove_nth i (pend s)))) WAdj (- d)) as H.
        destruct (w_acquire (ws (set_pend s (remove_nth i (pend s)))) WAdj (- d)) as [w []];
          cbn [fst] in H; unfold set_ws, set_pend in *; cbn in *; auto.
      * unfold set_pend. cbn. auto.
Qed.

Record RInv (sz : Z) (r : rstate) : Prop := {
  ri_reach : reachable (r_l r);
  ri_size : size (ws (r_l r)) = sz;
  ri_spec : 0 <= r_spec r;
  ri_real : real (r_l r) = Z.min (r_spec r) sz;
  ri_old : r_old r = 0
}.

Lemma rinv_init sz n : 0 < sz -> 0 <= n -> RInv sz (rinit sz n).
Proof.
  intros Hs Hn. constructor; cbn [rinit r_l r_spec r_old]; auto.
  exists sz, n, []. repeat split; auto.
Qed.

Lemma rinv_step sz r l : 0 < sz -> RInv sz r -> rlabel_ok l -> RInv sz (rstep sz r l).
Proof.
  intros Hs [Hr Hz Hp Hre Ho] Hl. destruct l as [l'| |]; cbn [rstep r_l r_spec r_old rlabel_ok] in *.
  - destruct (size_real_step ideal (r_l r) l') as [E1 E2].
    pose proof (i_crash _ (reachable_Inv _ Hr)) as Hc. rewrite Hc in E2.
    constructor; cbn [r_l r_spec r_old]; auto.
    + now apply reachable_step.
    + congruence.
    + destruct l'; auto.
    + rewrite E2. destruct l'; auto. now rewrite Hz.
  - destruct (is_nil (opened (r_l r))); [|constructor; auto].
    constructor; cbn [r_l r_spec r_old]; auto.
    exists sz, (r_spec r), []. repeat split; auto.
  - contradiction.
Qed.

Lemma rinv_run sz : 0 < sz -> forall ls r, RInv sz r -> Forall rlabel_ok ls -> RInv sz (rrun sz r ls).
Proof.
  intros Hs. induction ls as [|l ls IH]; intros r I H; cbn [rrun fold_left]; auto.
  inversion H; subst. apply IH; auto. now apply rinv_step.
Qed.

(** after ANY history of accepts, closes, hot reloads, SetMaxCount goroutines (any order) and
    listener replacements: realCapacity is the last configured maxConnections (clamped), and in
    every settled state the permits in use are within it *)
Theorem cap_follows_latest_spec sz n ls :
  0 < sz -> 0 <= n -> Forall rlabel_ok ls ->
  let r := rrun sz (rinit sz n) ls in
  real (r_l r) = Z.min (r_spec r) sz /\
  (settled (r_l r) = true -> r_serving r <= Z.min (r_spec r) sz) /\
  r_serving r <= applied_cap (r_l r) /\ r_old r = 0.
Proof.
  intros Hs Hn H r. destruct (rinv_run sz Hs ls _ (rinv_init sz n Hs Hn) H) as [Hr Hz Hp Hre Ho].
  fold r in Hr, Hz, Hp, Hre, Ho. unfold r_serving. rewrite Ho. repeat split; auto.
  - intros S. rewrite <- Hre. pose proof (cap_settled _ Hr S). lia.
  - pose proof (cap_general _ Hr). lia.
Qed.

(** the last configured value itself: the argument of the latest SetMaxConnection, or the
    initial one - never that of an earlier (re)start *)
Fixpoint last_spec (n : Z) (ls : list rlabel) : Z :=
  match ls with
  | [] => n
  | RStep (LSetMax m) :: t => last_spec m t
  | _ :: t => last_spec n t
  end.

Lemma r_spec_run sz : forall ls r, r_spec (rrun sz r ls) = last_spec (r_spec r) ls.
Proof.
  induction ls as [|l ls IH]; intros r; cbn [rrun fold_left last_spec]; auto.
  fold (rrun sz (rstep sz r l) ls). rewrite IH. destruct l as [l'| |]; cbn [rstep r_spec last_spec]; auto.
  - destruct l'; auto.
  - destruct (is_nil (opened (r_l r))); reflexivity.
Qed.

Corollary cap_is_last_configured sz n ls :
  0 < sz -> 0 <= n -> Forall rlabel_ok ls ->
  let r := rrun sz (rinit sz n) ls in
  real (r_l r) = Z.min (last_spec n ls) sz /\
  (settled (r_l r) = true -> r_serving r <= Z.min (last_spec n ls) sz) /\
  r_old r = 0.
Proof.
  intros Hs Hn H r. destruct (cap_follows_latest_spec sz n ls Hs Hn H) as (A & B & _ & C). fold r in A, B, C.
  unfold r in *. rewrite r_spec_run in A, B. cbn [rinit r_spec] in A, B. auto.
Qed.

(** a listener replaced WITHOUT waiting for it to drain: the request still in flight on the old
    listener and the connection accepted by the new one are served together - 2 with a cap of 1 *)
Lemma undrained_restart_exceeds_cap :
  let pre := [RStep LAcquire; RStep (LGot 0%N)] in
  let post := [RStep LAcquire; RStep (LGot 1%N)] in
  r_serving (rrun 20000000 (rinit 20000000 1) (pre ++ [RRestartUndrained] ++ post)) = 2 /\
  r_serving (rrun 20000000 (rinit 20000000 1) (pre ++ [RRestart] ++ post)) = 1 /\
  r_serving (rrun 20000000 (rinit 20000000 1) (pre ++ [RStep (LClose 0%N); RRestart] ++ post)) = 1.
Proof. vm_compute. repeat split; reflexivity. Qed.

(** non-vacuity / the seeded shape: start with 3, hot reload to 1, listener rebuilt (recovery):
    the cap in force is 1, not 3 *)
Example recovery_uses_latest_spec :
  let r := rrun 20000000 (rinit 20000000 3) [RStep (LSetMax 1); RStep (LRun 0); RRestart; RStep LAcquire; RStep (LGot 0%N); RStep LAcquire] in
  real (r_l r) = 1 /\ used (r_l r) = 1 /\ wq (ws (r_l r)) = [(WAcc, 1)].
Proof. vm_compute. repeat split; reflexivity. Qed.
