"""Tiny combinators that render Python values as Coq terms (strings).

All plugins build the cases_*.v files with these, so that escaping and
numeral scopes are handled in exactly one place."""


def Z(x):
    x = int(x)
    return "(%d)%%Z" % x


def N(x):
    x = int(x)
    assert x >= 0
    return "%d%%N" % x


def Nat(x):
    x = int(x)
    assert 0 <= x < 5000, "nat literal too large: %d" % x
    return "%d%%nat" % x


def B(x):
    return "true" if x else "false"


def _printable(s):
    return all(32 <= ord(c) < 127 and c != '"' for c in s)


def S(s):
    """Coq string (list of bytes). Accepts str (utf-8 encoded) or bytes."""
    if isinstance(s, bytes):
        bs = s
    else:
        bs = s.encode("utf-8")
    try:
        t = bs.decode("ascii")
        if _printable(t):
            return '"%s"%%string' % t
    except UnicodeDecodeError:
        pass
    # generic form
    return "(bytes_to_string [%s])" % "; ".join("%d%%N" % b for b in bs)


def L(xs, f=None):
    if f is not None:
        xs = [f(x) for x in xs]
    return "[" + "; ".join(xs) + "]"


def T(*xs):
    return "(" + ", ".join(xs) + ")"


def C(ctor, *args):
    if not args:
        return ctor
    return "(" + ctor + " " + " ".join(args) + ")"


def Opt(x, f=None):
    if x is None:
        return "None"
    return "(Some %s)" % (f(x) if f else x)


def Rec(**fields):
    return "{| " + "; ".join("%s := %s" % kv for kv in fields.items()) + " |}"
