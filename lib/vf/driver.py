"""Driver for one property check: obligations (Coq build + Print Assumptions),
implementation traces (Go harness through `go test -overlay`), model evaluation
(`vm_compute` inside Coq), verdict, evidence, replay.  See DESIGN.md section 2.2.
"""
import concurrent.futures as cf
import fcntl
import glob
import hashlib
import importlib.util
import json
import os
import re
import shutil
import subprocess
import sys
import time

VERIF = os.path.dirname(os.path.dirname(os.path.dirname(os.path.abspath(__file__))))
REPO = os.environ.get("VERIF_REPO", "/repo")
COQ = os.path.join(VERIF, "coq")
RUN = os.path.join(VERIF, "run")
EVID = os.environ.get("VERIF_EVIDENCE_DIR") or os.path.join(VERIF, "evidence")
GOENV = dict(GOFLAGS="-mod=mod", GOPROXY="off", GOSUMDB="off", GOTOOLCHAIN="local",
             CGO_ENABLED="0")
SHARD = 250
DEADLINE = None   # wall-clock budget of one run: shrinking and the failing-input search stop when it is exceeded
FORBIDDEN = re.compile(
    r"\b(Admitted|admit|Axiom|Axioms|Parameter|Parameters|Conjecture|Conjectures|"
    r"Admit\s+Obligations|bypass_check|native_compute)\b|Unset\s+Guard|Unset\s+Positivity|"
    r"Unset\s+Universe\s+Checking|type-in-type|impredicative-set")
AXIOM_ALLOW = {
    # axioms declared by Coq's own standard library; named in the trusted base if they appear
    "functional_extensionality_dep", "Coq.Logic.FunctionalExtensionality.functional_extensionality_dep",
    "classic", "Classical_Prop.classic", "proof_irrelevance", "JMeq_eq", "Eqdep.Eq_rect_eq.eq_rect_eq",
}


def log(*a):
    print("[check]", *a, file=sys.stderr, flush=True)


def sh(cmd, cwd=None, env=None, timeout=None, check=False):
    e = dict(os.environ)
    if env:
        e.update(env)
    t0 = time.time()
    try:
        p = subprocess.run(cmd, cwd=cwd, env=e, timeout=timeout, stdout=subprocess.PIPE,
                           stderr=subprocess.STDOUT, text=True, errors="replace")
        rc, out = p.returncode, p.stdout
    except subprocess.TimeoutExpired as ex:
        rc, out = 124, (ex.stdout or "") + "\n[timeout after %ss]" % timeout
        if isinstance(out, bytes):
            out = out.decode("utf-8", "replace")
    if check and rc != 0:
        raise RuntimeError("command failed (%d): %s\n%s" % (rc, cmd, out[-4000:]))
    return rc, out, time.time() - t0


# --------------------------------------------------------------------------
# plugins


def load_plugin(pid):
    path = os.path.join(VERIF, "plugins", pid + ".py")
    spec = importlib.util.spec_from_file_location("plugin_" + pid, path)
    m = importlib.util.module_from_spec(spec)
    sys.path.insert(0, os.path.join(VERIF, "lib"))
    spec.loader.exec_module(m)
    return m


def known_findings(pid):
    """Entries of the committed known-findings file(s) for one property.
    known_findings.json is the merged, committed list; known_findings/Cnn.json
    fragments (same entry format, a JSON list) are merged in by id."""
    ents, seen = [], set()
    for fp in sorted(glob.glob(os.path.join(VERIF, "known_findings", "*.json"))):
        with open(fp) as f:
            for e in json.load(f):
                if e["id"] not in seen:
                    seen.add(e["id"])
                    ents.append(e)
    p = os.path.join(VERIF, "known_findings.json")
    if os.path.exists(p):
        with open(p) as f:
            for e in json.load(f).get("findings", []):
                if e["id"] not in seen:
                    seen.add(e["id"])
                    ents.append(e)
    return [e for e in ents if e.get("property") == pid or pid in e.get("also", [])]


# --------------------------------------------------------------------------
# Coq side


def gate():
    """Refuse any development that declares axioms / admits / disables checks."""
    bad = []
    for path in glob.glob(os.path.join(COQ, "**", "*.v"), recursive=True):
        if "/run/" in path:
            continue
        with open(path, errors="replace") as f:
            txt = f.read()
        # strip comments (non-nested approximation is enough: we only need to not miss code)
        code = re.sub(r"\(\*.*?\*\)", " ", txt, flags=re.S)
        for m in FORBIDDEN.finditer(code):
            bad.append("%s: %s" % (os.path.relpath(path, VERIF), m.group(0)))
        for m in re.finditer(r"^\s*(Variable|Variables|Hypothesis|Hypotheses|Context)\b", code, flags=re.M):
            # allowed only inside a Section
            before = code[:m.start()]
            opened = len(re.findall(r"^\s*Section\s+\w+", before, flags=re.M))
            closed = len(re.findall(r"^\s*End\s+\w+", before, flags=re.M))
            mods = len(re.findall(r"^\s*Module\s+(Type\s+)?\w+", before, flags=re.M))
            if opened - max(0, closed - mods) <= 0:
                bad.append("%s: %s outside a Section" % (os.path.relpath(path, VERIF), m.group(1)))
    return bad


def coq_files():
    fs = []
    for d in ("lib", "gen", "model", "proofs", "props"):
        fs += sorted(glob.glob(os.path.join(COQ, d, "*.v")))
    return [os.path.relpath(f, COQ) for f in fs]


def coq_build(targets=None, jobs=16, timeout=3000):
    """(Re)generate _CoqProject/Makefile if the file list changed, then make the
    targets (all when None). Serialised with a lock: several checks may run at once."""
    os.makedirs(RUN, exist_ok=True)
    with open(os.path.join(RUN, ".coq.lock"), "w") as lk:
        fcntl.flock(lk, fcntl.LOCK_EX)
        proj = "-R . EG\n-arg -w -arg -notation-overridden,-deprecated-hint-without-locality,-deprecated-instance-without-locality\n" + "\n".join(coq_files()) + "\n"
        pp = os.path.join(COQ, "_CoqProject")
        old = open(pp).read() if os.path.exists(pp) else None
        if old != proj or not os.path.exists(os.path.join(COQ, "Makefile")):
            with open(pp, "w") as f:
                f.write(proj)
            sh(["coq_makefile", "-f", "_CoqProject", "-o", "Makefile"], cwd=COQ, check=True)
        cmd = ["make", "-j%d" % jobs] + (list(targets) if targets else [])
        rc, out, dt = sh(cmd, cwd=COQ, timeout=timeout)
    return rc, out, dt


def coqc_run(vfile, timeout=900):
    return sh(["coqc", "-R", COQ, "EG", "-w", "-notation-overridden", vfile],
              cwd=os.path.dirname(vfile), timeout=timeout)


def check_obligations(pl, rundir):
    """Every registered theorem must exist in the compiled development and depend
    only on allow-listed (stdlib) axioms."""
    lines = ["From Coq Require Import String.", "Set Printing Width 100000.", "Set Printing Depth 100000."]
    mods = []
    for mod, _ in pl.THEOREMS:
        if mod not in mods:
            mods.append(mod)
    for mod in mods:
        lines.append("Require %s." % mod)
    for mod, thm in pl.THEOREMS:
        lines.append('Eval compute in "@@THM %s.%s"%%string.' % (mod, thm))
        lines.append("Check %s.%s." % (mod, thm))
        lines.append('Eval compute in "@@ASM"%string.')
        lines.append("Print Assumptions %s.%s." % (mod, thm))
    vf = os.path.join(rundir, "obl.v")
    with open(vf, "w") as f:
        f.write("\n".join(lines) + "\n")
    rc, out, dt = coqc_run(vf)
    res = []
    chunks = re.split(r'=\s*"@@THM ([^"]+)"%?s?t?r?i?n?g?\s*:\s*string', out)
    # chunks: [pre, name1, body1, name2, body2, ...]
    seen = {}
    for i in range(1, len(chunks), 2):
        name, body = chunks[i], chunks[i + 1]
        parts = re.split(r'=\s*"@@ASM"(?:%string)?\s*:\s*string', body)
        stmt = parts[0].strip()
        asm = parts[1].strip() if len(parts) > 1 else ""
        axioms = []
        if "Closed under the global context" in asm:
            ok = True
        else:
            ok = asm.startswith("Axioms:")
            for m in re.finditer(r"^([\w\.']+)\s*:", asm, flags=re.M):
                if m.group(1) != "Axioms":
                    axioms.append(m.group(1))
            for a in axioms:
                if a not in AXIOM_ALLOW and a.split(".")[-1] not in AXIOM_ALLOW:
                    ok = False
        seen[name] = dict(theorem=name, statement=re.sub(r"\s+", " ", stmt)[:1500], axioms=axioms, ok=ok)
    for mod, thm in pl.THEOREMS:
        n = "%s.%s" % (mod, thm)
        res.append(seen.get(n, dict(theorem=n, statement="", axioms=[], ok=False, missing=True)))
    if rc != 0:
        for r in res:
            if "missing" in r:
                r["error"] = out[-1500:]
    return res, out


def coqchk(pl, timeout=1800):
    """Independent re-check of the compiled property files (thorough tier)."""
    mods = []
    for mod, _ in pl.THEOREMS:
        if mod not in mods:
            mods.append(mod)
    rc, out, dt = sh(["coqchk", "-silent", "-o", "-R", COQ, "EG"] + mods, cwd=COQ, timeout=timeout)
    m = re.search(r"\* Axioms:(.*?)\n\s*\n\* Constants", out, flags=re.S)
    axioms = []
    if m:
        txt = m.group(1).strip()
        if txt != "<none>":
            axioms = [l.strip() for l in txt.splitlines() if l.strip()]
    clean = all(("* %s: <none>" % k) in re.sub(r"\s+", " ", out) for k in (
        "Constants/Inductives relying on type-in-type", "Constants/Inductives relying on unsafe (co)fixpoints",
        "Inductives whose positivity is assumed"))
    return dict(exit=rc, wall_s=round(dt, 1), axioms=axioms, clean=clean, modules=mods,
                ok=(rc == 0 and clean and all(a.split()[0].split(".")[-1] in AXIOM_ALLOW or a.split()[0] in AXIOM_ALLOW for a in axioms)),
                tail=out[-600:] if rc != 0 else "")


def eval_cases(pl, rundir, cases, kf_open, tag="cases"):
    """Encode cases as Coq terms, evaluate the plugin's check functions by
    vm_compute (sharded, in parallel). Returns list of result dicts aligned with cases."""
    groups = {}
    for i, c in enumerate(cases):
        groups.setdefault(c["grp"], []).append(i)
    jobs = []
    for g, idxs in groups.items():
        fn = pl.GROUPS[g]
        for s in range(0, len(idxs), SHARD):
            part = idxs[s:s + SHARD]
            name = "%s_%s_%d" % (tag, g, s // SHARD)
            vf = os.path.join(rundir, name + ".v")
            with open(vf, "w") as f:
                f.write(pl.coq_header(kf_open) + "\n")
                f.write("Set Printing Width 100000.\nSet Printing Depth 1000000.\n")
                f.write("Definition cases := [\n  ")
                f.write(";\n  ".join(pl.encode(cases[i]) for i in part))
                f.write("\n].\n")
                f.write("Definition R := Eval vm_compute in List.map %s cases.\nPrint R.\n" % fn)
            jobs.append((vf, part))
    results = [None] * len(cases)
    errors = []

    def one(job):
        vf, part = job
        rc, out, dt = coqc_run(vf)
        return job, rc, out

    with cf.ThreadPoolExecutor(max_workers=12) as ex:
        for (vf, part), rc, out in ex.map(one, jobs):
            if rc != 0:
                errors.append("%s: coqc failed:\n%s" % (os.path.basename(vf), out[-3000:]))
                continue
            m = re.search(r"R\s*=\s*(.*?)\s*:\s*list", out, flags=re.S)
            body = m.group(1) if m else ""
            tups = re.findall(r"\(\s*(true|false)\s*,\s*(true|false)\s*,\s*(\d+)(?:%N)?\s*,\s*(\d+)(?:%N)?\s*\)", body)
            if len(tups) != len(part):
                errors.append("%s: expected %d results, parsed %d:\n%s" % (os.path.basename(vf), len(part), len(tups), out[-2000:]))
                continue
            for i, t in zip(part, tups):
                results[i] = dict(corr=t[0] == "true", prop=t[1] == "true", cls=int(t[2]), attrib=int(t[3]))
    return results, errors


def explain_case(pl, rundir, case, kf_open):
    """Ask the model for its own observables on one case (for replay files)."""
    fn = getattr(pl, "EXPLAIN", {}).get(case["grp"])
    if not fn:
        return ""
    vf = os.path.join(rundir, "explain.v")
    with open(vf, "w") as f:
        f.write(pl.coq_header(kf_open) + "\nSet Printing Width 200.\nSet Printing Depth 100000.\n")
        f.write("Eval vm_compute in %s %s.\n" % (fn, pl.encode(case)))
    rc, out, dt = coqc_run(vf, timeout=120)
    return out[-6000:]


# --------------------------------------------------------------------------
# Go side


def go_modfile():
    """Copy of /repo/go.mod with the compile-only quic-go stub substituted; keeps
    `go` from ever writing into /repo."""
    os.makedirs(RUN, exist_ok=True)
    src = open(os.path.join(REPO, "go.mod")).read()
    stub = os.path.join(VERIF, "tools", "quicstub")
    mod = src + "\nreplace github.com/lucas-clemente/quic-go => %s\n" % stub
    mp = os.path.join(RUN, "go.verif.mod")
    if not os.path.exists(mp) or open(mp).read() != mod:
        with open(mp, "w") as f:
            f.write(mod)
    sp = os.path.join(RUN, "go.verif.sum")
    ssrc = open(os.path.join(REPO, "go.sum")).read()
    if not os.path.exists(sp) or open(sp).read() != ssrc:
        with open(sp, "w") as f:
            f.write(ssrc)
    return mp


def run_harness(pl, h, rundir, seed, tier, n, out_path, replay=None, stream="", extra_env=None):
    """Build + run one Go harness against /repo's working tree."""
    pkgdir = os.path.join(REPO, h["pkg"])
    pkgname = h.get("pkgname") or os.path.basename(h["pkg"])
    ov = {}
    libsrc = open(os.path.join(VERIF, "harness", "genlib", "lib.go.tmpl")).read().replace("{{PKG}}", pkgname)
    libdst = os.path.join(rundir, "zz_verif_lib_%s_test.go" % pkgname)
    with open(libdst, "w") as f:
        f.write(libsrc)
    ov[os.path.join(pkgdir, "zz_verif_lib_test.go")] = libdst
    for rel in h["files"]:
        ov[os.path.join(pkgdir, os.path.basename(rel))] = os.path.join(VERIF, rel)
    for dst, rel in h.get("extra_overlay", {}).items():
        ov[os.path.join(REPO, dst)] = os.path.join(VERIF, rel)
    ovp = os.path.join(rundir, "overlay_%s.json" % h["name"])
    with open(ovp, "w") as f:
        json.dump({"Replace": ov}, f, indent=1)
    env = dict(GOENV)
    env.update(VERIF_OUT=out_path, VERIF_SEED=str(seed), VERIF_TIER=tier, VERIF_N=str(n),
               VERIF_STREAM=stream, VERIF_CORPUS=os.path.join(VERIF, "corpus", pl.ID))
    if replay:
        env["VERIF_REPLAY"] = replay
    else:
        env["VERIF_REPLAY"] = ""
    if extra_env:
        env.update(extra_env)
    cmd = ["go", "test", "-tags", "verif", "-overlay", ovp, "-modfile", go_modfile(),
           "-ldflags=-checklinkname=0", "-vet=off", "-count=1", "-run", "^%s$" % h["run"],
           "-timeout", "%ds" % h.get("timeout", 600)]
    if h.get("race") and tier == "thorough":
        cmd.append("-race")
        env["CGO_ENABLED"] = "1"
    cmd.append("./" + h["pkg"])
    rc, out, dt = sh(cmd, cwd=REPO, env=env, timeout=h.get("timeout", 600) + 300)
    return rc, out, dt


def read_cases(path):
    cs = []
    if not os.path.exists(path):
        return cs
    with open(path) as f:
        for line in f:
            line = line.strip()
            if line:
                cs.append(json.loads(line))
    return cs


# --------------------------------------------------------------------------
# verdict / evidence


def write_json(path, obj):
    os.makedirs(os.path.dirname(path), exist_ok=True)
    tmp = path + ".tmp"
    with open(tmp, "w") as f:
        json.dump(obj, f, indent=1, sort_keys=False)
        f.write("\n")
    os.replace(tmp, path)


def case_hash(c):
    return hashlib.sha1(json.dumps([c.get("grp"), c.get("in")], sort_keys=True).encode()).hexdigest()[:12]


def compact(c, limit=1800):
    s = json.dumps({"grp": c.get("grp"), "in": c.get("in"), "obs": c.get("obs")}, sort_keys=True)
    if len(s) > limit:
        return {"grp": c.get("grp"), "truncated_json": s[:limit] + "..."}
    return {"grp": c.get("grp"), "in": c.get("in"), "obs": c.get("obs")}


def main(argv):
    import argparse
    ap = argparse.ArgumentParser()
    ap.add_argument("pid")
    ap.add_argument("--tier", default=os.environ.get("VERIF_TIER") or "quick")
    ap.add_argument("--seed", type=int, default=None)
    ap.add_argument("--replay", default=None)
    ap.add_argument("--keep", action="store_true", help="keep run/<pid> scratch files")
    ap.add_argument("--n", type=int, default=None)
    a = ap.parse_args(argv)
    tier = "thorough" if a.tier == "thorough" else "quick"
    seed = a.seed if a.seed is not None else int(os.environ.get("VERIF_SEED") or 1)
    pid = a.pid
    global DEADLINE
    DEADLINE = time.time() + float(os.environ.get("VERIF_BUDGET_S") or (900 if tier == "quick" else 3600))
    if a.replay:
        a.replay = os.path.abspath(a.replay)
    t0 = time.time()
    pl = load_plugin(pid)
    rundir = os.path.join(RUN, pid + ("_replay" if a.replay else "") + ("_" + os.environ["VERIF_RUN_TAG"] if os.environ.get("VERIF_RUN_TAG") else ""))
    shutil.rmtree(rundir, ignore_errors=True)
    os.makedirs(rundir)
    evpath = os.path.join(EVID, pid + ".json")
    kfs = known_findings(pid)
    kf_open = [k for k in kfs if k.get("status") == "open"]
    violations = []      # (kind, text, replay_payload)
    notes = []

    # 0. gate
    bad = gate()
    # 1. regenerate source-derived Coq, build
    if hasattr(pl, "pregen"):
        pl.pregen(REPO, COQ)
    rc, out, dt = coq_build(getattr(pl, "COQ_TARGETS", None))
    build_ok = rc == 0
    eval_ok = build_ok
    if not build_ok:
        log("coq build failed:\n" + out[-3000:])
        if getattr(pl, "CHECK_TARGETS", None):
            # the proofs no longer build (e.g. a source-derived definition changed) but the executable model
            # may: cases are still evaluated and the failing-input search still runs
            rc2, out2, _ = coq_build(pl.CHECK_TARGETS)
            eval_ok = rc2 == 0
    # 2. obligations
    obls, oblout = check_obligations(pl, rundir)
    if bad:
        for o in obls:
            o["ok"] = False
        notes.append("gate: forbidden constructs: " + "; ".join(bad[:10]))
    chk = None
    if tier == "thorough" and build_ok and not a.replay and not os.environ.get("VERIF_NO_COQCHK"):
        chk = coqchk(pl)
        log("coqchk: exit %d, axioms %s, %.0fs" % (chk["exit"], chk["axioms"] or "none", chk["wall_s"]))
        if not chk["ok"]:
            obls.append(dict(theorem="coqchk " + " ".join(chk["modules"]), statement="independent re-check of the compiled .vo files",
                             axioms=chk["axioms"], ok=False, error=chk["tail"]))
        else:
            obls.append(dict(theorem="coqchk " + " ".join(chk["modules"]), statement="independent re-check of the compiled .vo files (coqchk -silent -o): no type-in-type, no unsafe fixpoints, no assumed positivity",
                             axioms=chk["axioms"], ok=True))
    broken_obl = [o for o in obls if not o["ok"]]
    log("obligations: %d/%d discharged (build %.1fs)" % (len(obls) - len(broken_obl), len(obls), dt))

    # 3. implementation traces
    n_req = a.n if a.n is not None else pl.CASES[tier]
    cases = []
    harness_fail = []
    hstats = []

    def do_h(h, seed_, n_, stream="", replay=None, suffix=""):
        outp = os.path.join(rundir, "trace_%s%s.jsonl" % (h["name"], suffix))
        if os.path.exists(outp):
            os.remove(outp)
        share = h.get("share", 1.0)
        rc_, out_, dt_ = run_harness(pl, h, rundir, seed_, tier, max(1, int(n_ * share)), outp, replay=replay, stream=stream)
        cs = read_cases(outp)
        return h, rc_, out_, dt_, cs

    hs = [h for h in pl.HARNESSES if tier == "thorough" or not h.get("thorough_only")]
    with cf.ThreadPoolExecutor(max_workers=4) as ex:
        futs = [ex.submit(do_h, h, seed, n_req, "", a.replay) for h in hs]
        for fu in futs:
            h, rc_, out_, dt_, cs = fu.result()
            hstats.append(dict(harness=h["name"], pkg=h["pkg"], cases=len(cs), wall_s=round(dt_, 1), exit=rc_))
            log("harness %s: %d cases, exit %d, %.1fs" % (h["name"], len(cs), rc_, dt_))
            if rc_ != 0:
                harness_fail.append((h, out_))
                log(out_[-3000:])
            cases += cs

    # 4. model evaluation
    results, errors = ([], [])
    if cases and eval_ok:
        results, errors = eval_cases(pl, rundir, cases, kf_open)
    for e in errors:
        log(e)

    # 5. verdict
    corr_bad, prop_bad, known_hits = [], [], {}
    classes = {}
    ncorr = 0
    for c, r in zip(cases, results):
        if r is None:
            continue
        classes[r["cls"]] = classes.get(r["cls"], 0) + 1
        if r["prop"]:
            if r["corr"]:
                ncorr += 1
            else:
                corr_bad.append((c, r))
        else:
            if r["attrib"] > 0 and r["corr"]:
                known_hits.setdefault(r["attrib"], []).append(c)
                ncorr += 1
            else:
                prop_bad.append((c, r))
                if not r["corr"]:
                    corr_bad.append((c, r))
    kf_by_flag = {k.get("flag_index"): k for k in kf_open}
    for idx, cs in sorted(known_hits.items()):
        k = kf_by_flag.get(idx)
        if k is None:
            # attributed to a flag that is not an open finding: treat as violation
            for c in cs:
                prop_bad.append((c, dict(corr=True, prop=False, cls=0, attrib=idx)))
            continue
        print("KNOWN-FINDING: property=%s %s %s (%d case(s) this run, e.g. %s)" % (
            pid, k["id"], k["what"], len(cs), cs[0]["id"]))

    replay_dir = os.path.join(EVID, "replays")
    nviol = 0

    def report(kind, payload, nofound=False):
        nonlocal nviol
        nviol += 1
        h = hashlib.sha1(json.dumps(payload, sort_keys=True, default=str).encode()).hexdigest()[:10]
        rp = os.path.join(replay_dir, "%s-%s-%s.json" % (pid, kind, h))
        write_json(rp, payload)
        print("VIOLATION property=%s replay=%s%s" % (pid, rp, " no-failing-input-found" if nofound else ""))

    shown = 0
    seen_sig = set()
    for c, r in prop_bad:
        sig = pl.signature(c, r) if hasattr(pl, "signature") else c.get("grp")
        if sig in seen_sig or shown >= 5:
            continue
        seen_sig.add(sig)
        shown += 1
        c2 = shrink(pl, c, rundir, seed, tier, kf_open) if (hasattr(pl, "shrink_candidates") and time.time() < DEADLINE) else c
        report("prop", dict(property=pid, kind="property fails on the implementation's own observables",
                            cases=[dict(id=c2.get("id"), grp=c2["grp"], **{"in": c2["in"]})],
                            observed=c2.get("obs"), corr_with_model=r["corr"],
                            model_says=explain_case(pl, rundir, c2, kf_open),
                            how_to_replay="./check %s --replay <this file>" % pid))

    structural = []
    if broken_obl:
        structural.append(("obligation", [o["theorem"] + (": missing/does not compile" if o.get("missing") else ": axioms " + ",".join(o["axioms"])) for o in broken_obl]))
    if not build_ok:
        structural.append(("coq-build", [out[-1500:]]))
    if errors:
        structural.append(("model-eval", [e[-1500:] for e in errors[:3]]))
    if harness_fail:
        structural.append(("harness", ["%s: exit!=0\n%s" % (h["name"], o[-1500:]) for h, o in harness_fail]))
    if corr_bad and not prop_bad:
        structural.append(("correspondence", ["%d case(s) where model and implementation differ, first: %s" % (len(corr_bad), corr_bad[0][0]["id"])]))
    if not cases and not harness_fail:
        structural.append(("harness", ["no cases produced"]))

    searched = None
    if structural and not prop_bad and not a.replay:
        # 3.4 failing-input search: adversarial stream with fresh seeds, prop only
        found = None
        searched = 0
        if eval_ok and not errors:
            for k in range(1, 4 if tier == "quick" else 9):
                if time.time() > DEADLINE:
                    notes.append("failing-input search stopped: run budget exhausted")
                    break
                scs = []
                for h in hs:
                    _, rc_, out_, dt_, cs = do_h(h, seed * 1000 + k, n_req, "adv", None, "_s%d" % k)
                    scs += cs
                if not scs:
                    continue
                rs, errs = eval_cases(pl, rundir, scs, kf_open, tag="search%d" % k)
                searched += len(scs)
                for c, r in zip(scs, rs):
                    if r is not None and not r["prop"] and not (r["attrib"] > 0 and r["corr"] and r["attrib"] in kf_by_flag):
                        found = (c, r)
                        break
                if found:
                    break
        if found:
            c, r = found
            report("prop", dict(property=pid, kind="property fails on the implementation's own observables (found by the failing-input search after: %s)" % ", ".join(k for k, _ in structural),
                                cases=[dict(id=c.get("id"), grp=c["grp"], **{"in": c["in"]})], observed=c.get("obs"),
                                broken=[dict(kind=k, detail=d) for k, d in structural],
                                model_says=explain_case(pl, rundir, c, kf_open)))
        else:
            payload = dict(property=pid, kind="no longer shown to hold",
                           broken=[dict(kind=k, detail=d) for k, d in structural],
                           searched_cases=searched,
                           note="an obligation or the model/implementation correspondence no longer checks; the search found no input on which the property itself fails")
            if corr_bad:
                c, r = corr_bad[0]
                payload["first_mismatch"] = dict(id=c.get("id"), grp=c["grp"], **{"in": c["in"]})
                payload["observed"] = c.get("obs")
                payload["model_says"] = explain_case(pl, rundir, c, kf_open)
                payload["cases"] = [dict(id=c.get("id"), grp=c["grp"], **{"in": c["in"]})]
            report("unproved", payload, nofound=True)
    elif structural and a.replay:
        for k, d in structural:
            log("replay: %s: %s" % (k, d))

    # stale known findings (witness no longer fails) are reported in the evidence only
    stale = []
    for k in kf_open:
        if k.get("flag_index") not in known_hits and k.get("expect_every_run"):
            stale.append(k["id"])

    # 6. evidence
    wall = time.time() - t0
    nontrivial_classes = sorted(k for k in classes if k > 0)
    distinct = len({case_hash(c) for c, r in zip(cases, results) if r is not None and r["cls"] > 0})
    samples = []
    for o in obls[:3]:
        samples.append(dict(obligation=o["theorem"], statement=o["statement"][:600], axioms=o["axioms"]))
    byg = {}
    for c in cases:
        if c["grp"] not in byg:
            byg[c["grp"]] = c
    for g, c in byg.items():
        samples.append(compact(c))
    dist = pl.distribution(cases) if hasattr(pl, "distribution") else {}
    ev = dict(
        property_id=pid, tier=tier, seed=seed, level="proof",
        coverage=dict(
            obligations=len(obls), discharged=len(obls) - len(broken_obl),
            checker_cmd="make -C coq -j16 (coq_makefile, full .vo build with coqc 8.16.1) ; coqc run/%s/obl.v (Check + Print Assumptions of every registered theorem)" % pid,
            trusted_base=list(getattr(pl, "TRUSTED_BASE", [])) + [
                "Coq 8.16.1 kernel incl. vm_compute (no native_compute); axioms per theorem as printed by Print Assumptions: " +
                (", ".join(sorted({x for o in obls for x in o["axioms"]})) or "none (all closed under the global context)"),
                "correspondence machinery: Go harness + lib/vf/driver.py + plugins/%s.py encoder" % pid],
            theorems=[dict(name=o["theorem"], ok=o["ok"], axioms=o["axioms"]) for o in obls],
            evaluations=len(cases), distinct_nontrivial=distinct,
            traces_validated_against_impl=ncorr,
            correspondence_mismatches=len(corr_bad), property_failures=len(prop_bad),
            known_finding_hits={str(k): len(v) for k, v in known_hits.items()},
            rule=getattr(pl, "RULE", ""), class_histogram={str(k): v for k, v in sorted(classes.items())},
            nontrivial_classes=len(nontrivial_classes),
            input_distribution=dist, harnesses=hstats, samples=samples,
            coqchk=chk, failing_input_search_cases=searched, stale_known_findings=stale, notes=notes),
        assumptions=list(getattr(pl, "ASSUMPTIONS", [])),
        wall_s=round(wall, 1), violations=nviol)
    if hasattr(pl, "extra_evidence"):
        ev["coverage"].update(pl.extra_evidence(tier, cases, results))
    if not a.replay:
        write_json(evpath, ev)
    if not a.keep and nviol == 0 and not a.replay:
        shutil.rmtree(rundir, ignore_errors=True)
    if a.replay:
        for c, r in zip(cases, results):
            print("replay case %s: corr=%s prop=%s attrib=%s" % (c.get("id"), r and r["corr"], r and r["prop"], r and r["attrib"]))
            print("  observed:", json.dumps(c.get("obs"))[:3000])
            print("  model:", explain_case(pl, rundir, c, kf_open)[-3000:])
    log("%s %s: %d cases, corr ok %d, mismatches %d, prop failures %d, violations %d, %.1fs" % (
        pid, tier, len(cases), ncorr, len(corr_bad), len(prop_bad), nviol, wall))
    return 1 if nviol else 0


def shrink(pl, c, rundir, seed, tier, kf_open, budget=40):
    """Greedy delta debugging: the plugin proposes smaller inputs; a candidate is
    kept when the implementation (re-run in replay mode) still fails `prop`."""
    cur = c
    tries = 0
    improved = True
    while improved and tries < budget:
        improved = False
        for cand_in in pl.shrink_candidates(cur["in"], cur["grp"]):
            tries += 1
            if tries > budget or (DEADLINE and time.time() > DEADLINE):
                return cur
            rp = os.path.join(rundir, "shrink_in.json")
            write_json(rp, [dict(id="shrink", grp=cur["grp"], **{"in": cand_in})])
            h = [h for h in pl.HARNESSES if cur["grp"] in h.get("groups", [cur["grp"]])][0]
            outp = os.path.join(rundir, "shrink_out.jsonl")
            if os.path.exists(outp):
                os.remove(outp)
            run_harness(pl, h, rundir, seed, tier, 0, outp, replay=rp)
            cs = [x for x in read_cases(outp) if x["grp"] == cur["grp"]]
            if not cs:
                continue
            rs, errs = eval_cases(pl, rundir, cs[:1], kf_open, tag="shrink")
            if rs and rs[0] is not None and not rs[0]["prop"] and not (rs[0]["attrib"] > 0 and rs[0]["corr"]):
                cur = cs[0]
                improved = True
                break
    return cur
