"""C11 hot update: plugin for ./check (see lib/vf/driver.py for the protocol)."""
from vf.coqterm import Z, N, B, S, L, T, C, Rec, Nat

ID = "C11"
COQ_TARGETS = ["props/C11.vo", "model/ReloadCheck.vo"]
THEOREMS = [
    ("EG.props.C11", "C11_one_generation_per_request"),
    ("EG.props.C11", "C11_new_requests_see_new"),
    ("EG.props.C11", "C11_old_generation_completes"),
    ("EG.props.C11", "C11_old_generation_completes_pure_kinds"),
    ("EG.props.C11", "C11_old_pipeline_generation_completes"),
    ("EG.props.C11", "C11_refuted_rl_inherit"),
    ("EG.props.C11", "C11_refuted_pipeline_foreign_kind"),
    ("EG.props.C11", "C11_unchanged_apply_noop"),
    ("EG.props.C11", "C11_other_objects_untouched"),
    ("EG.props.C11", "C11_update_never_unavailable"),
    ("EG.props.C11", "C11_hot_update_no_restart"),
    ("EG.props.C11", "C11_registry_bad_entry_frame"),
    ("EG.props.C11", "C11_update_storm_last_wins"),
    ("EG.props.C11", "C11_checker_sound_pipe"),
    ("EG.props.C11", "C11_checker_sound_conc"),
    ("EG.props.C11", "C11_checker_sound_tc"),
    ("EG.props.C11", "C11_checker_sound_tcreal"),
    ("EG.props.C11", "C11_checker_sound_reg"),
]
_HOOKS = {"pkg/util/ratelimiter/zz_verif_c11_hook.go": "harness/pipeline/zz_verif_c11_hook_rl.go",
          "pkg/filters/proxy/zz_verif_c11_hook.go": "harness/pipeline/zz_verif_c11_hook_proxy.go"}
HARNESSES = [
    dict(name="pipeline", pkg="pkg/object/pipeline", files=["harness/pipeline/zz_verif_c11_test.go"],
         run="TestVerifC11Pipeline", groups=["rlf", "inh", "pipe"], timeout=600, share=0.45, extra_overlay=_HOOKS),
    dict(name="registry", pkg="pkg/supervisor", files=["harness/supervisor/zz_verif_c11_test.go"],
         run="TestVerifC11Registry", groups=["reg"], timeout=300, share=0.08),
    dict(name="tc", pkg="pkg/object/trafficcontroller", files=["harness/trafficcontroller/zz_verif_c11_test.go"],
         run="TestVerifC11TC", groups=["tc", "tcreal"], timeout=300, share=0.2),
    dict(name="mux", pkg="pkg/object/httpserver", files=["harness/httpserver/zz_verif_c11_test.go", "harness/httpserver/zz_verif_c11_cert_test.go",
                "harness/httpserver/zz_verif_c11_storm_test.go"],
         run="TestVerifC11Mux", groups=["sched", "conc", "restart", "storm"], timeout=900, share=0.27, race=True),
]
GROUPS = {"rlf": "(check_rlf pinned)", "inh": "(check_inh pinned)", "pipe": "(check_pipe pinned)",
          "tc": "(check_tc pinned)", "sched": "(check_sched pinned)", "conc": "(check_conc pinned)", "restart": "(check_restart pinned)", "tcreal": "(check_tcreal pinned)", "reg": "(check_reg pinned)", "storm": "(check_storm pinned)"}
EXPLAIN = {"rlf": "explain_rlf pinned", "inh": "explain_inh", "pipe": "explain_pipe pinned",
           "tc": "explain_tc", "sched": "explain_sched", "conc": "explain_conc", "restart": "explain_restart", "tcreal": "explain_tcreal", "reg": "explain_reg", "storm": "explain_storm"}
CASES = {"quick": 900, "thorough": 6000}
RULE = ("cases: rlf = RateLimiter filter Init/Inherit/Handle histories incl. requests on superseded generations; "
        "inh = the same for 13 further filter kinds with a never-inherited twin; pipe = Pipeline.Init/Inherit/Handle with "
        "lifecycle-recording + real filters incl. kind changes; tc = TrafficController op sequences over 2 namespaces; "
        "sched = one request with reloads placed inside it (before load / in GetHandler / in body read / in handler / after); "
        "conc = concurrent clients vs reloads (both incl. generation pairs with identical rules, cacheSize>0, server-/path-level "
        "ipFilters, a warm cache and a second client identity); tc ops also record the view from INSIDE every lifecycle "
        "callback; restart = runtime.needRestartServer/reload over spec pairs (hot-only vs listener-relevant changes), one in "
        "eight with a real keep-alive connection (http or https with a fixed self-signed key pair) on a loopback port held "
        "across the reload; plus: loaded spec still Equals a fresh parse of its YAML, and probe requests after the update "
        "are answered like a runtime that only ever had the new spec; tcreal = ApplyPipelineForSpec with real Pipeline "
        "objects (explicit / generated flow, lifecycle-counting filters), fresh Spec parsed from YAML per call; reg = ObjectRegistry.applyConfig rounds with undecodable entries (unknown "
        "kind / malformed YAML / invalid spec) next to healthy objects appearing, changing, disappearing, vs a twin "
        "registry fed the rounds without them; rlf also records the policy each limiter OBJECT enforces vs a never-inherited "
        "twin (specs with duplicate policy names). non-trivial = case ran (spec accepted); class bits: rlf +1 inherit +2 limited "
        "+4 superseded generation handled a matching request; inh +1 superseded handled +2 closed handled +4*kind; pipe +1 "
        "superseded handled +2 closes +4 inherits; tc +1 no-op apply +2 inherit +4 close; sched +1 served by a superseded "
        "generation +2 reload inside the request +4 status 200; conc +1 two generations' answers seen during reloads; "
        "distinct = distinct (group, input) hashes among non-trivial cases")
TRUSTED_BASE = [
    "model coq/model/Reload.v (+ RL.v for the RateLimiter filter) is hand-written; tied to pkg/object/httpserver, "
    "pkg/object/pipeline, pkg/object/trafficcontroller and 14 filter kinds by the per-run correspondence (sampled)",
    "the step granularity of the request/reload transition system (LoadInst, Search, GetHandler, Rewrite, XFF, Limit, Handle "
    "vs StoreInst) is validated by placing real reloads at those points of a real request (grp sched) and by concurrent "
    "sampling (grp conc); it is not proved about Go",
    "virtual clock for the limiter and a stubbed proxy transport are injected through verif-only overlay files",
    "search/rewrite results, URL-rule matches, duration parsing and the answers of never-inherited twin filters are oracle "
    "tables computed by the real code",
]
ASSUMPTIONS = ["atomic.Value Load/Store of mux.inst and sync.Map operations are atomic steps",
               "TrafficController operations are serialised by tc.mutex (each is one atomic step)",
               "RateLimiter specs are valid (every URL rule is bound to a policy with a non-zero period) in the no-panic theorems"]

MANIFEST = dict(
    design_ref="DESIGN.md section 6 C11",
    level_text=("Theorems over an executable transition-system model: for ALL interleavings of request steps with instance "
                "stores every request's state equals a sequential execution under the single generation it loaded, and "
                "requests that load after a store see it; for ALL Init/Inherit/Handle histories the ideal RateLimiter filter "
                "never panics and Inherit leaves every existing generation's answers unchanged (refuted for the pinned code by "
                "closed witnesses); kinds with Inherit=Init answer as a function of own spec and own history only; pipeline "
                "generations keep working after being inherited from; Apply with an equal spec is the identity with no "
                "lifecycle event; every TrafficController operation leaves all other objects untouched. Model tied to the Go "
                "code on every run by differential correspondence incl. reloads placed inside a live request."),
    level_note=("Trusted: Coq kernel + vm_compute; hand-written model validated only on sampled histories/schedules; step "
                "granularity of serveHTTP validated by the scheduled and concurrent harnesses, not proved about Go; runtime "
                "(HTTPS/HTTP3/certificate changes of the listener), MQTT/Kafka/Wasm/HeaderLookup/RemoteFilter kinds not covered."),
    technique="Coq proof (invariants over labelled transition systems and op histories) + model/implementation correspondence by vm_compute",
)


def coq_header(kf_open):
    flags = {k.get("flag") for k in kf_open}
    return ("From EG.lib Require Import Base.\nFrom EG.model Require Import RL Reload ReloadCheck.\nOpen Scope Z_scope.\n"
            "Definition pinned : rquirks := {| rq_steal := %s; rq_foreign := %s |}.\n"
            % (B("q_rl_inherit_steals_limiter" in flags), B("q_pipe_inherit_foreign_kind" in flags)))


# ---------------------------------------------------------------------------
# encoders


def _fspec(s):
    return Rec(
        fs_policies=L([Rec(fp_name=S(p["name"]), fp_T=S(p["T"]), fp_P=S(p["P"]), fp_L=Z(p["L"]),
                           fp_Tns=Z(p["Tns"]), fp_Pns=Z(p["Pns"])) for p in s["policies"] or []]),
        fs_default=S(s["default"]),
        fs_urls=L([Rec(fu_methods=L([S(m) for m in u["methods"] or []]), fu_exact=S(u["exact"]), fu_prefix=S(u["prefix"]),
                       fu_regex=S(u["regex"]), fu_ref=S(u["ref"])) for u in s["urls"] or []]))


def _enc_rlf(i, o):
    steps = o.get("steps") or []
    ops = []
    for op, st in zip(i["ops"], steps):
        pols = L([L([Z(x) for x in row]) for row in st.get("pols") or []])
        twin = L([L([Z(x) for x in row]) for row in st.get("twinPols") or []])
        if op["op"] == "init":
            ops.append(C("RInit", Nat(op["spec"]), Z(op["dt"]), L([Z(x) for x in st.get("refs") or []]), pols, twin))
        elif op["op"] == "inherit":
            ops.append(C("RInherit", Nat(op["spec"]), Nat(op["gen"]), Z(op["dt"]), B(st["panic"]),
                         L([Z(x) for x in st.get("refs") or []]), L([Z(x) for x in st.get("fromRefs") or []]), pols, twin))
        else:
            ops.append(C("RHandle", Nat(op["gen"]), Z(op["dt"]), L([B(x) for x in st.get("matches") or []]), Z(st["code"])))
    bad = bool(o.get("bad")) or len(steps) != len(i["ops"])
    return Rec(rc_specs=L([_fspec(s) for s in i["specs"]]), rc_ops=L(ops), rc_bad=B(bad))


_KINDS = ["Proxy", "Validator", "RequestAdaptor", "ResponseAdaptor", "Mock", "Fallback", "CORSAdaptor",
          "HeaderToJSON", "RequestBuilder", "ResponseBuilder", "CertExtractor", "MeshAdaptor", "HeaderLookup"]


def _outcome(x):
    return T(B(x["panic"]), S(x["res"]), Z(x["status"]), S(x["sum"]))


def _enc_inh(i, o):
    steps = o.get("steps") or []
    out = []
    for op, st in zip(i["ops"], steps):
        if op["op"] == "init":
            t = C("KInit", Nat(op["spec"]))
        elif op["op"] == "inherit":
            t = C("KInherit", Nat(op["spec"]), Nat(op["gen"]))
        elif op["op"] == "handle":
            t = C("KHandle", Nat(op["gen"]), Nat(op["req"]))
        else:
            t = C("KClose", Nat(op["gen"]))
        out.append(Rec(is_op=t, is_panic=B(st["panic"]), is_out=_outcome(st["out"]), is_twin=_outcome(st["twin"])))
    bad = bool(o.get("bad")) or len(steps) != len(i["ops"])
    k = _KINDS.index(i["kind"]) if i["kind"] in _KINDS else len(_KINDS)
    return Rec(ic_kind=N(k), ic_steps=L(out), ic_bad=B(bad))


_PKIND = {"C11RecA": "KRecA", "C11RecB": "KRecB", "RateLimiter": "KRL", "Mock": "KMock"}


def _ev(e):
    if e["ev"] == "init":
        return C("EInit", Z(e["id"]), S(e["name"]))
    if e["ev"] == "inherit":
        return C("EInherit", Z(e["id"]), S(e["name"]), Z(e["from"]))
    if e["ev"] == "close":
        return C("EClose", Z(e["id"]), S(e["name"]))
    return C("EHandle", Z(e["id"]), S(e["name"]))


def _enc_pipe(i, o):
    steps = o.get("steps") or []
    ops, obs = [], []
    for op, st in zip(i["ops"], steps):
        evs = L([_ev(e) for e in st.get("events") or []])
        if op["op"] == "init":
            ops.append(C("PlInit", Nat(op["spec"])))
            obs.append(C("PoLife", B(st["panic"]), evs))
        elif op["op"] == "inherit":
            ops.append(C("PlInherit", Nat(op["spec"]), Nat(op["gen"])))
            obs.append(C("PoLife", B(st["panic"]), evs))
        else:
            ops.append(C("PlHandle", Nat(op["gen"])))
            obs.append(C("PoHandle", evs, "PPanic" if st["panic"] else C("PRes", S(st["res"]), Z(st["status"]))))
    bad = bool(o.get("bad")) or len(steps) != len(i["ops"])
    specs = L([L([Rec(pf_name=S(f["name"]), pf_kind=_PKIND[f["kind"]], pf_tag=Z(f["tag"])) for f in s or []])
               for s in i["specs"] or []])
    return Rec(pc_specs=specs, pc_ops=L(ops), pc_obs=L(obs), pc_bad=B(bad))


def _cat(c):
    return "CG" if c == "G" else "CP"


def _tev(e):
    if e["ev"] == "init":
        return C("TInit", _cat(e["cat"]), Z(e["id"]), S(e["name"]), Z(e["tag"]))
    if e["ev"] == "inherit":
        return C("TInherit", _cat(e["cat"]), Z(e["id"]), S(e["name"]), Z(e["tag"]), Z(e["from"]))
    if e["ev"] == "close":
        return C("TClose", _cat(e["cat"]), Z(e["id"]), S(e["name"]), Z(e["tag"]))
    return C("THandle", Z(e["id"]), S(e["name"]), Z(e["tag"]))


def _enc_tc(i, o):
    steps = o.get("steps") or []
    ops, obs = [], []
    bad = bool(o.get("bad")) or len(steps) != len(i["ops"])
    for op, st in zip(i["ops"], steps):
        k, c, ns, nm, tag = op["op"], _cat(op["cat"]), S(op["ns"]), S(op["name"]), Z(op["tag"])
        if k == "create":
            ops.append(C("TCreate", c, ns, nm, tag))
        elif k == "update":
            ops.append(C("TUpdate", c, ns, nm, tag))
        elif k == "apply":
            ops.append(C("TApply", c, ns, nm, tag))
        elif k == "delete":
            ops.append(C("TDelete", c, ns, nm))
        elif k == "clean":
            ops.append(C("TClean", ns))
        elif k == "get":
            ops.append(C("TGet", ns, nm))
        else:
            bad = True
            ops.append(C("TGet", ns, nm))
        obs.append(Rec(to_err=B(st["err"]), to_panic=B(st["panic"]), to_ret=Z(st["ret"]),
                       to_evs=L([_tev(e) for e in st.get("events") or []]),
                       to_mid=L([L([T(S(e["ns"]), _cat(e["cat"]), S(e["name"]), Z(e["id"])) for e in m or []])
                                 for m in st.get("mid") or []]),
                       to_snap=L([T(S(e["ns"]), _cat(e["cat"]), S(e["name"]), Z(e["id"])) for e in st.get("snap") or []]),
                       to_spaces=L([S(x) for x in st.get("spaces") or []])))
    return Rec(tcc_ops=L(ops), tcc_obs=L(obs), tcc_bad=B(bad))


def _resp(t):
    if t.get("panic"):
        return Rec(r_status=Z(-1), r_handler=S(""), r_path=S(""), r_xff=S(""), r_size=Z(0))
    return Rec(r_status=Z(t["status"]), r_handler=S(t["handler"]), r_path=S(t["path"]), r_xff=S(t["xff"]), r_size=Z(t["size"]))


def _comp(c):
    return Rec(c_code=Z(c["code"]), c_backend=S(c["backend"]), c_rpath=S(c["rpath"]), c_plimit=Z(c["plimit"]))


def _gen(spec, rows):
    return Rec(gn_mapper=S(spec["mapper"]), gn_xff=B(spec["xff"]), gn_limit=Z(spec["limit"]),
               gn_comp=L([T(Z(k), _comp(c)) for k, c in rows]))


def _req(rid, rq, xff_on):
    return Rec(rq_id=Z(rid), rq_len=Z(rq["bodyLen"]), rq_xff_off=S(rq["xff"]), rq_xff_on=S(xff_on))


def _enc_sched(i, o):
    bad = bool(o.get("bad")) or len(o.get("fired") or []) != len(i.get("reloads") or []) or \
        sorted(o.get("order") or []) != list(range(len(i.get("reloads") or [])))
    if bad:
        return ("{| sc_gens := []; sc_req := req0; sc_follow := req0; sc_reloads := []; sc_got := resp0; sc_gotf := resp0; "
                "sc_expect := []; sc_expectf := []; sc_bad := true |}")
    gens = [_gen(s, [(0, o["comp"][k]), (1, o["compFollow"][k])]) for k, s in enumerate(i["specs"])]
    fired, rls = o["fired"] or [], i["reloads"] or []
    rel = [T(Z(fired[k]), Nat(rls[k]["spec"])) for k in (o.get("order") or [])]   # in the order in which they really ran
    return Rec(sc_gens=L(gens), sc_req=_req(0, i["req"], o["xffOn"]), sc_follow=_req(1, i["follow"], o["xffOnFollow"]),
               sc_reloads=L(rel), sc_got=_resp(o["got"]), sc_gotf=_resp(o["follow"]),
               sc_expect=L([_resp(t) for t in o["expect"]]), sc_expectf=L([_resp(t) for t in o["expectFollow"]]),
               sc_bad=B(False))


def _enc_conc(i, o):
    if o.get("bad"):
        return "{| cc_gens := []; cc_reqs := []; cc_flips := []; cc_seen := []; cc_expect := []; cc_bad := true |}"
    gens = [_gen(s, list(enumerate(o["comp"][k]))) for k, s in enumerate(i["specs"])]
    reqs = [_req(k, rq, o["xffOn"][k]) for k, rq in enumerate(i["reqs"])]
    seen = [T(Z(s["phase"]), Nat(s["req"]), _resp(s["got"])) for s in o.get("seen") or []]
    return Rec(cc_gens=L(gens), cc_reqs=L(reqs), cc_flips=L([Nat(f) for f in i["flips"] or []]), cc_seen=L(seen),
               cc_expect=L([L([_resp(t) for t in row]) for row in o["expect"]]), cc_bad=B(False))


def _rtspec(s):
    return Rec(rs_listen=Rec(rl_port=Z(1 if s["portAlt"] else 0), rl_keepalive=B(s["keepAlive"]), rl_katimeout=S(s["kaTimeout"]),
                             rl_maxbody=Z(s["maxBody"]), rl_globalfilter=S(s["globalFilter"]), rl_https=B(s.get("https", False))),
               rs_hot=Rec(rh_rules=S(s["rulesTag"] + ("+hdr" if s.get("headerRoute") else "") + ("+pathfilter" if s["pathBlock"] else "") + ("+rulefilter" if s.get("ruleBlock") else "")),
                          rh_ipfilter=L([S(x) for x in s.get("block") or []]), rh_xff=B(s["xff"]), rh_cache=Z(s["cache"]),
                          rh_maxconn=Z(s["maxConn"])))


def _enc_restart(i, o):
    live = {"": 0, "reused": 1, "newconn": 2, "failed": 3}.get(o.get("live", ""), None)
    bad = bool(o.get("bad")) or live is None          # "skipped": the loopback listener could not be used
    return Rec(rc_old=_rtspec(i["old"]), rc_new=_rtspec(i["new"]), rc_need=B(o.get("need", False)), rc_delta=Z(o.get("startDelta", 0)),
               rc_live=Z(live or 0), rc_equal_after_load=B(o.get("equalAfterLoad", False)),
               rc_after=L([_resp(t) for t in o.get("after") or []]), rc_fresh=L([_resp(t) for t in o.get("fresh") or []]),
               rc_rbad=B(bad))


def _enc_tcreal(i, o):
    steps = o.get("steps") or []
    bad = bool(o.get("bad")) or len(steps) != len(i["ops"] or [])
    canon = {}
    for k, sp in enumerate(i["specs"] or []):
        canon.setdefault((sp["flow"], sp["filters"], sp["tag"]), k)      # equal content = equal YAML
    ops = [T(S(op["name"]), Z(canon[(lambda sp: (sp["flow"], sp["filters"], sp["tag"]))(i["specs"][op["spec"]])])) for op in i["ops"] or []]
    obs = [T(B(st["err"] or st["panic"]), Z(st["ret"]), Z(st["events"])) for st in steps]
    return Rec(trc_ops=L(ops), trc_obs=L(obs), trc_bad=B(bad))


def _enc_reg(i, o):
    rounds = o.get("rounds") or []
    bad = bool(o.get("bad")) or len(rounds) != len(i["rounds"] or [])
    out = []
    for snap, rd in zip(i["rounds"] or [], rounds):
        pairs = lambda xs: L([T(S(a), S(b)) for a, b in xs or []])
        out.append(Rec(rr_snap=L([T(S(e["name"]), ("(Some %s)" % S(e["value"])) if e["kind"] == "ok" else "None") for e in snap or []]),
                       rr_panic=B(rd["panic"]),
                       rr_create=pairs(rd["got"]["create"]), rr_update=pairs(rd["got"]["update"]),
                       rr_delete=L([S(x) for x in rd["got"]["delete"] or []]),
                       rr_tcreate=pairs(rd["twin"]["create"]), rr_tupdate=pairs(rd["twin"]["update"]),
                       rr_tdelete=L([S(x) for x in rd["twin"]["delete"] or []])))
    return Rec(rg_rounds=L(out), rg_bad=B(bad))


def _enc_storm(i, o):
    return Rec(sm_k=Z(i["k"]), sm_seq=L([Z(x) for x in o.get("seq") or []]), sm_final=Z(o.get("final", -1)),
               sm_bad=B(bool(o.get("skipped"))))


def encode(c):
    i, o, g = c["in"], c["obs"], c["grp"]
    if g == "rlf":
        return _enc_rlf(i, o)
    if g == "inh":
        return _enc_inh(i, o)
    if g == "pipe":
        return _enc_pipe(i, o)
    if g == "tc":
        return _enc_tc(i, o)
    if g == "sched":
        return _enc_sched(i, o)
    if g == "conc":
        return _enc_conc(i, o)
    if g == "restart":
        return _enc_restart(i, o)
    if g == "tcreal":
        return _enc_tcreal(i, o)
    if g == "reg":
        return _enc_reg(i, o)
    if g == "storm":
        return _enc_storm(i, o)
    raise ValueError(g)


def distribution(cases):
    d = dict(groups={}, inh_kinds={}, ops_hist={}, panics_observed=0, sched_positions={}, conc_requests=0)
    for c in cases:
        g = c["grp"]
        d["groups"][g] = d["groups"].get(g, 0) + 1
        if g == "inh":
            k = c["in"]["kind"]
            d["inh_kinds"][k] = d["inh_kinds"].get(k, 0) + 1
        if g in ("rlf", "inh", "pipe", "tc", "tcreal"):
            n = len(c["in"].get("ops") or [])
            b = "%d-%d" % (n // 10 * 10, n // 10 * 10 + 9)
            d["ops_hist"][b] = d["ops_hist"].get(b, 0) + 1
            for st in c["obs"].get("steps") or []:
                d["panics_observed"] += bool(st.get("panic"))
        if g == "sched":
            for p in c["obs"].get("fired") or []:
                d["sched_positions"][str(p)] = d["sched_positions"].get(str(p), 0) + 1
        if g == "conc":
            d["conc_requests"] += c["obs"].get("total", 0)
    return d


def signature(case, result):
    return case.get("grp")


def shrink_candidates(inp, grp):
    if grp in ("rlf", "inh", "pipe", "tc"):
        ops = inp.get("ops") or []
        n = len(ops)
        k = n // 2
        while k >= 1:
            for s in range(1 if grp != "tc" else 0, n, k):   # keep the initial Init
                cand = dict(inp)
                cand["ops"] = ops[:s] + ops[s + k:]
                if cand["ops"] != ops and cand["ops"]:
                    yield cand
            k //= 2
    elif grp == "sched":
        rl = inp.get("reloads") or []
        for s in range(len(rl)):
            cand = dict(inp)
            cand["reloads"] = rl[:s] + rl[s + 1:]
            yield cand
    elif grp == "conc":
        fl = inp.get("flips") or []
        if len(fl) > 1:
            cand = dict(inp)
            cand["flips"] = fl[:len(fl) // 2]
            yield cand
