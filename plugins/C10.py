"""C10 retry / pool timeout / one breaker record per client request: plugin for ./check."""
from vf.coqterm import Z, N, B, S, L, T, C, Rec, Nat

ID = "C10"
COQ_TARGETS = ["props/C10.vo", "model/RetryCheck.vo"]
THEOREMS = [
    ("EG.props.C10", "C10_attempts_le_max"),
    ("EG.props.C10", "C10_stops_at_first_success"),
    ("EG.props.C10", "C10_final_is_last_attempt"),
    ("EG.props.C10", "C10_backoff_lower_bound"),
    ("EG.props.C10", "C10_all_waits_bounded"),
    ("EG.props.C10", "C10_no_attempt_after_cancel"),
    ("EG.props.C10", "C10_no_attempt_after_cancel_positive_backoff"),
    ("EG.props.C10", "C10_zero_wait_select_race"),
    ("EG.props.C10", "C10_stream_single_attempt"),
    ("EG.props.C10", "C10_timeout_is_408"),
    ("EG.props.C10", "C10_timeout_never_hangs"),
    ("EG.props.C10", "C10_failure_response_is_gateways"),
    ("EG.props.C10", "C10_backend_response_is_last_attempts"),
    ("EG.props.C10", "C10_breaker_records_once"),
    ("EG.props.C10", "C10_breaker_wrapper_records_once"),
    ("EG.props.C10", "C10_breaker_run_records"),
    ("EG.props.C10", "C10_breaker_rejected"),
    ("EG.props.C10", "C10_prop_checker_sound"),
    ("EG.props.C10", "C10_pool_checker_sound"),
    ("EG.props.C10", "C10_pool_checker_sound_with_timeout"),
]
_HOOK = {"pkg/util/circuitbreaker/zz_verif_c10_hook.go": "harness/resilience/zz_verif_c10_hook.go"}
HARNESSES = [
    dict(name="retry", pkg="pkg/resilience", files=["harness/resilience/zz_verif_c10_test.go"],
         run="TestVerifC10", groups=["retry"], timeout=600, share=0.65, extra_overlay=_HOOK),
    dict(name="pool", pkg="pkg/filters/proxy", files=["harness/proxy/zz_verif_c10_test.go"],
         run="TestVerifC10Pool", groups=["pool"], timeout=600, share=0.35, extra_overlay=_HOOK),
]
GROUPS = {"retry": "check_retry", "pool": "check_pool"}
EXPLAIN = {"retry": "explain_retry", "pool": "explain_pool"}
CASES = {"quick": 500, "thorough": 20000}
RULE = ("cases: retry = RetryPolicy.Wrap (+ breaker wrapper closed / forced open) around a scripted handler "
        "(success at attempt s, all fail, panic / runtime.Goexit / panic(nil) - the encoder presents all three to the model as 'the call does not come back'; cancellation injected inside attempt k; random|exponential, factor k/8, waits 1ns..5ms, "
        "40-100ms in front of a cancellation, 1ns with factor<1/2 for the zero-wait select race, maxAttempts 0); "
        "pool = Proxy with one pool - the main pool or a CANDIDATE pool (filter matched by the requests) next to a policy-free main pool; a share of cases uses the package's own sender over a real TCP backend that answers or reads the request and resets the connection (requests RECEIVED by the backend = attempts) (retry, timeout 60-80ms, breaker with slowCallDurationThreshold 1us..5ms or default - window totals read after EVERY request, failureCodes) serving 1-5 requests with a per-attempt scripted "
        "transport (status / network error / block until context done / panic / header in time then body breaks, stalls past the deadline or "
        "exceeds serverMaxBodySize, successful answers whose declared length is exactly serverMaxBodySize / one byte less; after each observation the response "
        "object the client got may be rewritten (status, header, payload) as a downstream filter would, optionally after another proxy failed with 503/499/408/500 and had its responses rewritten; stream bodies of declared and unknown length consumed by every attempt; client cancellation); "
        "non-trivial = validated policy; classes (retry) add: >1 attempt(+1) success after failure(+2) cancel(+4) exhausted(+8) breaker(+16) "
        "exponential(+32) panic(+64) attempt after cancel in the zero-wait race(+128); (pool): >1 attempt(+1) stream(+2) timeout(+4) breaker(+8) "
        "cancel(+16) failureCode(+32) success after retry(+64) panic(+128) internalError from a body fault(+256) unknown-length stream(+512) an earlier response (this proxy or another one) was rewritten by a downstream filter(+1024); distinct = distinct (group, input) hashes among non-trivial cases")
TRUSTED_BASE = [
    "model coq/model/Retry.v is hand-written; tied to pkg/resilience and pkg/filters/proxy by the per-run correspondence (sampled)",
    "float64 back-off arithmetic modelled as exact rationals (harness uses dyadic factors and small bases so that float64 is exact)",
    "real timers: measured gaps are compared only as lower bounds against the model's wait; math/rand draws are not observable "
    "(existentially quantified in the correspondence, universally in the theorems)",
    "scripted transport through the package variable fnSendRequest; net/http client behaviour on a cancelled context is not exercised",
    "hook file pkg/util/circuitbreaker/zz_verif_c10_hook.go (build tag verif, overlay only) reads the breaker window counters",
]
ASSUMPTIONS = [
    "validated RetryPolicy: maxAttempts >= 1, 0 <= randomizationFactor <= 1 (jsonschema tags; maxAttempts 0 is modelled and exercised but outside the theorems about the last attempt)",
    "the select between ctx.Done() and time.After(d) takes ctx.Done() whenever the context is already done and d > 0 "
    "(true for the Go runtime unless the goroutine is descheduled for >= d between time.After and select; the harness only cancels in front of waits >= 20ms or == 0)",
    "the breaker stays closed during a pool case (its state machine is C08's subject); AcquirePermission's answer is a parameter of the model",
]

MANIFEST = dict(
    design_ref="DESIGN.md section 6 C10",
    level_text=("Theorems over the executable model of RetryPolicy.Wrap, the CircuitBreaker wrapper and ServerPool.handle for ALL policies, "
                "per-attempt outcome sequences, random draws, cancellation points and select-race resolutions: attempts <= maxAttempts, "
                "stop at first success, final = last attempt, every gap >= floor(base_i(1-f)), no attempt after cancellation (wait > 0; the "
                "wait = 0 race exhibited), stream -> one attempt, pool timeout -> 408/timeout and never hangs, exactly one breaker record per "
                "client request; model tied to the code on every run by differential correspondence (scripted handler / transport, real small "
                "waits, lower bounds only) plus an independent decidable checker of the clauses on the implementation's own trace."),
    level_note=("Trusted: Coq kernel + vm_compute; hand-written model validated only on sampled cases; float64 rounding, real timers, the Go "
                "scheduler and math/rand are outside the model; upper bounds on waiting are not claimed."),
    technique="Coq proof (induction over the attempt loop, closed form of the exponential base, lia/nia) + model/implementation correspondence by vm_compute",
)


def coq_header(kf_open):
    return "From EG.lib Require Import Base.\nFrom EG.model Require Import Retry RetryCheck.\nOpen Scope Z_scope.\n"


def _pol(i):
    return Rec(p_max=Z(i["max"]), p_wait=Z(i["wait"]), p_fnum=Z(i["fnum"]), p_fden=Z(i["fden"]), p_expo=B(i["expo"]))


def encode(c):
    i, o = c["in"], c["obs"]
    if c["grp"] == "retry":
        return Rec(rc_pol=_pol(i), rc_script=L([Z(2 if x in (3, 4) else x) for x in i.get("script") or []]),  # 3 Goexit / 4 panic(nil): "does not come back" like 2
                   rc_cancel=Z(i["cancel"]), rc_cb=Z(i["cb"]),
                   rc_calls=Z(o["calls"]), rc_fkind=Z(o["fk"]), rc_fid=Z(o["fid"]),
                   rc_gaps=L([Z(x) for x in o.get("gaps") or []]), rc_tail=Z(o["tail"]),
                   rc_cbt=Z(o["cbt"]), rc_cbf=Z(o["cbf"]))
    if c["grp"] == "pool":
        reqs = i.get("reqs") or []
        outs = o.get("outs") or []
        if len(outs) != len(reqs):
            raise ValueError("pool case %s: %d requests, %d outputs" % (c.get("id"), len(reqs), len(outs)))
        qs = []
        for rq, ou in zip(reqs, outs):
            qs.append(Rec(q_stream=B(rq["stream"]),
                          q_script=L([T(Z(a), Z(b)) for a, b in rq.get("script") or []]),
                          q_cancel=Z(rq["cancel"]), q_clen=Z(rq.get("clen", 0)), q_mutate=B(rq.get("mutate", False)),
                          q_calls=Z(ou["calls"]), q_res=Z(ou["res"]), q_status=Z(ou["status"]),
                          q_from=Z(ou.get("from", -1)), q_plen=Z(ou.get("plen", 0)), q_bodies=Z(ou.get("bodies", 0)), q_hdrs=Z(ou.get("hdrs", 0)),
                          q_cbt=Z(ou.get("cbt", -1)), q_cbf=Z(ou.get("cbf", -1)),
                          q_gaps=L([Z(x) for x in ou.get("gaps") or []])))
        return Rec(k_retry=B(i["retry"]), k_pol=_pol(i), k_timeout=Z(i["timeout"]), k_cb=B(i["cb"]),
                   k_fcodes=L([Z(x) for x in i.get("fcodes") or []]), k_smax=Z(i.get("smax", 0)),
                   k_prelude=B(i.get("prelude", False)), k_reqs=L(qs),
                   k_cbt=Z(o["cbt"]), k_cbf=Z(o["cbf"]))
    raise ValueError(c["grp"])


def distribution(cases):
    d = dict(groups={}, attempts_hist={}, final={}, cancels=0, streams=0, timeouts=0, breaker_cases=0,
             zero_wait_race_cases=0, attempts_after_cancel_in_race=0, pool_results={})
    fk = {0: "nil", 1: "error", 2: "panic", 3: "shortCircuited", 4: "other"}
    rs = {0: "ok", 1: "serverError", 2: "timeout", 3: "clientError", 4: "failureCode", 5: "internalError",
          6: "shortCircuited", 7: "panic", 8: "hang", 9: "other"}
    for c in cases:
        g = c["grp"]
        d["groups"][g] = d["groups"].get(g, 0) + 1
        i, o = c["in"], c["obs"]
        if g == "retry":
            k = str(o["calls"])
            d["attempts_hist"][k] = d["attempts_hist"].get(k, 0) + 1
            f = fk.get(o["fk"], "?")
            d["final"][f] = d["final"].get(f, 0) + 1
            d["cancels"] += i["cancel"] >= 0
            d["breaker_cases"] += i["cb"] != 0
            if i["cancel"] >= 0 and i["wait"] == 1:
                d["zero_wait_race_cases"] += 1
                d["attempts_after_cancel_in_race"] += o["calls"] > i["cancel"] + 1
        else:
            d["breaker_cases"] += bool(i["cb"])
            d["candidate_pool_cases"] = d.get("candidate_pool_cases", 0) + bool(i.get("cand"))
            d["candidate_breaker_without_retry"] = d.get("candidate_breaker_without_retry", 0) + (bool(i.get("cand")) and bool(i["cb"]) and not i["retry"])
            d["real_tcp_cases"] = d.get("real_tcp_cases", 0) + bool(i.get("tcp"))
            d["low_slow_threshold_cases"] = d.get("low_slow_threshold_cases", 0) + (bool(i["cb"]) and i.get("slow", 0) > 0)
            for rq, ou in zip(i.get("reqs") or [], o.get("outs") or []):
                k = str(ou["calls"])
                d["attempts_hist"][k] = d["attempts_hist"].get(k, 0) + 1
                r = rs.get(ou["res"], "?")
                d["pool_results"][r] = d["pool_results"].get(r, 0) + 1
                d["cancels"] += rq["cancel"] >= 0
                d["streams"] += bool(rq["stream"])
                d["unknown_length_streams"] = d.get("unknown_length_streams", 0) + (bool(rq["stream"]) and rq.get("clen", 0) == 1)
                d["body_fault_attempts"] = d.get("body_fault_attempts", 0) + sum(1 for a in (rq.get("script") or [])[:ou["calls"]] if a[0] in (4, 5, 6))
                d["timeouts"] += ou["res"] == 2
    return d


def signature(case, result):
    return case.get("grp")


def shrink_candidates(inp, grp):
    if grp == "pool":
        reqs = inp.get("reqs") or []
        if len(reqs) > 1:
            for k in range(len(reqs)):
                cand = dict(inp)
                cand["reqs"] = reqs[:k] + reqs[k + 1:]
                yield cand
        for k in ("cb", "retry"):
            if inp.get(k):
                cand = dict(inp)
                cand[k] = False
                yield cand
        if inp.get("timeout"):
            cand = dict(inp)
            cand["timeout"] = 0
            if not any(a[0] == 2 for rq in reqs for a in rq.get("script") or []):
                yield cand
    else:
        if inp.get("cb"):
            cand = dict(inp)
            cand["cb"] = 0
            yield cand
        if inp.get("max", 0) > 1:
            cand = dict(inp)
            cand["max"] = inp["max"] - 1
            if inp.get("cancel", -1) < cand["max"]:
                yield cand
        if inp.get("expo"):
            cand = dict(inp)
            cand["expo"] = False
            yield cand
