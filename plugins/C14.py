"""C14 MQTT topic routing: plugin for ./check (see lib/vf/driver.py for the protocol)."""
from vf.coqterm import Z, N, B, S, L, T, C, Rec, Nat, Opt

ID = "C14"
COQ_TARGETS = ["props/C14.vo", "model/TopicCheck.vo"]
THEOREMS = [
    ("EG.props.C14", "C14_find_correct"),
    ("EG.props.C14", "C14_no_residue"),
    ("EG.props.C14", "C14_no_residue_after_removal"),
    ("EG.props.C14", "C14_resubscribe_overwrites_qos"),
    ("EG.props.C14", "C14_unsub_unknown_is_noop"),
    ("EG.props.C14", "C14_malformed_rejected"),
    ("EG.props.C14", "C14_split_topic_spec"),
    ("EG.props.C14", "C14_matches_dec_correct"),
    ("EG.props.C14", "C14_insert_spec"),
    ("EG.props.C14", "C14_remove_spec"),
    ("EG.props.C14", "C14_remove_prunes"),
    ("EG.props.C14", "C14_find_frontier_eq_find1"),
    ("EG.props.C14", "C14_history_repr"),
    ("EG.props.C14", "C14_prop_checker_sound"),
    ("EG.props.C14", "C14_refuted_q_abort_on_malformed"),
    ("EG.props.C14", "C14_unchanged_code_on_clean_histories"),
]
HARNESSES = [
    dict(name="topic", pkg="pkg/object/mqttproxy", files=["harness/mqttproxy/zz_verif_c14_test.go"],
         run="TestVerifC14", groups=["hist", "wild", "split"], timeout=600),
]
GROUPS = {"hist": "check_hist", "wild": "check_hist", "split": "check_split"}
EXPLAIN = {"hist": "explain_hist", "wild": "explain_hist", "split": "explain_split"}
CASES = {"quick": 1500, "thorough": 40000}
RULE = ("cases: histories of SUBSCRIBE/UNSUBSCRIBE/disconnect by 1-4 clients (through client.go processSubscribe/"
        "processUnsubscribe/closeAndDelSession) over filters from levels {a,b,'',+,#} incl. malformed ones, interleaved with "
        "findSubscribers on derived near-miss topics; LRU level cache size 1-3; group wild = topic names containing wildcard "
        "characters (correspondence only); group split = splitTopic on single strings. non-trivial = some findSubscribers "
        "returned a subscriber (hist/wild) resp. non-empty string list (split); classes add: rejected-SUBSCRIBE(+1) "
        "disconnect(+2) >=2 subscribers(+4) wildcard-topic-name(+8); distinct = distinct (group, input) hashes among non-trivial cases")
TRUSTED_BASE = [
    "model coq/model/Topic.v is hand-written; tied to pkg/object/mqttproxy (topic.go, client.go, session.go) by the per-run correspondence (sampled)",
    "the level LRU cache is not modelled (memo of the pure splitTopic); exercised with sizes 1-3",
    "harness builds a Broker with only TopicManager + SessionManager (mock storage); pipelines, sockets, persistent (non-clean) sessions are outside this check",
]
ASSUMPTIONS = [
    "every TopicManager operation holds the manager's lock for its whole body (atomic step); histories are sequences of such steps",
    "topic names contain no wildcard character (MQTT-3.3.2-2); the $-topic exception is not part of the statement",
    "clean sessions: disconnect drops the session (persistent sessions belong to C16)",
    "theorems are stated for the repaired behaviour (quirk flags off); the unchanged code is covered by C14_refuted_* and the known finding",
]

MANIFEST = dict(
    design_ref="DESIGN.md section 6 C14",
    level_text=("Theorems over the executable model of splitTopic / insert / remove (with pruning) / findSubscribers and the "
                "client-level subscribe, unsubscribe, disconnect steps, for ALL histories and ALL topic names: the routed set equals "
                "MQTT 3.1.1 matching over the live subscriptions (declarative finite map by naive replay), every reported QoS is one "
                "of the client's own matching subscriptions, malformed filters rejected, routing is a function of the live map only "
                "(no residue); model tied to the Go code on every run by differential correspondence, plus an independent decidable "
                "checker of the statement on the implementation's own trace (proved sound against the theorem's spec)."),
    level_note=("Trusted: Coq kernel + vm_compute; hand-written model validated only on sampled histories; lock atomicity assumed; "
                "LRU level cache not modelled; wildcard characters inside topic NAMES are modelled as the code behaves but excluded "
                "from the property; known finding KF-C14-abort-on-malformed (multi-filter packet with a malformed filter leaves residue)."),
    technique="Coq proof (induction over level lists and op histories, refinement to a declarative live map) + model/implementation correspondence by vm_compute",
)


def coq_header(kf_open):
    flags = {k.get("flag") for k in kf_open}
    return ("From EG.lib Require Import Base.\nFrom EG.model Require Import Topic TopicCheck.\n"
            "Open Scope string_scope.\nOpen Scope list_scope.\n"
            "Definition pinned : quirks := {| q_abort_on_malformed := %s |}.\n"
            "Definition check_hist := check_hist_with pinned.\n"
            "Definition explain_hist := explain_hist_with pinned.\n" % B("q_abort_on_malformed" in flags))


def _op(o):
    k = o["k"]
    if k == "sub":
        fs, qs = o.get("f") or [], o.get("q") or []
        qs = list(qs) + [0] * (len(fs) - len(qs))
        return C("TOp", C("Sub", S(o["c"]), L([T(S(f), N(q)) for f, q in zip(fs, qs)])))
    if k == "unsub":
        return C("TOp", C("Unsub", S(o["c"]), L([S(f) for f in o.get("f") or []])))
    if k == "disc":
        return C("TOp", C("Disc", S(o["c"])))
    if k == "find":
        return C("TFind", S(o.get("t") or ""))
    raise ValueError(k)


def _obs(o):
    k = o["k"]
    if k == "ack":
        return "(OAck true)"
    if k == "noack":
        return "(OAck false)"
    if k == "none":
        return "ONone"
    if k == "found":
        return C("OFound", L([T(S(s["c"]), N(s["q"])) for s in o.get("subs") or []]))
    if k == "err":
        return "OErr"
    return "OPanic"


def encode(c):
    i, o = c["in"], c["obs"]
    if c["grp"] in ("hist", "wild"):
        return Rec(h_ops=L([_op(x) for x in i.get("ops") or []]), h_obs=L([_obs(x) for x in o.get("outs") or []]))
    if c["grp"] == "split":
        return Rec(s_in=L([S(s) for s in i.get("s") or []]),
                   s_obs=L([Opt(r, lambda ls: L([S(x) for x in ls])) for r in o.get("r") or []]))
    raise ValueError(c["grp"])


def distribution(cases):
    d = dict(groups={}, ops_hist={}, op_kinds={}, obs_kinds={}, found_sizes={}, lru={})
    for c in cases:
        d["groups"][c["grp"]] = d["groups"].get(c["grp"], 0) + 1
        if c["grp"] == "split":
            for r in c["obs"].get("r") or []:
                k = "split-rejected" if r is None else "split-ok"
                d["obs_kinds"][k] = d["obs_kinds"].get(k, 0) + 1
            continue
        ops = c["in"].get("ops") or []
        n = len(ops)
        b = "%d-%d" % (n // 10 * 10, n // 10 * 10 + 9)
        d["ops_hist"][b] = d["ops_hist"].get(b, 0) + 1
        d["lru"][str(c["in"].get("lru"))] = d["lru"].get(str(c["in"].get("lru")), 0) + 1
        for op in ops:
            d["op_kinds"][op["k"]] = d["op_kinds"].get(op["k"], 0) + 1
        for op, ob in zip(ops, c["obs"].get("outs") or []):
            k = op["k"] + ":" + ob["k"]
            d["obs_kinds"][k] = d["obs_kinds"].get(k, 0) + 1
            if ob["k"] == "found":
                s = str(len(ob.get("subs") or []))
                d["found_sizes"][s] = d["found_sizes"].get(s, 0) + 1
    return d


def signature(case, result):
    return case.get("grp")


def shrink_candidates(inp, grp):
    if grp == "split":
        ss = inp.get("s") or []
        for i in range(len(ss)):
            yield dict(inp, s=ss[:i] + ss[i + 1:])
        return
    ops = inp.get("ops") or []
    n = len(ops)
    k = n // 2
    while k >= 1:
        for s in range(0, n, k):
            cand = dict(inp)
            cand["ops"] = ops[:s] + ops[s + k:]
            if cand["ops"] != ops:
                yield cand
        k //= 2
    # shorten multi-filter packets
    for i, op in enumerate(ops):
        fs = op.get("f") or []
        if len(fs) > 1:
            for j in range(len(fs)):
                o2 = dict(op, f=fs[:j] + fs[j + 1:])
                if "q" in op and op["q"]:
                    o2["q"] = op["q"][:j] + op["q"][j + 1:]
                yield dict(inp, ops=ops[:i] + [o2] + ops[i + 1:])
