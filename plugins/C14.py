"""C14 MQTT topic routing: plugin for ./check (see lib/vf/driver.py for the protocol)."""
from vf.coqterm import Z, N, B, S, L, T, C, Rec, Nat, Opt

ID = "C14"
COQ_TARGETS = ["props/C14.vo", "model/TopicCheck.vo"]
THEOREMS = [
    ("EG.props.C14", "C14_find_correct"),
    ("EG.props.C14", "C14_no_residue"),
    ("EG.props.C14", "C14_no_residue_after_removal"),
    ("EG.props.C14", "C14_resubscribe_overwrites_qos"),
    ("EG.props.C14", "C14_unsub_unknown_is_noop"),
    ("EG.props.C14", "C14_malformed_rejected"),
    ("EG.props.C14", "C14_offline_not_live"),
    ("EG.props.C14", "C14_reconnect_restores"),
    ("EG.props.C14", "C14_split_topic_spec"),
    ("EG.props.C14", "C14_length_never_malformed"),
    ("EG.props.C14", "C14_matches_dec_correct"),
    ("EG.props.C14", "C14_insert_spec"),
    ("EG.props.C14", "C14_remove_spec"),
    ("EG.props.C14", "C14_remove_prunes"),
    ("EG.props.C14", "C14_find_frontier_eq_find1"),
    ("EG.props.C14", "C14_history_repr"),
    ("EG.props.C14", "C14_prop_checker_sound"),
    ("EG.props.C14", "C14_refuted_q_abort_on_malformed"),
    ("EG.props.C14", "C14_unchanged_code_on_clean_histories"),
]
HARNESSES = [
    dict(name="topic", pkg="pkg/object/mqttproxy", files=["harness/mqttproxy/zz_verif_c14_test.go", "harness/mqttproxy/zz_verif_c14_conn_test.go"],
         run="TestVerifC14", groups=["hist", "wild", "long", "conn", "split"], timeout=900),
]
GROUPS = {"hist": "check_hist", "wild": "check_hist", "long": "check_hist", "conn": "check_hist", "split": "check_split"}
EXPLAIN = {"hist": "explain_hist", "wild": "explain_hist", "long": "explain_hist", "conn": "explain_hist", "split": "explain_split"}
CASES = {"quick": 1500, "thorough": 30000}
RULE = ("cases: histories of CONNECT(clean|persistent)/SUBSCRIBE/UNSUBSCRIBE/connection-end by 1-4 clients over filters from "
        "levels {a,b,'',+,#} incl. malformed ones, interleaved with findSubscribers on derived near-miss topics; LRU level cache "
        "size 1-3. group hist/wild: through client.go processSubscribe/processUnsubscribe/closeAndDelSession (wild = topic names "
        "containing wildcard characters, correspondence only); group conn: raw MQTT peers on Broker.handleConn over net.Pipe with "
        "persistent sessions, drop + reconnect(cleanSession=false) restoring the stored session, take-over of a connected id, "
        "connection ends by DISCONNECT / socket close / Broker.deleteSession first, connections with a WILL that the Publish pipeline passes / drops / "
        "answers with Disconnect, the zero-length client id (clean session), multi-filter UNSUBSCRIBE with never-subscribed "
        "filters before subscribed ones; group long = topic names and filters of exactly 65535 / 65534 bytes (one huge level, dev/<pad>/state, tens of thousands of "
        "1-byte or empty levels; compact {s*n} notation expanded inside Coq, model and spec run on the real string); "
        "group split = splitTopic on single strings. non-trivial = some findSubscribers returned a "
        "subscriber resp. non-empty string list (split); classes add: rejected-SUBSCRIBE(+1) connection-end(+2) >=2 subscribers(+4) "
        "wildcard-topic-name(+8) and 16*(persistent(1) persistent-reconnect(2) take-over(4) broker-closed-first(8) will(16) empty-client-id(32)); "
        "distinct = distinct (group, input) hashes among non-trivial cases")
TRUSTED_BASE = [
    "model coq/model/Topic.v is hand-written; tied to pkg/object/mqttproxy (topic.go, client.go, session.go, broker.go handleConn/setSession/deleteSession) by the per-run correspondence (sampled)",
    "the level LRU cache is not modelled (memo of the pure splitTopic); exercised with sizes 1-3",
    "group conn: the harness builds a Broker without listener/watchers and plays the SessionManager's doStore loop itself (pending Session.store goroutines, found in the goroutine dump, are drained into the mock storage after every step) so that the asynchronous session store is settled at step boundaries; the ordering races of that store in production are not covered",
    "pipelines, sockets, the session-storage watcher, and the take-over of a persistent session by a persistent connection (open finding KF-C16-takeover-teardown, covered by C16) are outside this check; the zero-length filter is not sent over the wire (the paho codec cannot carry it)",
]
ASSUMPTIONS = [
    "every TopicManager operation holds the manager's lock for its whole body (atomic step); histories are sequences of such steps",
    "topic names contain no wildcard character (MQTT-3.3.2-2); the $-topic exception is not part of the statement",
    "live subscriptions = those of connected clients; a persistent session's subscriptions are suspended while it is offline and restored by a cleanSession=false reconnect; a take-over ends the superseded connection",
    "theorems are stated for the repaired behaviour (quirk flag off = /repo after commit ce10de8); the earlier code is covered by C14_refuted_* and C14_unchanged_code_on_clean_histories",
]

MANIFEST = dict(
    design_ref="DESIGN.md section 6 C14",
    level_text=("Theorems over the executable model of splitTopic / insert / remove (with pruning) / findSubscribers and the "
                "connection-level steps (connect clean/persistent incl. take-over and re-subscription from the stored session, subscribe, unsubscribe, connection end), for ALL histories and ALL topic names: the routed set equals "
                "MQTT 3.1.1 matching over the live subscriptions (declarative finite map by naive replay), every reported QoS is one "
                "of the client's own matching subscriptions, malformed filters rejected, routing is a function of the live map only "
                "(no residue); model tied to the Go code on every run by differential correspondence, plus an independent decidable "
                "checker of the statement on the implementation's own trace (proved sound against the theorem's spec)."),
    level_note=("Trusted: Coq kernel + vm_compute; hand-written model validated only on sampled histories; lock atomicity assumed; "
                "LRU level cache not modelled; wildcard characters inside topic NAMES are modelled as the code behaves but excluded "
                "from the property; finding KF-C14-abort-on-malformed (multi-filter packet with a malformed filter left residue) was repaired by a fix: commit; the entry is `fixed` and suppresses nothing."),
    technique="Coq proof (induction over level lists and op histories, refinement to a declarative live map) + model/implementation correspondence by vm_compute",
)


def coq_header(kf_open):
    flags = {k.get("flag") for k in kf_open}
    return ("From EG.lib Require Import Base.\nFrom EG.model Require Import Topic TopicCheck.\n"
            "Open Scope string_scope.\nOpen Scope list_scope.\n"
            "Definition pinned : quirks := {| q_abort_on_malformed := %s |}.\n"
            "Definition check_hist := check_hist_with pinned.\n"
            "Definition explain_hist := explain_hist_with pinned.\n" % B("q_abort_on_malformed" in flags))


import re
_MACRO = re.compile(r"\{([^{}]*)\*(\d+)\}")
_X = [False]


def S_(s):
    """string of a case; in compact cases {s*n} stands for s repeated n times and is
    expanded INSIDE Coq by Topic.sx (the model and the spec run on the real long string)"""
    if not _X[0] or "{" not in s:
        return S(s)
    segs, pos = [], 0
    for m in _MACRO.finditer(s):
        if m.start() > pos:
            segs.append((s[pos:m.start()], 1))
        segs.append((m.group(1), int(m.group(2))))
        pos = m.end()
    if pos < len(s):
        segs.append((s[pos:], 1))
    return "(sx %s)" % L([T(S(a), N(n)) for a, n in segs])


def _op(o):
    k = o["k"]
    if k == "sub":
        fs, qs = o.get("f") or [], o.get("q") or []
        qs = list(qs) + [0] * (len(fs) - len(qs))
        return C("TOp", C("Sub", S(o.get("c") or ""), L([T(S_(f), N(q)) for f, q in zip(fs, qs)])))
    if k == "unsub":
        return C("TOp", C("Unsub", S(o.get("c") or ""), L([S_(f) for f in o.get("f") or []])))
    if k == "disc":
        return C("TOp", C("Disc", S(o.get("c") or "")))
    if k == "conn":
        return C("TOp", C("Conn", S(o.get("c") or ""), B(o.get("clean", False))))
    if k == "find":
        return C("TFind", S_(o.get("t") or ""))
    raise ValueError(k)


def _obs(o):
    k = o["k"]
    if k == "ack":
        return "(OAck true)"
    if k == "noack":
        return "(OAck false)"
    if k == "none":
        return "ONone"
    if k == "found":
        return C("OFound", L([T(S(s["c"]), N(s["q"])) for s in o.get("subs") or []]))
    if k == "err":
        return "OErr"
    return "OPanic"


def _tag(ops):
    """bit mask of connection-level shapes: 1 persistent session, 2 persistent reconnect,
    4 take-over, 8 closed by the broker before the connection ended, 16 connection with a WILL,
    32 zero-length client id"""
    tag, online, seen = 0, {}, set()
    for o in ops:
        k, c = o["k"], o.get("c") or ""
        if k in ("conn", "sub", "unsub") and c == "":
            tag |= 32
        if k == "conn" and o.get("will"):
            tag |= 16
        if k == "conn":
            clean = bool(o.get("clean", False))
            if not clean:
                tag |= 1
                if c in seen:
                    tag |= 2
            if c in online:
                tag |= 4
            online[c] = clean
            seen.add(c)
        elif k in ("sub", "unsub"):
            online.setdefault(c, True)
            seen.add(c)
        elif k == "disc":
            if c in online and (o.get("how") or "").startswith("admin"):
                tag |= 8
            online.pop(c, None)
    return tag


def encode(c):
    i, o = c["in"], c["obs"]
    if c["grp"] in ("hist", "wild", "long", "conn"):
        ops = i.get("ops") or []
        _X[0] = bool(i.get("x"))
        return Rec(h_ops=L([_op(x) for x in ops]), h_obs=L([_obs(x) for x in o.get("outs") or []]), h_tag=N(_tag(ops)))
    if c["grp"] == "split":
        return Rec(s_in=L([S(s) for s in i.get("s") or []]),
                   s_obs=L([Opt(r, lambda ls: L([S(x) for x in ls])) for r in o.get("r") or []]))
    raise ValueError(c["grp"])


def distribution(cases):
    d = dict(groups={}, ops_hist={}, op_kinds={}, obs_kinds={}, found_sizes={}, lru={})
    for c in cases:
        d["groups"][c["grp"]] = d["groups"].get(c["grp"], 0) + 1
        if c["grp"] == "split":
            for r in c["obs"].get("r") or []:
                k = "split-rejected" if r is None else "split-ok"
                d["obs_kinds"][k] = d["obs_kinds"].get(k, 0) + 1
            continue
        ops = c["in"].get("ops") or []
        n = len(ops)
        b = "%d-%d" % (n // 10 * 10, n // 10 * 10 + 9)
        d["ops_hist"][b] = d["ops_hist"].get(b, 0) + 1
        d["lru"][str(c["in"].get("lru"))] = d["lru"].get(str(c["in"].get("lru")), 0) + 1
        for op in ops:
            d["op_kinds"][op["k"]] = d["op_kinds"].get(op["k"], 0) + 1
        for op, ob in zip(ops, c["obs"].get("outs") or []):
            k = op["k"] + ":" + ob["k"]
            if op["k"] == "disc" and op.get("how"):
                d["op_kinds"]["disc/" + op["how"]] = d["op_kinds"].get("disc/" + op["how"], 0) + 1
            if op["k"] == "conn":
                kk = "conn/" + ("clean" if op.get("clean") else "persistent")
                d["op_kinds"][kk] = d["op_kinds"].get(kk, 0) + 1
            d["obs_kinds"][k] = d["obs_kinds"].get(k, 0) + 1
            if ob["k"] == "found":
                s = str(len(ob.get("subs") or []))
                d["found_sizes"][s] = d["found_sizes"].get(s, 0) + 1
    return d


def signature(case, result):
    return case.get("grp")


def shrink_candidates(inp, grp):
    if grp == "split":
        ss = inp.get("s") or []
        for i in range(len(ss)):
            yield dict(inp, s=ss[:i] + ss[i + 1:])
        return
    ops = inp.get("ops") or []
    n = len(ops)
    k = n // 2
    while k >= 1:
        for s in range(0, n, k):
            cand = dict(inp)
            cand["ops"] = ops[:s] + ops[s + k:]
            if cand["ops"] != ops:
                yield cand
        k //= 2
    # shorten multi-filter packets
    for i, op in enumerate(ops):
        fs = op.get("f") or []
        if len(fs) > 1:
            for j in range(len(fs)):
                o2 = dict(op, f=fs[:j] + fs[j + 1:])
                if "q" in op and op["q"]:
                    o2["q"] = op["q"][:j] + op["q"][j + 1:]
                yield dict(inp, ops=ops[:i] + [o2] + ops[i + 1:])
