"""C01 HTTP routing (cache off): plugin for ./check. Also holds the case encoder
shared with C12 (route cache), which drives the same model (coq/model/Mux.v)."""
from vf.coqterm import Z, N, B, S, L, T, C, Rec, Nat, Opt

ID = "C01"
COQ_TARGETS = ["props/C01.vo", "model/MuxCheck.vo"]
THEOREMS = [
    ("EG.props.C01", "C01_loop_refines_spec"),
    ("EG.props.C01", "C01_first_match"),
    ("EG.props.C01", "C01_failure_precedence"),
    ("EG.props.C01", "C01_rewrite_exact"),
    ("EG.props.C01", "C01_rewrite_prefix"),
    ("EG.props.C01", "C01_rewrite_regexp"),
    ("EG.props.C01", "C01_rewrite_none"),
    ("EG.props.C01", "C01_dispatch_backend_and_path"),
    ("EG.props.C01", "C01_body_limit"),
    ("EG.props.C01", "C01_unknown_backend_503"),
    ("EG.props.C01", "C01_match_all_header_semantics"),
    ("EG.props.C01", "C01_port_ignored"),
    ("EG.props.C01", "C01_host_exact"),
    ("EG.props.C01", "C01_valid_never_panics"),
    ("EG.props.C01", "C01_mapper_history_503"),
    ("EG.props.C01", "C01_mapper_history_dispatch"),
    ("EG.props.C01", "C01_rawpath_irrelevant"),
    ("EG.props.C01", "C01_xff_option_irrelevant_for_routing"),
    ("EG.props.C01", "C01_forwarded_for"),
    ("EG.props.C01", "C01_reserved_prefix_exact"),
]
HARNESSES = [
    dict(name="route", pkg="pkg/object/httpserver", files=["harness/httpserver/zz_verif_c01_test.go"],
         run="TestVerifC01", groups=["route"], timeout=600),
    # thorough tier: exhaustive small-scope enumeration (1764 rule sets x 24 requests), ignores VERIF_N
    dict(name="exh", pkg="pkg/object/httpserver",
         files=["harness/httpserver/zz_verif_c01_test.go", "harness/httpserver/zz_verif_c01_exh_test.go"],
         run="TestVerifC01Exh", groups=["route"], timeout=900, thorough_only=True, share=0.0),
]
GROUPS = {"route": "check_route"}
EXPLAIN = {"route": "explain_route"}
CASES = {"quick": 400, "thorough": 12000}
RULE = ("case = one HTTPServer spec (1-4 rules x 0-4 paths; exact/prefix/regexp paths and combinations, method lists, "
        "0-3 header conditions with values/regexp, matchAllHeader on/off, rewrite targets incl. $n templates, host/hostRegexp, "
        "optional IP filters) x 4-14 requests derived from the rule set (hits and near misses) served by ONE mux instance; in half of the "
        "cases the MuxMapper content changes between requests (pipelines deleted, re-created, replaced by a new handler identity) and "
        "requests recur; non-trivial = spec accepted by "
        "the real validation and >=1 request; class = 1 + bit set of observed outcome kinds "
        "(200, 400, 405, 404, 503, 403, path rewritten, mapper changed during the history, 413); requests carry bodies around the "
        "path-/server-level clientMaxBodySize (declared and chunked), other wire encodings of the path, very deep paths (254-300 segments); distinct = distinct (group, input) hashes among non-trivial cases")
TRUSTED_BASE = [
    "model coq/model/Mux.v is hand-written; tied to pkg/object/httpserver/mux.go by the per-run correspondence (sampled)",
    "oracles computed by the harness with the real libraries: Go regexp (MatchString/ReplaceAllString), IPFilter.Allow, "
    "realip.FromRequest, textproto.CanonicalMIMEHeaderKey, http.Header.Get; net.SplitHostPort is modelled (strip_port) and compared per request",
    "requests are injected at mux.ServeHTTP (net/http request parsing not exercised); quic-go replaced by a compile-only stub",
]
ASSUMPTIONS = ["spec accepted by the real validation (supervisor.NewSpec); regexps compile",
               "the MuxMapper is read at every request (pipelines may be created, deleted, replaced between requests)",
               "route cache off (cacheSize 0)",
               "ACME challenge path /.well-known/acme-challenge/ out of scope"]

MANIFEST = dict(
    design_ref="DESIGN.md section 6 C01",
    level_text=("Theorems over the executable model of muxInstance.search/serveHTTP for ALL rule sets and ALL requests: the loop with "
                "headerMismatch/methodMismatch flags refines the declarative first-full-match router with 400>405>404 precedence; rewrite "
                "(exact/prefix/regexp/none), 503 for unknown backends, matchAllHeader semantics, port stripping; model tied to "
                "pkg/object/httpserver on every run by differential correspondence and an independent declarative checker on the "
                "implementation's own observables."),
    level_note=("Trusted: Coq kernel + vm_compute; hand-written model validated only on sampled rule sets/requests; Go regexp, "
                "realip, header canonicalisation and IP-filter decisions are per-case oracle tables."),
    technique="Coq proof (induction over rules/paths with the flag invariant, refinement to a declarative spec) + model/implementation correspondence by vm_compute",
)


def coq_header(kf_open):
    return ("From EG.lib Require Import Base.\nFrom EG.model Require Import Mux MuxCheck.\n"
            "Open Scope string_scope.\n")


# ---------------------------------------------------------------- encoder (shared with C12)

def _fid(present, n):
    return Opt(N(n)) if present else "None"


def servers(i):
    return [i["server"]] + list(i.get("alts") or [])


def enc_server(i, sv=None, sidx=0):
    """sidx = index of the spec (0 = server, k = alts[k-1]); filter ids as in the harness."""
    orc = i["oracle"]
    if sv is None:
        sv = i["server"]
    base = 1000000 * sidx
    ck = {k: v for k, v in (orc.get("ckeys") or [])}
    rules = []
    for ri, r in enumerate(sv.get("rules") or []):
        paths = []
        for pj, p in enumerate(r.get("paths") or []):
            hs = [Rec(hc_key=S(ck.get(h["key"], h["key"])), hc_values=L([S(v) for v in h.get("values") or []]),
                      hc_regexp=S(h.get("regexp") or "")) for h in p.get("headers") or []]
            paths.append(Rec(pe_path=S(p.get("path") or ""), pe_prefix=S(p.get("prefix") or ""),
                             pe_regexp=S(p.get("regexp") or ""), pe_methods=L([S(m) for m in p.get("methods") or []]),
                             pe_rewrite=S(p.get("rewrite") or ""), pe_backend=S(p.get("backend") or ""),
                             pe_headers=L(hs), pe_match_all=B(p.get("matchAll")),
                             pe_filter=_fid(p.get("filter") is not None, base + 1000 * (ri + 1) + pj + 1),
                             pe_body=Z(p.get("bodyLimit") or 0)))
        rules.append(Rec(ru_host=S(r.get("host") or ""), ru_host_re=S(r.get("hostRegexp") or ""),
                         ru_filter=_fid(r.get("filter") is not None, base + 1000 * (ri + 1)), ru_paths=L(paths)))
    return Rec(sv_filter=_fid(sv.get("filter") is not None, base), sv_rules=L(rules),
               sv_backends=L([S(b) for b in sv.get("backends") or []]), sv_body=Z(sv.get("bodyLimit") or 0),
               sv_xff=B(sv.get("xForwardedFor")))


def enc_tabs(i):
    o = i["oracle"]
    return Rec(t_re=L([T(S(x["p"]), S(x["s"]), B(x["m"])) for x in o.get("re") or []]),
               t_rep=L([T(S(x["p"]), S(x["s"]), S(x["t"]), S(x["r"])) for x in o.get("rep") or []]),
               t_ip=L([T(N(x["f"]), S(x["ip"]), B(x["a"])) for x in o.get("ip") or []]))


def enc_reqs(i):
    out = []
    for rq, ro in zip(i.get("reqs") or [], i["oracle"].get("reqs") or []):
        out.append(Rec(rq_host=S(rq["host"]), rq_method=S(rq["method"]), rq_path=S(rq["path"]),
                       rq_rawpath=S(rq.get("rawpath") or ""), rq_headers=L([T(S(k), S(v)) for k, v in ro.get("hdr") or []]), rq_ip=S(ro["realip"]),
                       rq_body=Z(rq.get("body") or 0), rq_sni=S(rq.get("sni") or "")))
    return L(out)


def enc_hostnames(i):
    return L([S(ro["hostname"]) for ro in i["oracle"].get("reqs") or []])


def enc_obs(o):
    return T(Z(o["status"]), S(o["backend"]), S(o["path"]), B(o["panic"]), Z(o.get("gen") or 0), S(o.get("xff") or ""))


def enc_mapper(m):
    return L([T(S(b["name"]), N(b["gen"])) for b in (m or [])])


def mappers(i, n):
    default = [dict(name=b, gen=1) for b in i["server"].get("backends") or []]
    ms = list(i.get("mappers") or [])
    return (ms + [default] * n)[:n]


def enc_mappers(i):
    return L([enc_mapper(m) for m in mappers(i, len(i.get("reqs") or []))])


def encode(c):
    i, o = c["in"], c["obs"]
    if c["grp"] == "route":
        return Rec(rc_sv=enc_server(i), rc_tabs=enc_tabs(i), rc_reqs=enc_reqs(i), rc_mappers=enc_mappers(i), rc_hostnames=enc_hostnames(i),
                   rc_accepted=B(o["accepted"]), rc_obs=L([enc_obs(x) for x in o.get("outs") or []]))
    raise ValueError(c["grp"])


def distribution(cases):
    d = dict(groups={}, accepted=0, mapper_histories=0, mapper_changes=0, rules={}, paths={}, requests=0, statuses={}, dispatched=0, rewritten=0,
             header_conditioned_entries=0, regexp_entries=0, filters=0)
    for c in cases:
        d["groups"][c["grp"]] = d["groups"].get(c["grp"], 0) + 1
        sv = c["in"]["server"]
        d["accepted"] += bool(c["obs"].get("accepted"))
        nr = len(sv.get("rules") or [])
        d["rules"][str(nr)] = d["rules"].get(str(nr), 0) + 1
        d["filters"] += sv.get("filter") is not None
        for r in sv.get("rules") or []:
            np_ = len(r.get("paths") or [])
            d["paths"][str(np_)] = d["paths"].get(str(np_), 0) + 1
            d["filters"] += r.get("filter") is not None
            for p in r.get("paths") or []:
                d["header_conditioned_entries"] += bool(p.get("headers"))
                d["regexp_entries"] += bool(p.get("regexp"))
                d["filters"] += p.get("filter") is not None
        ms = c["in"].get("mappers") or []
        ch = sum(1 for a, b in zip(ms, ms[1:]) if a != b)
        d["mapper_histories"] += ch > 0
        d["mapper_changes"] += ch
        outs = c["obs"].get("outs") or []
        if outs and isinstance(outs[0], dict) and "cached" in outs[0]:
            reqs = [c["in"]["reqs"][k] for k in c["in"].get("seq") or [] if k >= 0]
            outs = [x["cached"] for x in outs]
        else:
            reqs = c["in"].get("reqs") or []
        for rq, o in zip(reqs, outs):
            d["requests"] += 1
            k = "panic" if o["panic"] else str(o["status"])
            d["statuses"][k] = d["statuses"].get(k, 0) + 1
            if o["backend"]:
                d["dispatched"] += 1
                d["rewritten"] += o["path"] != rq["path"]
    return d


def shrink_candidates(inp, grp):
    """smaller inputs: fewer requests, then fewer rules / paths / header conditions / filters"""
    import copy
    reqs = inp.get("reqs") or []
    if grp == "route" and len(reqs) > 1:
        for k in range(len(reqs)):       # one request alone
            cand = copy.deepcopy(inp)
            cand["reqs"] = [reqs[k]]
            if inp.get("mappers"):
                cand["mappers"] = [inp["mappers"][k]] if k < len(inp["mappers"]) else []
            yield cand
        ms = inp.get("mappers") or []
        if ms:                               # histories: drop one step / keep a prefix
            for k in range(len(reqs) - 1, 0, -1):
                cand = copy.deepcopy(inp)
                cand["reqs"], cand["mappers"] = reqs[:k], ms[:k]
                yield cand
            for k in range(len(reqs)):
                cand = copy.deepcopy(inp)
                cand["reqs"], cand["mappers"] = reqs[:k] + reqs[k + 1:], ms[:k] + ms[k + 1:]
                yield cand
    rules = inp["server"].get("rules") or []
    for ri in range(len(rules)):
        if len(rules) > 1:
            cand = copy.deepcopy(inp)
            del cand["server"]["rules"][ri]
            yield cand
    for ri, r in enumerate(rules):
        ps = r.get("paths") or []
        for pj in range(len(ps)):
            cand = copy.deepcopy(inp)
            del cand["server"]["rules"][ri]["paths"][pj]
            yield cand
    for ri, r in enumerate(rules):
        for pj, p in enumerate(r.get("paths") or []):
            for key, empty in (("headers", []), ("methods", []), ("filter", None), ("rewrite", "")):
                if p.get(key):
                    cand = copy.deepcopy(inp)
                    cand["server"]["rules"][ri]["paths"][pj][key] = empty
                    yield cand
        if r.get("filter"):
            cand = copy.deepcopy(inp)
            cand["server"]["rules"][ri]["filter"] = None
            yield cand
    if inp["server"].get("filter"):
        cand = copy.deepcopy(inp)
        cand["server"]["filter"] = None
        yield cand


def signature(case, result):
    return case["grp"]          # one shrunk report per run is enough
