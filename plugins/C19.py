"""C19 cluster syncer: plugin for ./check (see lib/vf/driver.py for the protocol)."""
from vf.coqterm import Z, N, B, S, L, T, C, Rec, Nat, Opt

ID = "C19"
COQ_TARGETS = ["props/C19.vo", "model/SyncerCheck.vo"]
THEOREMS = [
    ("EG.props.C19", "is_data_equal_spec"),
    ("EG.props.C19", "C19_snapshots_are_store_states"),
    ("EG.props.C19", "C19_monotone"),
    ("EG.props.C19", "C19_consecutive_differ"),
    ("EG.props.C19", "C19_first_is_current"),
    ("EG.props.C19", "C19_converges"),
    ("EG.props.C19", "C19_checker_complete"),
    ("EG.props.C19", "C19_pulled_meaning"),
    ("EG.props.C19", "C19_checker_sound"),
    ("EG.props.C19", "C19_fast_checker_equiv"),
    ("EG.props.C19", "C19_all_endpoints_survive_minority_stop"),
    ("EG.props.C19", "C19_refuted_single_endpoint"),
]
HARNESSES = [
    dict(name="sync", pkg="pkg/cluster", files=["harness/cluster/zz_verif_c19_test.go"],
         run="TestVerifC19", groups=["sync", "endpoints"], timeout=1500),
    # three members on one host; the server of each member is stopped in turn (runs beside the first harness)
    dict(name="multi", pkg="pkg/cluster",
         files=["harness/cluster/zz_verif_c19_test.go", "harness/cluster/zz_verif_c19_multi_test.go"],
         run="TestVerifC19Multi", groups=["multi"], timeout=1500),
]
GROUPS = {"sync": "check_sync", "multi": "check_multi", "endpoints": "check_endpoints"}
EXPLAIN = {"sync": "explain_sync", "multi": "explain_multi", "endpoints": "explain_endpoints"}
CASES = {"quick": 216, "thorough": 2400}
RULE = ("cases: one write history (put/delete/txn/delete-prefix; bursts, same-value puts, delete-then-recreate, keys under/"
        "outside/near the watched key or prefix; sleeps; muted watch, injected watch cancellation, etcd server stop/start) "
        "x 2-4 subscriptions (Sync/SyncRaw/SyncPrefix/SyncRawPrefix, subscribed at any point, fast/slow/late consumer); "
        "non-trivial = at least one message delivered; classes add: a store change was coalesced (+1), consecutive equal store "
        "contents (+2), multi-key content (+4), non-empty content at subscription (+8), fault injected (+16), a content "
        "came back after being replaced (+32), 3-member same-host cluster with the server of one member stopped (+64); "
        "size dimension: values up to ~200 KiB, prefix totals crossing a small non-default cluster.max-call-send-msg-size "
        "(64 KiB..2 MiB) and the 2/4 MiB client defaults; "
        "forced interleaving: writes (put-then-delete, recreate, overwrites) issued while the periodic pull of every "
        "subscription is in flight (parked on the cluster's client mutex held by the harness), so their watch events are "
        "queued behind a pull that already saw the later state; "
        "key-count dimension: prefixes of 513 / 1024 / >1024 (1025, 1100, 1537, 2049) keys written by index ranges, then "
        "changes of the last, a middle and a first key; "
        "group endpoints: etcd client endpoint list built by getClient vs members of the initial cluster (1-7 members, same "
        "host / distinct hosts) and its per-call send/receive limits vs the option; distinct = distinct (group, input) hashes among non-trivial cases")
TRUSTED_BASE = [
    "model coq/model/Syncer.v is hand-written; tied to pkg/cluster/syncer.go + op.go by the per-run correspondence (sampled)",
    "the store-state sequence is what the harness reads back from the embedded etcd (its own single linearizable range request, "
    "independent of op.go; cluster.GetRaw/GetRawPrefix are cross-checked against it) "
    "after each of its own writes; the harness is the only writer of the watched keys",
    "scheduling (ticker, watch delivery, pull timing) is fed back to the model as a schedule reconstructed from the observed "
    "messages; etcd server/client, gRPC, Go runtime are not modelled",
    "evaluation uses check_trace_fast (linear comparison when two contents list the same keys in the same order), proved equal "
    "to check_trace for contents with unique keys (C19_fast_checker_equiv); contents come from Go maps / one range response; "
    "for contents of more than 64 entries the correspondence decides the model's outputs by that checker (C19_checker_complete) "
    "instead of running the quadratic model",
    "fault injection (muted watch stream, fabricated 'compacted' cancel response) is a gRPC stream interceptor of the harness' "
    "own watch client; a genuine etcd-side cancellation is not forced",
]
ASSUMPTIONS = [
    "a multi-member store is available iff a quorum of its members is up (modelled etcd semantics), not tied to one endpoint",
    "fairness of the ticker: after the last write some pull eventually succeeds (hypothesis of C19_converges)",
    "a pull returns the store content of one instant (single etcd range request) and contents are maps (unique keys)",
    "the consumer's implicit initial snapshot is the empty content (DESIGN.md C19 reading)",
]

MANIFEST = dict(
    design_ref="DESIGN.md section 6 C19",
    level_text=("Theorems over the executable model of syncer.run for ALL interleavings of writes, successful/failed pulls, watch "
                "responses, watch cancellations and ticks: snapshots are store states in non-decreasing store order, consecutive "
                "snapshots differ, the first is the content at a pull after subscription, and after a pull following the last "
                "write the last snapshot equals the final content (convergence without further writes, across cancelled "
                "watches and failed pulls); isDataEqual is map equality; the decidable trace checker accepts exactly the "
                "model's outputs. Tied to pkg/cluster on every run: real syncer on an embedded etcd, store states read back "
                "from etcd, every message recorded until quiescence, checked by that Coq checker."),
    level_note=("Trusted: Coq kernel + vm_compute; hand-written model validated on sampled histories; etcd linearizability and "
                "ticker fairness assumed; watch faults are injected at the client's gRPC stream."),
    technique="Coq proof (induction over event lists, greedy-matching completeness) + model/implementation correspondence by vm_compute",
)


def coq_header(kf_open):
    return "From EG.lib Require Import Base.\nFrom EG.model Require Import Syncer SyncerCheck.\n"


def _content(c):
    c = c or []
    if not any(k.startswith("#range:") for k, _ in c):
        return L([T(S(k), S(v)) for k, v in c])
    items = []
    for k, v in c:
        if k.startswith("#range:"):
            _, frm, n, stem = k.split(":", 3)
            items.append(C("CR", S(stem), Nat(frm), Nat(n), S(v)))
        else:
            items.append(C("CP", S(k), S(v)))
    return "(expand %s)" % L(items)


def _val(v, size):
    """large values are one byte repeated `size` times; harness and model both use the token #<size>:<byte>"""
    if size and size > 256:
        return "#%d:%s" % (size, (v or "x")[:1])
    return v


def _op(o):
    k = o["k"]
    if k == "put":
        return C("OPut", S(o.get("key", "")), S(_val(o.get("val", ""), o.get("size", 0))))
    if k == "fill":
        return C("OFill", S(o.get("key", "")), Nat(o.get("from", 0)), Nat(o.get("n", 0)), S(o.get("val", "")))
    if k == "del":
        return C("ODel", S(o.get("key", "")))
    if k == "delprefix":
        return C("ODelPrefix", S(o.get("key", "")))
    if k == "txn":
        return C("OTxn", L([T(S(kv["key"]), Opt(None if kv.get("val") is None else _val(kv["val"], o.get("size", 0)), S))
                            for kv in (o.get("kvs") or [])]))
    return "ONop"


_KIND = {"sync": 0, "raw": 1, "prefix": 2, "rawprefix": 3}
_FAULTS = ("mute", "unmute", "cancel", "restart", "stop", "start", "hold", "release")


def _down_max(ops):
    down, best = set(), 0
    for x in ops:
        if x["k"] == "stop":
            down.add(x.get("m", 0))
        elif x["k"] == "start":
            down.discard(x.get("m", 0))
        best = max(best, len(down))
    return best


def encode(c):
    i, o = c["in"], c["obs"]
    if c["grp"] == "endpoints":
        return Rec(e_members=Nat(i["members"]), e_same_host=B(i.get("same_host")),
                   e_endpoints=Nat(min(4000, o.get("endpoints", 0))), e_covers=B(o.get("covers") and not o.get("bad")),
                   e_send_opt=Z(o.get("send_opt", 0)), e_send=Z(o.get("send", -1)), e_recv=Z(o.get("recv", -1)))
    if c["grp"] == "multi":
        return Rec(m_case=_encode_sync(i, o), m_members=Nat(i.get("members", 1)),
                   m_down=Nat(_down_max(i.get("ops") or [])), m_endpoints=Nat(min(4000, o.get("endpoints", 0))))
    return _encode_sync(i, o)


def _encode_sync(i, o):
    ops = i.get("ops") or []
    subs = i.get("subs") or []
    n = len(ops)
    return Rec(
        c_ops=L([_op(x) for x in ops]),
        c_subs=L([Rec(s_kind=N(_KIND.get(s["kind"], 3)), s_target=S(s.get("target", "")),
                      s_at=Nat(max(0, min(n, int(s.get("at", 0)))))) for s in subs]),
        c_obs=L([Rec(o_states=L([_content(x) for x in (so.get("states") or [])]),
                     o_msgs=L([_content(x) for x in (so.get("msgs") or [])])) for so in (o.get("subs") or [])]),
        c_faults=B(any(x["k"] in _FAULTS for x in ops)),
        c_bad=B(bool(o.get("bad"))), c_api_bad=B(o.get("api_read_mismatch", 0) > 0))


def distribution(cases):
    d = dict(groups={}, ops_hist={}, op_kinds={}, sub_kinds={}, consumers={}, subscribe_pos=dict(start=0, middle=0, end=0),
             messages=0, store_states=0, large_value_cases=0, max_prefix_keys=0, api_read_mismatches=0, max_watched_bytes=0, send_limit_options={}, dropped_watch_responses=0, injected_cancels=0, harness_failures=0)
    for c in cases:
        i, o = c["in"], c["obs"]
        d["groups"][c["grp"]] = d["groups"].get(c["grp"], 0) + 1
        if c["grp"] == "endpoints":
            continue
        ops = i.get("ops") or []
        b = "%d-%d" % (len(ops) // 10 * 10, len(ops) // 10 * 10 + 9)
        d["ops_hist"][b] = d["ops_hist"].get(b, 0) + 1
        for x in ops:
            d["op_kinds"][x["k"]] = d["op_kinds"].get(x["k"], 0) + 1
        d["api_read_mismatches"] += o.get("api_read_mismatch", 0)
        for x in ops:
            if x["k"] == "fill":
                d["max_prefix_keys"] = max(d["max_prefix_keys"], x.get("from", 0) + x.get("n", 0))
        if any(x.get("size", 0) > 256 for x in ops):
            d["large_value_cases"] += 1
            lim = str(i.get("send_limit", 0))
            d["send_limit_options"][lim] = d["send_limit_options"].get(lim, 0) + 1
            for so in o.get("subs") or []:
                for st in so.get("states") or []:
                    tot = sum(int(v[1:].split(":")[0]) if v.startswith("#") else len(v) for _, v in st)
                    d["max_watched_bytes"] = max(d["max_watched_bytes"], tot)
        for s in i.get("subs") or []:
            d["sub_kinds"][s["kind"]] = d["sub_kinds"].get(s["kind"], 0) + 1
            d["consumers"][s["consumer"]] = d["consumers"].get(s["consumer"], 0) + 1
            at = s.get("at", 0)
            d["subscribe_pos"]["start" if at <= 0 else "end" if at >= len(ops) else "middle"] += 1
        for so in o.get("subs") or []:
            d["messages"] += len(so.get("msgs") or [])
            d["store_states"] += len(so.get("states") or [])
        d["dropped_watch_responses"] += o.get("info_dropped_watch_responses", 0)
        d["injected_cancels"] += o.get("info_injected_cancels", 0)
        d["harness_failures"] += 1 if o.get("bad") else 0
    return d


def extra_evidence(tier, cases, results):
    restarts = sum(1 for c in cases for x in (c["in"].get("ops") or []) if x["k"] == "restart")
    stops = sum(1 for c in cases if c["grp"] == "multi" for x in (c["in"].get("ops") or []) if x["k"] == "stop")
    return dict(multi_member_server_stops=stops,
                multi_member_note=("3-member same-host static cluster (mockStaticCluster): syncer on member 0, server of each "
                                   "member stopped in turn while an independent client keeps writing; convergence required while "
                                   "the server is down%s" % (" and across its restart" if tier == "thorough" else "")),
                etcd_restart_exercised=restarts > 0, etcd_restarts=restarts,
                etcd_restart_note=("NOT exercised in this run" if restarts == 0 else
                                   "embedded etcd server stopped (CloseServer) and restarted (StartServer) from its data dir in "
                                   "the middle of %d histories; it restarts cleanly offline" % restarts))


def signature(case, result):
    return "%s:corr=%s" % (case.get("grp"), result.get("corr"))


def shrink_candidates(inp, grp):
    if grp != "sync":   # multi-member cases are already minimal scenarios; each re-run costs a cluster start
        return
    ops = inp.get("ops") or []
    subs = inp.get("subs") or []
    # fewer subscriptions first (each is independent), then fewer ops
    if len(subs) > 1:
        for k in range(len(subs)):
            cand = dict(inp)
            cand["subs"] = [subs[k]]
            yield cand
    n = len(ops)
    k = n // 2
    while k >= 1:
        for s in range(0, n, k):
            cand = dict(inp)
            cand["ops"] = ops[:s] + ops[s + k:]
            # keep subscription positions meaningful
            cand["subs"] = [dict(x, at=(x["at"] if x["at"] <= s else max(s, x["at"] - k))) for x in subs]
            if cand["ops"] != ops:
                yield cand
        k //= 2
