"""C13 validation soundness: plugin for ./check (see lib/vf/driver.py for the protocol)."""
import json
import os
import subprocess

from vf.coqterm import Z, N, B, S, L, T, C, Rec, Opt

ID = "C13"
COQ_TARGETS = ["props/C13.vo", "model/SchemaCheck.vo"]
# when the proofs no longer build (a tag changed in /repo), the case evaluation still needs the model
CHECK_TARGETS = ["model/SchemaCheck.vo"]
THEOREMS = [
    ("EG.props.C13", n) for n in [
        "C13_format_path_sound",
        "C13_schema_path_sound",
        "C13_leaf_valid_no_panic",
        "C13_RateLimiter_valid_implies_precond",
        "C13_RateLimiter_precond_no_panic",
        "C13_CircuitBreaker_valid_implies_precond",
        "C13_Retry_valid_implies_precond",
        "C13_Retry_precond_no_panic",
        "C13_Adaptor_valid_implies_precond",
        "C13_Validator_valid_implies_precond",
        "C13_Builder_valid_implies_precond",
        "C13_TopicMapper_valid_implies_precond",
        "C13_Proxy_valid_implies_precond_partial",
        "C13_Proxy_precond_no_panic",
        "C13_Pipeline_valid_implies_precond_partial",
        "C13_validators_modelled",
        "C13_refuted_wr_zero_total",
        "C13_refuted_rl_zero_period",
        "C13_refuted_sig_no_keystore",
        "C13_refuted_adaptor_codec",
        "C13_refuted_policy_ref",
        "C13_refuted_fallback_nil_resp",
        "C13_refuted_null_entry",
        "C13_refuted_retry_jitter",
        "C13_refuted_builder_template",
        "C13_refuted_topic_index",
        "C13_refuted_flow_namespace",
        "C13_refuted_stream_compress",
        "C13_refuted_mqtt_rules",
    ]
]

_LIB = ["harness/c13lib/c13_types.go", "harness/c13lib/c13_gen.go", "harness/c13lib/c13_kinds.go",
        "harness/c13lib/c13_obs.go", "harness/c13lib/c13_iso.go"]
_EXTRA = {"pkg/zzverifc13/zz_verif_" + os.path.basename(f): f for f in _LIB}
_EXTRA["pkg/filters/proxy/zz_verif_c13_hook.go"] = "harness/proxy/zz_verif_c13_hook.go"
_EXTRA["pkg/filters/builder/zz_verif_c13_hook.go"] = "harness/builder/zz_verif_c13_hook.go"
_EXTRA["pkg/util/circuitbreaker/zz_verif_c13_hook.go"] = "harness/circuitbreaker/zz_verif_c13_hook.go"

HARNESSES = [
    dict(name="pl", pkg="pkg/object/pipeline", files=["harness/pipeline/zz_verif_c13_test.go"],
         run="TestVerifC13", groups=["spec"], timeout=1500, share=0.8, extra_overlay=_EXTRA),
    dict(name="hs", pkg="pkg/object/httpserver", files=["harness/httpserver/zz_verif_c13_test.go"],
         run="TestVerifC13HTTPServer", groups=["spec"], timeout=900, share=0.1, extra_overlay=_EXTRA),
    dict(name="gf", pkg="pkg/object/globalfilter", files=["harness/globalfilter/zz_verif_c13_test.go"],
         run="TestVerifC13GlobalFilter", groups=["spec"], timeout=900, share=0.05, extra_overlay=_EXTRA),
    dict(name="mq", pkg="pkg/object/mqttproxy", files=["harness/mqttproxy/zz_verif_c13_test.go"],
         run="TestVerifC13MQTTProxy", groups=["spec"], timeout=900, share=0.05, extra_overlay=_EXTRA),
]
GROUPS = {"spec": "(check_spec pinned)"}
EXPLAIN = {"spec": "(explain_spec pinned)"}
CASES = {"quick": 2000, "thorough": 16000}
RULE = ("cases: one raw configuration document of one kind (every registered filter kind, Retry, CircuitBreaker, Pipeline, ...) "
        "generated from the struct tags by reflection (optional fields present/absent, boundary numbers, empty lists, duplicates, "
        "null entries, dangling references, wrong types) + requests derived from the document; non-trivial = the document "
        "reaches validation (kind known, no yaml type error); class = 1 + 2*kind index + accepted; distinct = distinct (group, input) hashes")
TRUSTED_BASE = [
    "tools/specgen (go/parser only) regenerates coq/gen/GenSchema.v from /repo on every run; its output is cross-checked by the "
    "correspondence (normalized document + schema/format verdict of the real pkg/v for every case)",
    "model coq/model/Schema.v (yaml decode, TrimNull, schema interpreter, format functions, Validate() methods, run-time panic sites) "
    "is hand-written; tied to the code by the per-run correspondence (sampled)",
    "JSON-schema library semantics (alecthomas/jsonschema reflector, gojsonschema), yaml.v2/v3, text/template, regexp, "
    "time.ParseDuration are validated through oracle tables computed by the real libraries, not verified",
    "accepted specs run with a stubbed backend transport (proxy.fnSendRequest) and a nil supervisor; requests are a small "
    "set derived from the document, not all requests",
]
ASSUMPTIONS = [
    "oracle tables (format checkers, schema patterns, durations, template parsing) are arbitrary in the theorems",
    "requests reach a filter with a request of its own protocol in the context",
]

MANIFEST = dict(
    design_ref="DESIGN.md section 6 C13",
    level_text=("PARTIAL. Theorems over the executable model of pkg/v validation (yaml decode with defaults, schema interpreter over the "
                "struct-tag schema REGENERATED from /repo on every run, format functions, hand-modelled Validate() methods): for the modelled "
                "kinds (RateLimiter, Validator, RequestAdaptor, ResponseAdaptor, Retry, CircuitBreaker, RequestBuilder, ResponseBuilder, "
                "TopicMapper, Proxy[partial]) a document accepted by the repaired validation satisfies the run-time precondition and the "
                "precondition excludes every modelled panic site; refutation witnesses for each defect of the unchanged code. Model tied to "
                "the code on every run: normalized document, schema/format/Validate verdicts and accept/reject of the real entry points vs the "
                "model for every generated document of EVERY registered kind; accepted specs of all kinds (incl. unmodelled) are instantiated "
                "and sent requests under recover in a child process (sampled no-panic oracle)."),
    level_note=("Trusted: Coq kernel + vm_compute; specgen; hand-written model validated only on sampled documents; library semantics via "
                "oracles; kinds needing external services are validated but not instantiated (listed in the evidence); for unmodelled kinds "
                "only the sampled oracle applies."),
    technique="Coq proof over a source-derived schema + model/implementation correspondence by vm_compute + sampled instantiate-and-serve oracle",
)

FLAGS = ["q_wr_zero_total", "q_rl_zero_period", "q_sig_no_keystore", "q_adaptor_codec", "q_policy_ref", "q_fallback_nil_resp",
         "q_null_entry", "q_retry_jitter", "q_builder_template", "q_topic_index", "q_flow_namespace", "q_stream_compress", "q_mqtt_rules"]
PANIC = {"": 0, "create": 1, "init": 2, "handle": 3, "other": 4, "crash": 5, "hang": 6}


def pregen(repo, coqdir):
    """Regenerate coq/gen/GenSchema.v from the working tree (file rewritten only if its text changed)."""
    here = os.path.dirname(os.path.dirname(os.path.abspath(__file__)))
    env = dict(os.environ, GOFLAGS="", GOPROXY="off", GOSUMDB="off", GOTOOLCHAIN="local", CGO_ENABLED="0")
    p = subprocess.run(["go", "run", ".", "-repo", repo, "-out", os.path.join(coqdir, "gen", "GenSchema.v")],
                       cwd=os.path.join(here, "tools", "specgen"), env=env, timeout=300,
                       stdout=subprocess.PIPE, stderr=subprocess.STDOUT, text=True)
    if p.returncode != 0:
        raise RuntimeError("specgen failed:\n" + p.stdout[-3000:])


def coq_header(kf_open):
    on = {k.get("flag") for k in kf_open}
    pinned = "{| " + "; ".join("%s := %s" % (f, B(f in on)) for f in FLAGS) + " |}"
    return ("From EG.lib Require Import Base SchemaTy.\nFrom EG.gen Require Import GenSchema.\n"
            "From EG.model Require Import Schema SchemaCheck.\nOpen Scope Z_scope.\n"
            "Definition pinned : quirks := %s.\n" % pinned)


def J(x):
    if x is None:
        return "JNull"
    if isinstance(x, bool):
        return C("JBool", B(x))
    if isinstance(x, int):
        return C("JNum", Z(x * 1000))
    if isinstance(x, float):
        return C("JNum", Z(round(x * 1000)))
    if isinstance(x, str):
        return C("JStr", S(x))
    if isinstance(x, list):
        return C("JArr", L([J(e) for e in x]))
    if isinstance(x, dict):
        return C("JObj", L([T(S(k), J(x[k])) for k in sorted(x)]))
    raise ValueError(type(x))


def _sub(xs):
    return L([T(B(s["ok"]), S(s["name"]), S(s["kind"])) for s in xs or []])


def encode(c):
    i, o = c["in"], c["obs"]
    orc = i.get("orc") or {}
    strs = L([T(S(r["s"]), Rec(so_fm=N(r["fm"]), so_pm=N(r["pm"]), so_dur=Opt(r.get("dur"), Z)))
              for r in orc.get("strs") or []])
    oc = Rec(o_pats=L([S(p) for p in orc.get("pats") or []]), o_strs=strs,
             o_rl_first=L([Z(x) for x in orc.get("rl_first") or []]),
             o_filters=_sub(orc.get("filters")), o_resil=_sub(orc.get("resil")),
             o_tpl_ok=L([T(S(t["key"]), B(t["ok"])) for t in orc.get("tpl") or []]))
    norm = o.get("norm")
    return Rec(sc_cat=S(i["cat"]), sc_raw=J(i["doc"]), sc_orc=oc,
               ob_known=B(o["kind_known"]), ob_meta=B(o["meta_ok"]), ob_derr=B(o["decode_err"]),
               ob_norm=("None" if norm is None else C("Some", J(norm))),
               ob_js=B(o["js"]), ob_fmt=B(o["fmt"]), ob_gen=B(o["gen"]), ob_sys=B(o["sys"]), ob_acc=B(o["accepted"]),
               ob_inst=B(o.get("inst") == "ok"), ob_panic=N(PANIC.get(o.get("panic") or "", 4)))


def _dockind(c):
    d = c["in"].get("doc")
    k = d.get("kind") if isinstance(d, dict) else None
    return k if isinstance(k, str) else c["in"].get("kind")


def distribution(cases):
    d = dict(by_kind={}, accepted=0, rejected=0, instantiated=0, skipped={}, panics={}, decode_errors=0)
    for c in cases:
        k = "%s/%s" % (c["in"]["cat"], c["in"]["kind"])
        e = d["by_kind"].setdefault(k, dict(n=0, accepted=0, instantiated=0, panicked=0))
        e["n"] += 1
        o = c["obs"]
        d["decode_errors"] += bool(o["decode_err"])
        if o["accepted"]:
            d["accepted"] += 1
            e["accepted"] += 1
        else:
            d["rejected"] += 1
        inst = o.get("inst") or ""
        if inst == "ok":
            d["instantiated"] += 1
            e["instantiated"] += 1
        elif inst.startswith("skipped"):
            d["skipped"][inst[9:]] = d["skipped"].get(inst[9:], 0) + 1
        if o.get("panic"):
            e["panicked"] += 1
            d["panics"][o["panic"]] = d["panics"].get(o["panic"], 0) + 1
    return d


def signature(c, r):
    o = c["obs"]
    msg = "".join(ch for ch in (o.get("panic_msg") or "")[:60] if not ch.isdigit())
    return "%s|%s|%s" % (_dockind(c), o.get("panic"), msg)


def _paths(x, pre=()):
    if isinstance(x, dict):
        for k in sorted(x):
            yield pre + (k,)
            yield from _paths(x[k], pre + (k,))
    elif isinstance(x, list):
        for i in range(len(x)):
            yield pre + (i,)
            yield from _paths(x[i], pre + (i,))


def _del(x, path):
    x = json.loads(json.dumps(x))
    cur = x
    for p in path[:-1]:
        cur = cur[p]
    del cur[path[-1]]
    return x


def shrink_candidates(inp, grp):
    doc = inp.get("doc")
    # fewer requests first, then drop document parts (largest subtrees first)
    reqs = inp.get("reqs") or []
    for i in range(len(reqs)):
        cand = dict(inp)
        cand["reqs"] = reqs[:i] + reqs[i + 1:]
        cand.pop("orc", None)
        yield cand
    paths = sorted(_paths(doc), key=lambda p: len(p))
    for p in paths:
        if p in (("name",), ("kind",)):
            continue
        cand = dict(inp)
        cand["doc"] = _del(doc, p)
        cand.pop("orc", None)
        yield cand


MODELLED = ["RateLimiter", "Validator", "RequestAdaptor", "ResponseAdaptor", "Proxy", "Retry", "CircuitBreaker",
            "RequestBuilder", "ResponseBuilder", "Fallback", "CORSAdaptor", "TopicMapper", "Pipeline"]
EXTERNAL = {
    "Kafka": "needs a Kafka broker", "KafkaMQTT": "needs a Kafka broker", "HeaderLookup": "needs the etcd cluster of a supervisor",
    "RemoteFilter": "calls a remote HTTP service", "WASMHost": "not registered in the default build (tag wasmhost)",
    "Proxy pools with serviceRegistry+serviceName": "need the ServiceRegistry system controller",
    "HTTPServer with globalFilter": "looked up through a running supervisor",
    "HTTPServer listener / HTTP3 / autocert runtime": "only the mux (rules, ip filters, regexps, cache) is loaded and served",
    "MQTTProxy with useTLS": "needs key material (the plain broker is started in-process with an in-memory session store)",
}


def extra_evidence(tier, cases, results):
    kinds = sorted({"%s/%s" % (c["in"]["cat"], _dockind(c)) for c, r in zip(cases, results) if r is not None and r["cls"] > 0})
    return dict(
        partial_claim=dict(
            theorem_covers=["RateLimiter", "Validator", "RequestAdaptor", "ResponseAdaptor", "Retry", "CircuitBreaker",
                            "RequestBuilder", "ResponseBuilder", "TopicMapper", "Proxy (partial: main-pool uniqueness, compiled "
                            "regexps, weightedRandom total under the repaired run time)",
                            "Pipeline (partial: flow names, policy names, namespaces, Init sites of nested filters)"],
            validate_methods_modelled_and_compared=MODELLED,
            schema_decode_format_compared_for="every registered kind (generic interpreter over GenSchema)",
            sampled_no_panic_oracle_only=["CertExtractor", "ConnectControl", "HeaderToJSON", "MQTTClientAuth", "MeshAdaptor", "Mock",
                                          "Pipeline (Handle-time sites of nested filters)",
                                          "HTTPServer", "GlobalFilter", "MQTTProxy"],
            not_instantiated=EXTERNAL),
        kinds_reaching_validation=kinds)
