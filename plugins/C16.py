"""C16 MQTT sessions / takeover: plugin for ./check (see lib/vf/driver.py for the protocol)."""
from vf.coqterm import Z, N, B, S, L, T, C, Rec, Nat

ID = "C16"
COQ_TARGETS = ["props/C16.vo", "model/BrokerCheck.vo"]
THEOREMS = [
    ("EG.props.C16", "C16_current_connection_intact"),
    ("EG.props.C16", "C16_superseded_teardown_is_noop"),
    ("EG.props.C16", "C16_reconnect_restores_subscriptions"),
    ("EG.props.C16", "C16_reconnect_reads_store"),
    ("EG.props.C16", "C16_clean_discards"),
    ("EG.props.C16", "C16_admin_delete_disconnects"),
    ("EG.props.C16", "C16_admin_unregister_guarded"),
    ("EG.props.C16", "C16_registration_survives"),
    ("EG.props.C16", "C16_broker_is_product"),
    ("EG.props.C16", "C16_refuted_takeover"),
]
HARNESSES = [
    dict(name="life", pkg="pkg/object/mqttproxy",
         files=["harness/mqttproxy/zz_verif_c15_common_test.go", "harness/mqttproxy/zz_verif_c16_test.go"],
         run="TestVerifC16", groups=["life"], timeout=420),
]
GROUPS = {"life": "(check_life pinned)"}
EXPLAIN = {"life": "(explain_life pinned)"}
CASES = {"quick": 300, "thorough": 4000}
RULE = ("cases: histories of 5-12 steps over client ids {A,B}: connect (cleanSession true/false, incl. takeover of a live id), subscribe/"
        "unsubscribe (5 filters), drop of ANY still-open connection incl. superseded ones (socket close / DISCONNECT / one more packet), "
        "admin delete, QoS-0 HTTP publish; after every step Broker.clients, sessionMap, session store and topic trie are snapshotted. "
        "non-trivial = non-empty history; classes add takeover(+1) teardown-of-non-owner(+2) admin(+4) delivery-seen(+8) "
        "cleanSession=false-connect(+16); distinct = distinct input hashes among non-trivial cases")
TRUSTED_BASE = [
    "model coq/model/Broker.v (transition system Connect/Resubscribe/Subscribe/Unsubscribe/Teardown/AdminDelete/Publish) is hand-written; "
    "tied to pkg/object/mqttproxy on every run by the correspondence (sampled): real Broker on loopback, raw TCP clients, in-package snapshots",
    "the property checker replays the statement's clauses on the implementation's own snapshots (independent of the model); the ideal model's "
    "own snapshots are required to pass the same checker on every case",
    "subscriptions per client id are a finite map filter -> QoS (the trie is C14's subject); filter/topic matching is the declarative "
    "MQTT matcher of EG.model.Topic, independent of the code (the real TopicManager's verdict is only cross-checked)",
    "quiescence of the broker is decided from goroutine dumps (all broker goroutines parked, expected number of connection goroutines)",
]
ASSUMPTIONS = [
    "each transition is atomic (handleConn's locked section; the deferred cleanup incl. the store's delete-watch it triggers; one SUBSCRIBE)",
    "the delete-watch notification of a session removal is delivered before the next step on that client id (the harness waits for quiescence)",
    "a superseded / deleted connection sends no further SUBSCRIBE/UNSUBSCRIBE (its read loop would still process one more packet)",
    "no connection cap, no auth pipeline, no will message",
]

MANIFEST = dict(
    design_ref="DESIGN.md section 6 C16",
    level_text=("Invariant theorems over a transition system of the broker's connection life cycle, for ALL traces with the teardown of "
                "any connection scheduled at ANY later point: in the ideal model the connection registered for a client id always has its "
                "session in the session map (open) and the trie holds exactly that session's subscriptions; the teardown of a non-owner "
                "changes nothing; cleanSession=false reconnect restores the subscriptions, cleanSession=true discards them; admin delete "
                "unregisters and closes the client. The pinned code is refuted by the shortest takeover trace (reproduced on a real broker: "
                "known finding). Model tied to the real broker on every run by snapshot correspondence."),
    level_note=("Trusted: Coq kernel + vm_compute; hand-written model validated on sampled histories only; step atomicity as listed in "
                "assumptions; sub-step interleavings inside one teardown are covered by the theorem's granularity only as far as the "
                "critical sections are atomic in the code (they are under the proposed repair fixes/C16-takeover-guarded-teardown.diff, which was NOT applied: KF-C16-takeover-teardown stays an open known finding, see DESIGN 12.3)."),
    technique="Coq proof (inductive invariant over all event traces) + snapshot correspondence by vm_compute",
)


def coq_header(kf_open):
    flags = {k.get("flag") for k in kf_open}
    return ("From EG.lib Require Import Base BrokerMap.\nFrom EG.model Require Import RL Session Broker BrokerCheck.\nOpen Scope Z_scope.\n"
            "Definition pinned : quirks := {| q_mqtt_lowqos_return := false; q_mqtt_overlap_last_qos := false; "
            "q_takeover_teardown_unguarded := %s |}.\n" % B("q_takeover_teardown_unguarded" in flags))


def _topics(ts):
    return L([T(S(t["f"]), Z(t["q"])) for t in ts or []])


def _snap(sn):
    return Rec(
        sn_clients=L([T(S(x["cid"]), Z(x["k"])) for x in sn.get("clients") or []]),
        sn_live=L([T(Z(x["k"]), B(x["live"])) for x in sn.get("live") or []]),
        sn_smap=L([T(S(x["cid"]), T(B(x["clean"]), B(x["closed"]), _topics(x.get("topics")))) for x in sn.get("smap") or []]),
        sn_db=L([T(S(x["cid"]), T(B(x["clean"]), _topics(x.get("topics")))) for x in sn.get("db") or []]),
        sn_trie=L([T(S(x["cid"]), _topics(x.get("topics"))) for x in sn.get("trie") or []]))


def encode(c):
    i, o = c["in"], c["obs"]
    ops = i.get("ops") or []
    steps = o.get("steps") or []
    out = []
    for op, st in zip(ops, steps):
        if st.get("skip"):
            continue
        k = op["op"]
        if k == "connect":
            t = C("LConnect", Z(op["k"]), S(op["cid"]), B(op.get("clean", False)))
        elif k == "sub":
            t = C("LSub", Z(op["k"]), _topics(op.get("subs")))
        elif k == "unsub":
            t = C("LUnsub", Z(op["k"]), L([S(f) for f in op.get("fs") or []]))
        elif k == "drop":
            t = C("LDrop", Z(op["k"]), B(op.get("how") == "poke"), B(st.get("eof", False)))
        elif k == "admin":
            t = C("LAdmin", S(op["cid"]))
        elif k == "watchloss":
            t = C("LWatchLoss", B(op.get("listfails", False)), B(st.get("closed", False)))
        elif k == "kaprobe":
            t = C("LKeepalive", Z(op.get("ka", 0)), Z(st.get("dlms", 0)))
        elif k == "extput":
            t = C("LExtPut", S(op["cid"]), _topics(op.get("subs")))
        elif k == "pub":
            t = C("LPub", S(op["topic"]), L([T(S(f), B(m)) for f, m in zip(st.get("filters") or [], st.get("match") or [])]),
                  L([Z(x) for x in st.get("recv") or []]))
        else:
            continue
        out.append(T(t, "None" if st.get("nosnap") else "(Some %s)" % _snap(st.get("snap") or {})))
    return Rec(lc_steps=L(out), lc_bad=B(bool(o.get("bad")) or len(steps) != len(ops)))


def signature(c, r):
    return "life/%s/%s" % (r.get("attrib"), r.get("corr"))


def distribution(cases):
    d = dict(groups={}, ops={}, lengths={}, skipped=0)
    for c in cases:
        d["groups"][c["grp"]] = d["groups"].get(c["grp"], 0) + 1
        ops = c["in"].get("ops") or []
        b = str(len(ops))
        d["lengths"][b] = d["lengths"].get(b, 0) + 1
        for op, st in zip(ops, c["obs"].get("steps") or []):
            k = op["op"] + ("/" + op["how"] if op.get("how") else "")
            d["ops"][k] = d["ops"].get(k, 0) + 1
            d["skipped"] += bool(st.get("skip"))
    return d


def shrink_candidates(inp, grp):
    ops = inp.get("ops") or []
    for n in range(len(ops) - 1, -1, -1):
        yield dict(inp, ops=ops[:n] + ops[n + 1:])
