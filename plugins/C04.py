"""C04 load balancing: plugin for ./check (see lib/vf/driver.py for the protocol)."""
from vf.coqterm import Z, N, B, S, L, T, C, Rec, Nat

ID = "C04"
COQ_TARGETS = ["props/C04.vo", "model/LBCheck.vo"]
THEOREMS = [
    ("EG.props.C04", "C04_rr_balanced"),
    ("EG.props.C04", "C04_rr_model_is_mod"),
    ("EG.props.C04", "C04_rr_schedule_independent"),
    ("EG.props.C04", "C04_hash_sticky"),
    ("EG.props.C04", "C04_choice_in_list"),
    ("EG.props.C04", "C04_wr_never_zero_weight"),
    ("EG.props.C04", "C04_no_server_iff_empty"),
    ("EG.props.C04", "C04_pool_list_spec"),
    ("EG.props.C04", "C04_validated_never_panics"),
    ("EG.props.C04", "C04_refuted_wr_zero_total"),
    ("EG.props.C04", "C04_replace_choice_in_loaded_list"),
    ("EG.props.C04", "C04_replace_list_current_at_load"),
    ("EG.props.C04", "C04_attempt_uses_current_list"),
    ("EG.props.C04", "C04_watch_last_report"),
    ("EG.props.C04", "C04_watch_generations_isolated"),
    ("EG.props.C04", "C04_watch_siblings_harmless"),
    ("EG.props.C04", "C04_checker_accepts_balanced"),
    ("EG.props.C04", "C04_checker_sound_segment"),
    ("EG.props.C04", "C04_checker_sound_history"),
    ("EG.props.C04", "C04_checker_sound_concurrent"),
    ("EG.props.C04", "C04_checker_sound_list"),
    ("EG.props.C04", "C04_chain_choice_depends_only_on_own_key"),
    ("EG.props.C04", "C04_checker_sound_chain"),
]
_FILES = ["harness/proxy/zz_verif_c04_test.go", "harness/proxy/zz_verif_c04_watch_test.go"]
HARNESSES = [
    dict(name="seq", pkg="pkg/filters/proxy", files=_FILES,
         run="TestVerifC04", groups=["lb", "pool"], timeout=600, share=1.0),
    dict(name="conc", pkg="pkg/filters/proxy", files=_FILES,
         run="TestVerifC04Conc", groups=["rrc", "swap"], timeout=900, share=0.04, race=True),
    dict(name="watch", pkg="pkg/filters/proxy", files=_FILES,
         run="TestVerifC04Watch", groups=["watch", "retry", "chain"], timeout=900, share=0.3),
]
GROUPS = {"lb": "(check_lb pinned)", "pool": "(check_pool pinned)", "rrc": "check_rrc", "swap": "check_swap",
          "watch": "(check_watch pinned)", "retry": "(check_retry pinned)", "chain": "(check_chain pinned)"}
EXPLAIN = {"lb": "(explain_lb pinned)", "pool": "(explain_pool pinned)", "rrc": "explain_rrc", "swap": "explain_swap",
           "watch": "(explain_watch pinned)", "retry": "(explain_retry pinned)", "chain": "(explain_chain pinned)"}
CASES = {"quick": 600, "thorough": 12000}
RULE = ("cases: lb = policy x weight vector (all zero / all positive / mixed / single / out of range) x request sequence "
        "(few distinct clients and header values, counter start incl. 2^32 and 2^63 boundaries); pool = Proxy built through "
        "filters.NewSpec, then useService(instance maps with tags/weights) interleaved with handle(); rrc = g goroutines x per "
        "selections on one roundRobin balancer; swap = selections concurrent with list replacement; "
        "watch = real watchServers driven through the ServiceRegistry controller by a registry double whose content changes between the "
        "initial listing, the watcher's priming listing and later events; retry = a retried request whose list is replaced while an "
        "attempt is in flight; chain = ONE request object through 2-3 balancers with different hash keys (LoadBalancer level, Proxy filters "
        "in sequence, mirror pool next to main pool), requests sharing a header value but differing in client address and vice versa. "
        "non-trivial = at least one selection; class = policy(1..5) + flags (empty list 8, one server 16 / discovery used 8, "
        "503 seen 16, panic seen 32, mixed weights or fallback to static 64, counter near 2^63 128); "
        "distinct = distinct (group, input) hashes among non-trivial cases")
TRUSTED_BASE = [
    "model coq/model/LB.v is hand-written; tied to pkg/filters/proxy (loadbalance.go, pool.go) by the per-run correspondence (sampled)",
    "oracles supplied by the harness from the real code: req.RealIP() (realip), the value rand.Intn returns (twin source, "
    "global source re-seeded before every selection), the order in which useService's map iteration lists the instances",
    "atomic.AddUint64 / atomic.Value are atomic (Go runtime); validated by the concurrent harness groups, -race in the thorough tier",
]
ASSUMPTIONS = [
    "fewer than 2^63 selections on one round-robin balancer (int(counter) stays non-negative)",
    "rand.Intn(n) returns a value in [0, n)",
    "weights are non-negative for the zero-weight clause (schema minimum=0)",
    "the registry driver is an in-memory double behind the real ServiceRegistry controller; the transport is stubbed (fnSendRequest)",
]

MANIFEST = dict(
    design_ref="DESIGN.md section 6 C04",
    level_text=("Theorems over the executable model of NewLoadBalancer/ChooseServer and the pool's list selection for ALL list sizes, "
                "counter values, draws, keys and schedules: round-robin counts are floor/ceil(k/n) with exactly k mod n larger for "
                "any k contiguous tickets in any order, hash stickiness, choice always inside the current list, no-server iff empty, "
                "weightedRandom never zero weight, pool list = tagged instances else static, no panic for any list (ideal) with a "
                "refutation witness for the pinned weightedRandom zero-total panic; model tied to pkg/filters/proxy on every run by "
                "differential correspondence (bit-exact FNV-1, seeded draws) and an independent decidable checker on the "
                "implementation's own choices, incl. concurrent selectors and list replacement."),
    level_note=("Trusted: Coq kernel + vm_compute; hand-written model validated on sampled cases only; atomicity of "
                "atomic.AddUint64/atomic.Value assumed; realip, math/rand and map order are oracles; 2^63 selection bound."),
    technique="Coq proof (arithmetic of contiguous tickets, permutation invariance, invariants over event traces) + model/implementation correspondence by vm_compute",
)


def coq_header(kf_open):
    flags = {k.get("flag") for k in kf_open}
    return ("From EG.lib Require Import Base.\nFrom EG.model Require Import LB LBCheck.\nOpen Scope Z_scope.\n"
            "Definition pinned : quirks := {| q_wr_zero_total_panics := %s |}.\n" % B("q_wr_zero_total_panics" in flags))


def static_url(i):
    return "http://st%d.test" % i


def inst_url(x):
    """URL of a discovery instance: dict {id, port?, scheme?, addr?} or a bare id."""
    if isinstance(x, int):
        x = {"id": x}
    return "%s://%s:%d" % (x.get("scheme") or "http", x.get("addr") or ("in%d.test" % x["id"]), x.get("port") or 8080)


def static_urls(i):
    """configured URLs of the static servers of a pool input"""
    urls = i.get("urls") or []
    return [(urls[k] if k < len(urls) and urls[k] else static_url(k)) for k in range(len(i.get("static") or []))]


def _srvlist(xs):
    return L([T(S(x["url"]), Z(x["w"])) for x in xs or []])


def encode(c):
    i, o = c["in"], c["obs"]
    g = c["grp"]
    if g == "lb":
        reqs = []
        for rq, pk in zip(i.get("reqs") or [], o.get("picks") or []):
            reqs.append(Rec(r_hname=S(rq["hname"]), r_hval=S(rq["hval"]), r_key=S(pk["key"]), r_draw=Z(pk["draw"]), r_idx=Z(pk["idx"])))
        if len(o.get("picks") or []) != len(i.get("reqs") or []):
            reqs.append(Rec(r_hname=S(""), r_hval=S(""), r_key=S(""), r_draw=Z(0), r_idx=Z(-7)))
        return Rec(l_policy=S(i["policy"]), l_hkey=S(i["hkey"]), l_ws=L([Z(w) for w in i.get("ws") or []]),
                   l_c0=Z(i["c0"]), l_valid=B(o["valid"]), l_reqs=L(reqs))
    if g == "pool":
        ops = []
        outs = o.get("outs") or []
        inops = [op for op in (i.get("ops") or []) if op.get("use") is not None or op.get("req") is not None]
        if o["valid"]:
            for op, out in zip(inops, outs):
                if op.get("use") is not None:
                    insts = L([Rec(i_url=S(inst_url(x)), i_tags=L([S(t) for t in x.get("tags") or []]), i_w=Z(x["w"]))
                               for x in op["use"]])
                    ops.append(C("OUse", insts, _srvlist(out.get("list"))))
                else:
                    rq = op["req"]
                    ops.append(C("OReq", S(rq["hname"]), S(rq["hval"]), S(out["key"]), Z(out["draw"]), Z(out["status"]),
                                 S(out["result"]), S(out["target"])))
            if len(outs) != len(inops):
                ops.append(C("OReq", S(""), S(""), S(""), Z(0), Z(-7), S("missing"), S("")))
        return Rec(p_policy=S(i["policy"]), p_hkey=S(i["hkey"]), p_tags=L([S(t) for t in i.get("tags") or []]),
                   p_static=L([T(S(u), Z(w)) for u, w in zip(static_urls(i), i.get("static") or [])]),
                   p_svc=B(i["svc"]), p_valid=B(o["valid"]), p_init=_srvlist(o.get("init")), p_ops=L(ops))
    if g == "rrc":
        return Rec(c_n=Z(i["n"]), c_g=Z(i["g"]), c_per=Z(i["per"]), c_c0=Z(i["c0"]),
                   c_counts=L([Z(x) for x in o.get("counts") or []]), c_nil=Z(o["nil"]), c_panics=Z(o["panics"]))
    if g == "swap":
        lists = i.get("lists") or []
        urls = []
        for j, ws in enumerate(lists):
            via = bool(i.get("viasvc")) and j > 0
            us = ["http://l%ds%d.test%s" % (j, k, ":8080" if via else "") for k in range(len(ws or []))]
            if via and not us:
                us = list(urls[0])  # useService with no qualifying instance falls back to the static list (list 0)
            urls.append(us)
        return Rec(w_expected=Z(i["g"] * i["per"]), w_total=Z(o["total"]), w_bad=Z(o["bad"]), w_panics=Z(o["panics"]),
                   w_lists=Z(len(lists)), w_urls=L([L([S(u) for u in us]) for us in urls]),
                   w_hist=L([T(Z(h["lo"]), Z(h["hi"]), S(h["url"]), Z(h["n"])) for h in o.get("hist") or []]))
    if g == "watch":
        reports = o.get("reports") or []
        tail = []
        picks = o.get("picks") or []
        if o["valid"]:
            if reports:
                tail.append(C("OUse", _insts(reports[-1]), _srvlist(o.get("final"))))
            for rq, out in zip(i.get("reqs") or [], picks):
                tail.append(C("OReq", S(rq["hname"]), S(rq["hval"]), S(out["key"]), Z(out["draw"]), Z(out["status"]),
                              S(out["result"]), S(out["target"])))
            if len(picks) != len(i.get("reqs") or []) or len(o.get("points") or []) != 2 + len(i.get("steps") or []) + (1 if i.get("late") else 0):
                tail.append(C("OReq", S(""), S(""), S(""), Z(0), Z(-7), S("missing"), S("")))
        return Rec(t_policy=S(i["policy"]), t_hkey=S(i["hkey"]), t_tags=L([S(t) for t in i.get("tags") or []]),
                   t_static=L([T(S(static_url(k)), Z(w)) for k, w in enumerate(i.get("static") or [])]),
                   t_valid=B(o["valid"]), t_reports=L([_insts(r) for r in reports]),
                   t_points=L([T(Nat(pt["nrep"]), _srvlist(pt.get("list"))) for pt in o.get("points") or []]),
                   t_tail=L(tail))
    if g == "retry":
        failing = [inst_url(x) for x in i.get("fail") or []]
        if i.get("failstatic"):
            failing += [static_url(k) for k in range(len(i.get("static") or []))]
        rq = i["req"]
        return Rec(y_policy=S(i["policy"]), y_hkey=S(i["hkey"]), y_tags=L([S(t) for t in i.get("tags") or []]),
                   y_static=L([T(S(static_url(k)), Z(w)) for k, w in enumerate(i.get("static") or [])]),
                   y_valid=B(o["valid"]), y_old=_insts(i.get("old")), y_new=_insts(i.get("new")),
                   y_oldlist=_srvlist(o.get("oldlist")), y_newlist=_srvlist(o.get("newlist")),
                   y_at=Z(i["at"]), y_max=Nat(i["max"]), y_failing=L([S(u) for u in failing]),
                   y_hname=S(rq["hname"]), y_hval=S(rq["hval"]), y_key=S(o.get("key", "")),
                   y_sends=L([S(u) for u in o.get("sends") or []]), y_status=Z(o["status"]), y_res=S(o["result"]))
    if g == "chain":
        stages = i.get("stages") or []
        reqs = []
        for rq, ks, xs in zip(i.get("reqs") or [], o.get("keys") or [], o.get("idxs") or []):
            reqs.append(T(S(rq["a"]), S(rq["b"]), L([T(S(k), Z(x)) for k, x in zip(ks, xs)])))
        if o["valid"] and len(reqs) != len(i.get("reqs") or []):
            reqs.append(T(S(""), S(""), L([])))
        return Rec(h_valid=B(o["valid"]), h_stages=L([T(S(st["policy"]), S(st["hkey"]), Z(st["n"])) for st in stages]),
                   h_reqs=L(reqs))
    raise ValueError(g)


def _insts(xs):
    return L([Rec(i_url=S(inst_url(x)), i_tags=L([S(t) for t in x.get("tags") or []]), i_w=Z(x["w"])) for x in xs or []])


def distribution(cases):
    d = dict(groups={}, policies={}, list_sizes={}, selections=0, panics=0, no_server=0, use_ops=0, invalid_specs=0)
    for c in cases:
        g = c["grp"]
        d["groups"][g] = d["groups"].get(g, 0) + 1
        i, o = c["in"], c["obs"]
        if "policy" in i:
            d["policies"][i["policy"]] = d["policies"].get(i["policy"], 0) + 1
        if g == "lb":
            n = len(i.get("ws") or [])
            d["list_sizes"][str(n)] = d["list_sizes"].get(str(n), 0) + 1
            for pk in o.get("picks") or []:
                d["selections"] += 1
                d["panics"] += pk["idx"] == -2
                d["no_server"] += pk["idx"] == -1
        elif g == "pool":
            d["invalid_specs"] += not o["valid"]
            for out in o.get("outs") or []:
                if out.get("use"):
                    d["use_ops"] += 1
                else:
                    d["selections"] += 1
                    d["panics"] += out["status"] == -2
                    d["no_server"] += out["status"] == 503
        elif g == "rrc":
            d["selections"] += i["g"] * i["per"]
        elif g == "swap":
            d["selections"] += o["total"]
        elif g == "watch":
            d["reports"] = d.get("reports", 0) + len(o.get("reports") or [])
            d["watch_after1"] = d.get("watch_after1", 0) + (i.get("after1") is not None)
            d["watch_late_register"] = d.get("watch_late_register", 0) + bool(i.get("late"))
            d["watch_siblings"] = d.get("watch_siblings", 0) + sum(st.get("n", 0) for st in i.get("steps") or [] if st.get("kind") == "siblings")
            d["watch_regen"] = d.get("watch_regen", 0) + sum(1 for st in i.get("steps") or [] if st.get("kind") == "regen")
            d["watch_rereg"] = d.get("watch_rereg", 0) + sum(1 for st in i.get("steps") or [] if st.get("kind") == "rereg")
            d["selections"] += len(o.get("picks") or [])
        elif g == "chain":
            d["chain_levels"] = d.get("chain_levels", {})
            lv = i["level"] + ("/" + i["order"] if i["level"] == "mirror" else "")
            d["chain_levels"][lv] = d["chain_levels"].get(lv, 0) + 1
            d["selections"] += len(i.get("reqs") or []) * len(i.get("stages") or [])
        elif g == "retry":
            d["retry_sends"] = d.get("retry_sends", 0) + len(o.get("sends") or [])
            d["retry_replaced"] = d.get("retry_replaced", 0) + bool(o.get("replaced"))
    return d


def signature(case, result):
    i = case["in"]
    return "%s/%s" % (case["grp"], i.get("policy", ""))


def shrink_candidates(inp, grp):
    if grp == "watch":
        for k in ("steps", "reqs"):
            xs = inp.get(k) or []
            for j in range(len(xs)):
                cand = dict(inp)
                cand[k] = xs[:j] + xs[j + 1:]
                if k == "steps" or cand[k]:
                    yield cand
        for k in ("after2", "after1"):
            if inp.get(k) is not None:
                cand = dict(inp)
                cand.pop(k)
                yield cand
        return
    if grp == "chain":
        xs = inp.get("reqs") or []
        n = len(xs)
        k = n // 2
        while k >= 1:
            for st in range(0, n, k):
                cand = dict(inp)
                cand["reqs"] = xs[:st] + xs[st + k:]
                if len(cand["reqs"]) >= 2:
                    yield cand
            k //= 2
        return
    if grp == "retry":
        if inp.get("max", 1) > 2:
            cand = dict(inp)
            cand["max"] = inp["max"] - 1
            yield cand
        return
    key = {"lb": "reqs", "pool": "ops"}.get(grp)
    if not key:
        return
    ops = inp.get(key) or []
    n = len(ops)
    k = n // 2
    while k >= 1:
        for s in range(0, n, k):
            cand = dict(inp)
            cand[key] = ops[:s] + ops[s + k:]
            if cand[key] != ops and cand[key]:
                yield cand
        k //= 2
    ws_key = "ws" if grp == "lb" else "static"
    ws = inp.get(ws_key) or []
    for j in range(len(ws)):
        cand = dict(inp)
        cand[ws_key] = ws[:j] + ws[j + 1:]
        yield cand


def extra_evidence(tier, cases, results):
    conc = [c for c in cases if c["grp"] in ("rrc", "swap")]
    big = [c for c in conc if c["grp"] == "rrc" and c["in"]["g"] * c["in"]["per"] >= 1000000]
    return dict(concurrent_cases=len(conc), rr_16x1e5_runs=len(big),
                concurrent_selections=sum((c["in"]["g"] * c["in"]["per"]) for c in conc))
