"""C03 proxy fidelity and framing: plugin for ./check (see lib/vf/driver.py for the protocol)."""
import base64
import os
import re

from vf.coqterm import Z, N, B, S, L, T, C, Rec, Nat, Opt

ID = "C03"
COQ_TARGETS = ["props/C03.vo", "model/ProxyCheck.vo", "lib/Pack.vo"]
CHECK_TARGETS = ["model/ProxyCheck.vo", "lib/Pack.vo"]  # still evaluated when the proofs no longer build
THEOREMS = [
    ("EG.props.C03", "C03_hop_by_hop_stripped"),
    ("EG.props.C03", "hop_table_complete"),
    ("EG.props.C03", "C03_host_rule"),
    ("EG.props.C03", "C03_request_faithful"),
    ("EG.props.C03", "C03_request_content"),
    ("EG.props.C03", "C03_response_content"),
    ("EG.props.C03", "C03_well_framed"),
    ("EG.props.C03", "C03_history_faithful"),
    ("EG.props.C03", "C03_cache_hit_immutable"),
    ("EG.props.C03", "C03_refuted_compress_len"),
    ("EG.props.C03", "C03_refuted_adaptor_body_len"),
    ("EG.props.C03", "C03_refuted_decoded_path"),
    ("EG.props.C03", "C03_refuted_stream_compress_panics"),
    ("EG.props.C03", "C03_refuted_compress_replaces_label"),
    ("EG.props.C03", "C03_compress_appends_label"),
]
_NET = "harness/httpserver/zz_verif_c07_net_test.go"
HARNESSES = [
    dict(name="e2e", pkg="pkg/object/httpserver", files=[_NET, "harness/httpserver/zz_verif_c03_e2e_test.go"],
         run="TestVerifC03E2E", groups=["e2e", "hist"], timeout=900, share=0.4),
    dict(name="unit", pkg="pkg/filters/proxy", files=["harness/proxy/zz_verif_c03_unit_test.go"],
         run="TestVerifC03Unit", groups=["hop", "addr"], timeout=600, share=0.6),
]
GROUPS = {"e2e": "(check_e2e_with pinned)", "hist": "(check_hist_with pinned)", "hop": "check_hop", "addr": "check_addr"}
EXPLAIN = {"e2e": "(explain_e2e_with pinned)", "hist": "(explain_hist_with pinned)", "hop": "explain_hop", "addr": "explain_addr"}
CASES = {"quick": 1200, "thorough": 12000}
RULE = ("e2e cases: methods (incl. extension methods) x request-targets with percent-escapes (%2F %3F %25 %23 %20, UTF-8, '.', '..', ';', empty "
        "segments) and raw queries x client header sets (repeated headers, mixed-case names, near-miss names, all nine hop-by-hop names, Connection "
        "lists with lower-case / absent / end-to-end-named tokens, Accept-Encoding variants) x bodies 0..3000 bytes (thorough: up to 100 KB) sent with "
        "Content-Length / chunked / gzip-labelled x buffered or stream mode in each direction x IP or host-name server x keepHost x compression "
        "minLength {none,0,1,20,100,1000} with bodies at minLength-1/minLength/minLength+1 x Request/ResponseAdaptor body/compress/decompress x backend "
        "status x backend headers x response framing (Content-Length, chunked, close-delimited) x pool failureCodes (often naming the backend's status; with and without a 2-attempt retry policy) x gzip-labelled responses, gzip bodies of two / three "
        "members (one empty; a member followed by garbage) and other Content-Encoding shapes (GZIP, x-gzip, `deflate, gzip` as one value or two lines, `gzip, gzip`, identity, "
        "deflate, br, `br, gzip`, `gzip, br`) x response limits at pool / proxy level ((-1,L) (L,-1) (0,L) (L,0) (-1,0) (0,-1) (L,2L) (2L,L) (-1,-1), bodies at L-1/L/L+1/3L) (negative values -1, -2, -1024, MinInt64+1 at client, pool and proxy level: any negative streams) x a mirrorPool on a second backend matching X-Mirror "
        "(1 case in 6) x uploads the client "
        "cuts off (announced length not reached, chunked without last-chunk; buffered and stream mode) x a RequestAdaptor path rule that changes nothing (1 in 6; the backend's request-target must be the client's escaped path and raw query) x a server discovered "
        "through a service registry (mock supervisor with a ServiceRegistry system controller; 1 in 6) x load-balance policy (none, roundRobin, random, weightedRandom with/without weights, ipHash, headerHash; one or two "
        "identical servers) for the Host rule; one case in 20 follows a label schedule (every Content-Encoding shape x ResponseAdaptor decompress buffered/stream, "
        "proxy compression, ResponseAdaptor compress, untouched); one case in 20 follows a boundary schedule: every body-transforming path (proxy compression, transparent gunzip, "
        "Request/ResponseAdaptor compress and decompress, pass-through; buffered and stream) with a (decoded) body of exactly k x the gzip reader's round "
        "(8 pages), k x {2048, 4096, 8 pages, 16 pages} and one byte off; the gzip oracle is compress/gzip in one shot, not easegress' own reader; overlap histories (1 in 60; every fourth in stream mode): after a warm-up compressed response two compressed responses are in flight together "
        "(A's backend parks mid-body - in stream mode after the client has seen A's head -, B runs completely, A finishes), each judged as a single exchange; hist cases (1 in 10): 3..8 requests against ONE pipeline whose pool has a memoryCache (codes / methods / maxEntryBytes), the same "
        "cacheable request repeated (miss, hits) interleaved with other resources, other methods, Cache-Control no-cache / no-store requests and answers, a distinct backend "
        "answer per step, ResponseAdaptor header del/set/add, body, compress, decompress after the Proxy; hop cases: cloneHeader on "
        "random header maps; addr cases: Server.checkAddrPattern on URL shapes (IPv4/IPv6 literals, ports, brackets, names); non-trivial = the "
        "request-target parses; classes add: hop-by-hop header present(+1) escaped target(+2) compression configured(+4) adaptor(+8) stream mode(+16) "
        "host-name server(+32) encoded backend response(+64); distinct = distinct (group, input) hashes among non-trivial cases")
TRUSTED_BASE = [
    "model coq/model/Proxy.v is hand-written; tied to cloneHeader / prepareRequest / compression.compress / buildResponse / Request- and ResponseAdaptor / mux write-out by the per-run correspondence over real loopback sockets (sampled)",
    "gen/GenHop.v: the hopHeaders literal is re-extracted from pkg/filters/proxy/pool.go on every run by plugins/C03.py (string literals of the composite literal, comments stripped)",
    "net/http (server request parsing, transport request writing incl. User-Agent / Accept-Encoding additions and transparent gunzip, response framing rules), compress/gzip, net/url, net.ParseIP, textproto canonicalisation: observed / supplied as per-case oracle tables by the harness, modelled, not verified",
    "the raw socket client and raw backend of the harness (own HTTP/1.1 head and body-framing parser)",
    "case files carry byte strings packed 7 bytes per primitive 63-bit integer (coq/lib/Pack.v) and unpacked by vm_compute: the kernel's primitive integer operations take part in evaluating cases; no registered theorem depends on them",
]
ASSUMPTIONS = [
    "gunzip (gzip b) = Some b (Section hypothesis of C03_response_content / C03_request_faithful)",
    "URL round trip: parsing the request-target built from the escaped path and the raw query yields the same decoded path and raw query (hypothesis of C03_request_faithful; computed per case by net/url in the correspondence)",
    "the content theorems assume a Content-Encoding that is absent or exactly 'gzip'; other labels (several codings, other spellings, unknown codings) are covered by the run's checker only: after undoing the known codings (gzip, x-gzip, deflate, identity) of the delivered label the same data and the same remaining codings must be left as for the backend's message",
    "HEAD requests, 1xx/204/304 responses, Expect: 100-continue, request trailers and repeated User-Agent lines are outside the generators (net/http treats them specially)",
]

MANIFEST = dict(
    design_ref="DESIGN.md section 6 C03",
    level_text=("Theorems over the executable message-level model of the proxy path for ALL header maps, bodies and configurations: cloneHeader removes exactly the "
                "hop-by-hop set (table re-extracted from the source, shown to contain the nine names of the statement), Host rule, request fidelity under the URL "
                "round-trip hypothesis, response status/header/content fidelity under gunzip(gzip b)=b, and well-framedness (Content-Length header absent or equal "
                "to the bytes written) for every combination of backend framing, compression, adaptors and stream mode; one refutation witness per known defect; "
                "model tied to the real mux + Pipeline + Proxy + adaptors over loopback sockets on every run, plus an independent decidable checker on the "
                "implementation's own observables (proved sound for the ideal model)."),
    level_note=("Trusted: Coq kernel + vm_compute; hand-written model validated on sampled cases only; net/http, gzip, net/url behaviour supplied as oracles / observed; "
                "five defects found in the pinned code (quirk flags, refutation theorems, corpus witnesses) were repaired by fix: commits; their entries are `fixed` and suppress nothing."),
    technique="Coq proof (stage invariants over the response pipeline, induction over header maps) + model/implementation correspondence by vm_compute over real loopback traffic",
)

FLAG_FIELDS = ["q_compress_keeps_length", "q_adaptor_body_keeps_length", "q_proxy_decoded_path", "q_stream_compress_panics",
               "q_compress_replaces_label"]


def _pregen_body(repo, coqdir):
    """model/Proxy.v builds on model/Body.v, whose constant comes from gen/GenBody.v (plugins/C07.py)."""
    import importlib.util
    path = os.path.join(os.path.dirname(os.path.abspath(__file__)), "C07.py")
    spec = importlib.util.spec_from_file_location("plugin_C07_for_C03", path)
    m = importlib.util.module_from_spec(spec)
    spec.loader.exec_module(m)
    m.pregen(repo, coqdir)


def pregen(repo, coqdir):
    """Re-extract the hopHeaders table from the Go source into coq/gen/GenHop.v."""
    _pregen_body(repo, coqdir)
    src = open(os.path.join(repo, "pkg/filters/proxy/pool.go")).read()
    m = re.search(r"var\s+hopHeaders\s*=\s*\[\]string\s*\{(.*?)\n\}", src, flags=re.S)
    body = ("(** GENERATED by plugins/C03.py from pkg/filters/proxy/pool.go (var hopHeaders) on every run - do not edit. *)\n"
            "From Coq Require Import String List.\nImport ListNotations.\nOpen Scope string_scope.\n")
    if m:
        lit = re.sub(r"//[^\n]*", "", m.group(1))
        names = re.findall(r'"((?:[^"\\]|\\.)*)"', lit)
        assert all(re.fullmatch(r"[A-Za-z0-9-]*", n) for n in names), names
        body += "Definition hop_headers : list string :=\n  [%s].\n" % "; ".join('"%s"' % n for n in names)
    else:
        body += "(* var hopHeaders: literal not found in the source *)\n"
    os.makedirs(os.path.join(coqdir, "gen"), exist_ok=True)
    p = os.path.join(coqdir, "gen", "GenHop.v")
    if not os.path.exists(p) or open(p).read() != body:
        with open(p, "w") as f:
            f.write(body)


def coq_header(kf_open):
    on = {k.get("flag") for k in kf_open}
    fields = "; ".join("%s := %s" % (f, "true" if f in on else "false") for f in FLAG_FIELDS)
    return ("From Coq Require Import Uint63.\nFrom EG.lib Require Import Base Pack.\nFrom EG.model Require Import Body Proxy ProxyCheck.\n"
            "Open Scope Z_scope.\nDefinition pinned : quirks := {| %s |}.\n" % fields)


def _b(x):
    return base64.b64decode(x) if x else b""


class _Pool:
    """Per-case pool of byte strings: every distinct long string is bound once by a `let`
    (packed 7 bytes per primitive int, see coq/lib/Pack.v) and referred to by name."""

    def __init__(self):
        self.names = {}
        self.defs = []

    def s(self, x):
        bs = x if isinstance(x, bytes) else x.encode("utf-8")
        if len(bs) <= 24 and all(32 <= c < 127 and c != 34 for c in bs):
            return S(bs)
        if bs not in self.names:
            name = "b%d_" % len(self.names)
            self.names[bs] = name
            words = [str(int.from_bytes(bs[k:k + 7], "big")) for k in range(0, len(bs), 7)]
            last = len(bs) % 7 or 7
            self.defs.append("let %s := unpack [%s]%%uint63 %d%%nat in" % (name, ";".join(words), last))
        return self.names[bs]

    def wrap(self, term):
        return "(" + " ".join(self.defs) + " " + term + ")" if self.defs else term


def _pairs(xs, S=S):
    return L([T(S(a), S(b)) for a, b in (xs or [])])


def _hmap(xs, S=S):
    """list of (canonical name, value) -> association list name -> [values] (first-seen key order)"""
    order, d = [], {}
    for k, v in (xs or []):
        if k not in d:
            d[k] = []
            order.append(k)
        d[k].append(v)
    return L([T(S(k), L([S(v) for v in d[k]])) for k in order])


def _adapt(a, S=S):
    return Rec(a_on=B(a["on"]), a_body=S(a["body"]), a_compress=B(a["compress"]), a_decompress=B(a["decompress"]))


def _target(t, S=S):
    return Opt(T(S(t["path"]), S(t["query"]))) if t["ok"] else "None"


def _peeled(p, S=S):
    if not p["ok"]:
        return "None"
    return Opt(T(L([S(t) for t in (p.get("rest") or [])]), S(_b(p.get("data")))))


def _enc(kind, n):
    if kind == "cl":
        return C("EncCL", Z(n))
    if kind == "chunked":
        return C("EncChunked", "true")
    return "EncClose"


def _cl(hs, kind, declared):
    return Opt(Z(declared)) if kind == "cl" and declared >= 0 else "None"


def _encode_e2e(c, pool=None):
    i, o = c["in"], c["obs"]
    own = pool is None
    if own:
        pool = _Pool()
    S = pool.s
    orc = i["o"]
    server_host = i["srvHost"] + ":PORT"
    pool_max = i.get("poolMax") or 0
    proxy_max = i.get("proxyMax") or (-1 if (i["sstream"] and not pool_max) else 0)
    cfg = Rec(p_cstream=B(i["cstream"]), p_pool_max=Z(pool_max), p_proxy_max=Z(proxy_max), p_server_host=S(server_host),
              p_host_is_name=B(orc["hostIsName"]), p_keep_host=B(i["keepHost"]),
              p_fail_codes=L([Z(x) for x in (i.get("failCodes") or [])]),
              p_minlen=Opt(Z(i["minLen"])) if i["minLen"] >= 0 else "None",
              p_ra=_adapt(i["ra"], S), p_rs=_adapt(i["rs"], S))
    parse = []
    for t, p in ((orc["outDec"], orc["outDecP"]), (orc["outEsc"], orc["outEscP"])):
        if p["ok"]:
            parse.append(T(S(t), T(S(p["path"]), S(p["query"]))))
    if o["btarget"] and o["bparsed"]["ok"]:
        parse.append(T(S(o["btarget"]), T(S(o["bparsed"]["path"]), S(o["bparsed"]["query"]))))
    obs = Rec(
        x_got=B(o["got"]), x_status=Z(o["status"]), x_headers=_hmap(o["headers"], S),
        x_cl=_cl(o["headers"], o["kind"], o["declared"]), x_body=S(_b(o["body"])), x_frame=B(o["frameOK"]),
        x_rest=L([S(t) for t in (o.get("rest") or [])]),
        x_dec=Opt(S(_b(o["dec"]))) if o["decOK"] else "None",
        x_bcount=Z(o["bcount"]), x_bmethod=S(o["bmethod"]), x_btarget=S(o["btarget"]), x_bparsed=_target(o["bparsed"], S),
        x_bhost=S(o["bhost"]), x_bheaders=_hmap(o["bheaders"], S), x_bbody=S(_b(o["bbody"])), x_bbody2=S(_b(o.get("bbody2"))),
        x_brest=L([S(t) for t in (o.get("brest") or [])]),
        x_bdec=Opt(S(_b(o["bdec"]))) if o["bdecOK"] else "None")
    wrap = pool.wrap if own else (lambda t: t)
    return wrap(Rec(
        e_cfg=cfg, e_method=S(i["method"]), e_target=S(i["target"]), e_host=S(i["host"]),
        e_hdrs=_pairs(i["headers"], S), e_body=S(_b(i["reqBody"])), e_cut=B(i.get("cut") and i["reqEnc"] != "none"),
        e_retry=B(i.get("retry")),
        e_resp_status=Z(i["respStatus"]), e_resp_hdrs=_pairs(i["respHeaders"], S),
        e_resp_enc=_enc(i["respEnc"], len(_b(i["respBody"]))), e_resp_body=S(_b(i["respBody"])),
        e_gzip=L([T(S(_b(a)), S(_b(b))) for a, b in (orc["gzip"] or [])]),
        e_gunzip=L([T(S(_b(g["in"])), Opt(S(_b(g["out"]))) if g["ok"] else "None") for g in (orc["gunzip"] or [])]),
        e_inflate=L([T(S(_b(g["in"])), Opt(S(_b(g["out"])))) for g in (orc.get("inflate") or [])]),
        e_req_peel=_peeled(orc["reqPeel"], S), e_resp_peel=_peeled(orc["respPeel"], S),
        e_client=_target(orc["client"], S), e_esc=S(orc["pathEsc"]),
        e_out_dec=Opt(S(orc["outDec"])) if orc["outDecOK"] else "None",
        e_out_esc=Opt(S(orc["outEsc"])) if orc["outEscOK"] else "None",
        e_parse=L(parse), e_canon=_pairs(orc["canon"], S),
        e_bad=B(bool(o.get("panic"))), e_obs=obs))


def encode(c):
    i, o = c["in"], c["obs"]
    if c["grp"] == "e2e":
        return _encode_e2e(c)
    if c["grp"] == "hist":
        steps_in = i.get("steps") or []
        steps_obs = o.get("steps") or []
        bad = bool(o.get("panic")) or len(steps_in) != len(steps_obs)
        pool = _Pool()
        steps = [_encode_e2e({"in": a, "obs": b}, pool) for a, b in zip(steps_in, steps_obs)]
        mc, ed = i["cache"], i["edit"]
        return pool.wrap(Rec(hi_spec=Rec(mc_on=B(mc["on"]), mc_codes=L([Z(x) for x in mc["codes"] or []]),
                               mc_methods=L([S(x) for x in mc["methods"] or []]), mc_max=Z(mc["max"])),
                   hi_edit=Rec(he_del=L([S(x) for x in ed.get("del") or []]), he_set=_pairs(ed.get("set")),
                               he_add=_pairs(ed.get("add"))),
                   hi_steps=L(steps), hi_bad=B(bad)))
    if c["grp"] == "hop":
        return Rec(hc_in=_hmap_lists(i["header"]), hc_out=_hmap_lists(o["out"]), hc_canon=_pairs(i["canon"]))
    if c["grp"] == "addr":
        return Rec(ac_uhost=Opt(S(i["uhost"])) if i["parseOK"] else "None",
                   ac_ips=L([T(S(k), B(v)) for k, v in (i["ips"] or [])]),
                   ac_hostname_ip=Opt(B(i["hostnameIP"])) if i["parseOK"] else "None",
                   ac_obs=B(o["isHostName"]))
    raise ValueError(c["grp"])


def _hmap_lists(xs):
    return L([T(S(k), L([S(v) for v in (vs or [])])) for k, vs in (xs or [])])


def distribution(cases):
    d = dict(groups={}, methods={}, client_status={}, resp_enc={}, req_enc={}, stream={}, adaptors=0, compression=0,
             hostname_server=0, keep_host=0)
    for c in cases:
        i, o = c["in"], c["obs"]
        d["groups"][c["grp"]] = d["groups"].get(c["grp"], 0) + 1
        if c["grp"] == "hist":
            d.setdefault("hist_steps", 0)
            d.setdefault("hist_hits", 0)
            d["hist_steps"] += len(i.get("steps") or [])
            d["hist_hits"] += sum(1 for x in (o.get("steps") or []) if x.get("got") and x.get("bcount") == 0)
        if c["grp"] != "e2e":
            continue
        for k, v in (("methods", i["method"]), ("client_status", str(o["status"])), ("resp_enc", i["respEnc"]), ("req_enc", i["reqEnc"]),
                     ("stream", "c%d s%d" % (i["cstream"], i["sstream"]))):
            d[k][v] = d[k].get(v, 0) + 1
        d["adaptors"] += bool(i["ra"]["on"] or i["rs"]["on"])
        d["compression"] += i["minLen"] >= 0
        d["hostname_server"] += i["srvHost"] == "localhost"
        d["keep_host"] += bool(i["keepHost"])
    return d


def signature(c, r):
    if c["grp"] == "hist":
        return "hist/" + ",".join("%s:%s:%s" % (x.get("status"), x.get("bcount"), x.get("frameOK")) for x in (c["obs"].get("steps") or []))[:80]
    if c["grp"] != "e2e":
        return c["grp"]
    i, o = c["in"], c["obs"]
    return "e2e/%s/%s/%s/%s" % (o.get("status"), o.get("frameOK"), o.get("bcount"), o.get("got"))


def shrink_candidates(inp, grp):
    if os.environ.get("VERIF_NO_SHRINK"):
        return
    if grp == "hist":
        steps = inp.get("steps") or []
        for k in range(len(steps)):
            if len(steps) > 1:
                cand = dict(inp)
                cand["steps"] = steps[:k] + steps[k + 1:]
                yield cand
        for key in ("del", "set", "add"):
            if inp["edit"].get(key):
                cand = dict(inp)
                cand["edit"] = dict(inp["edit"])
                cand["edit"][key] = []
                yield cand
        return
    if grp != "e2e":
        return
    hs = inp.get("headers") or []
    for k in range(len(hs)):
        cand = dict(inp)
        cand["headers"] = hs[:k] + hs[k + 1:]
        yield cand
    rh = inp.get("respHeaders") or []
    for k in range(len(rh)):
        cand = dict(inp)
        cand["respHeaders"] = rh[:k] + rh[k + 1:]
        yield cand
    for key, val in (("cstream", False), ("sstream", False), ("keepHost", False), ("minLen", -1), ("srvHost", "127.0.0.1"),
                     ("reqEnc", "none"), ("target", "/a")):
        if inp.get(key) != val:
            cand = dict(inp)
            cand[key] = val
            if key == "reqEnc":
                cand["reqBody"] = ""
            yield cand
    for key in ("ra", "rs"):
        if inp[key]["on"]:
            cand = dict(inp)
            cand[key] = dict(on=False, body="", compress=False, decompress=False)
            yield cand
