"""C17 connection caps: plugin for ./check (see lib/vf/driver.py for the protocol)."""
from vf.coqterm import Z, N, B, S, L, T, C, Rec, Nat

ID = "C17"
COQ_TARGETS = ["props/C17.vo", "model/SemCheck.vo"]
THEOREMS = [
    ("EG.props.C17", "sem_accounting"),
    ("EG.props.C17", "C17_http_cap"),
    ("EG.props.C17", "C17_cap_follows_latest_spec"),
    ("EG.props.C17", "C17_undrained_restart_exceeds_cap"),
    ("EG.props.C17", "C17_released_capacity_reusable"),
    ("EG.props.C17", "C17_close_releases_once"),
    ("EG.props.C17", "C17_mqtt_cap"),
    ("EG.props.C17", "C17_mqtt_released_capacity"),
    ("EG.props.C17", "C17_mqtt_served_cap"),
    ("EG.props.C17", "C17_unguarded_delete_exceeds_cap"),
    ("EG.props.C17", "C17_ideal_never_panics"),
    ("EG.props.C17", "C17_resize_reordering"),
    ("EG.props.C17", "C17_refuted_q_newsem_unclamped"),
    ("EG.props.C17", "C17_refuted_q_grow_release_unchecked"),
    ("EG.props.C17", "C17_refuted_q_mqtt_connack_fail_leaks"),
]
_HOOK = {"pkg/util/sem/zz_verif_c17_hook.go": "harness/sem/zz_verif_c17_hook.go"}
_HOOK2 = dict(_HOOK, **{"pkg/util/limitlistener/zz_verif_c17_hook.go": "harness/limitlistener/zz_verif_c17_hook.go"})
HARNESSES = [
    dict(name="sem", pkg="pkg/util/sem", files=["harness/sem/zz_verif_c17_test.go"],
         run="TestVerifC17Sem", groups=["sem"], timeout=900, share=0.4, race=True, extra_overlay=_HOOK),
    dict(name="ll", pkg="pkg/util/limitlistener", files=["harness/limitlistener/zz_verif_c17_test.go"],
         run="TestVerifC17LL", groups=["ll", "storm"], timeout=900, share=0.4, race=True, extra_overlay=_HOOK),
    dict(name="hs", pkg="pkg/object/httpserver", files=["harness/httpserver/zz_verif_c17_test.go"],
         run="TestVerifC17Hs", groups=["hs"], timeout=900, share=0.05, race=True, extra_overlay=_HOOK2),
    dict(name="mq", pkg="pkg/object/mqttproxy", files=["harness/mqttproxy/zz_verif_c17_test.go"],
         run="TestVerifC17Mqtt", groups=["mq", "mqstorm"], timeout=900, share=0.2, race=True),
]
GROUPS = {"hs": "check_hs", "sem": "check_sem", "ll": "check_ll", "mq": "check_mq", "storm": "check_storm", "mqstorm": "check_mqstorm"}
EXPLAIN = {"hs": "explain_hs", "sem": "explain_sem", "ll": "explain_ll", "mq": "explain_mq"}
CASES = {"quick": 1500, "thorough": 8000}
RULE = ("cases: operation sequences on the real Semaphore / LimitListener (fake inner listener) / Broker (raw TCP clients, "
        "connections parked between the two cap checks); observables compared with the model after EVERY operation; "
        "non-trivial = at least one permit taken / connection accepted; classes add: waiter queued(+1) shrink queued or refusal(+2) "
        "capacity change or aborted connect(+4) capacity above maxCapacity or unlimited(+8) crash(+16); "
        "distinct = distinct (group, input) hashes among non-trivial cases")
TRUSTED_BASE = [
    "model coq/model/Sem.v is hand-written (x/sync semaphore modelled from its source); tied to pkg/util/sem, pkg/util/limitlistener, "
    "pkg/object/mqttproxy by the per-run correspondence (sampled), state read through the verif-only hook harness/sem/zz_verif_c17_hook.go",
    "step granularity: each label is one critical section (Weighted.mu, Semaphore.lock, Broker lock); the harness drives the steps "
    "sequentially; concurrent interleavings are covered by the theorems (all label sequences) and sampled by the storms (thorough, -race)",
    "the Go scheduler decides when a SetMaxCount goroutine reaches the semaphore: modelled as the free label LRun i, not controlled by the harness",
]
ASSUMPTIONS = [
    "acquirers use the API as LimitListener does (Release only by a permit holder, each connection closed through its wrapper)",
    "ideal = the three pinned defect sites repaired (NewSem clamps; a grow never releases more than the pre-acquired pool holds; "
    "a failed CONNACK write unregisters the client)",
    "MQTT: 'connected clients' = entries of Broker.clients; tear-down of one connection is one atomic step",
    "listener replacement: requests in flight finish within the 30 s grace closeServer gives http.Server.Shutdown "
    "(after that the unchanged runtime replaces the listener anyway and old + new connections share no cap)",
]

MANIFEST = dict(
    design_ref="DESIGN.md section 6 C17",
    level_text=("Theorems over a labelled transition system (x/sync weighted semaphore, Semaphore with pending SetMaxCount goroutines "
                "applied in any order, LimitListener accept/close, MQTT broker two-step connect with takeover) for ALL label sequences: "
                "accounting invariant, cap in every settled state, no growth while a shrink heads the queue, FIFO blocking of later "
                "acquirers, released capacity reusable, close releases once, |clients| <= cap incl. takeover at the cap; "
                "model tied to the real code after every operation of generated sequences, plus an independent decidable checker "
                "of the property on the implementation's own observables and concurrent storms with always-on counters."),
    level_note=("Trusted: Coq kernel + vm_compute; hand-written model validated only on sampled sequences; goroutine scheduling is a free "
                "label of the model, not controlled in the correspondence; 'applied' is read as: the SetMaxCount goroutine has completed."),
    technique="Coq proof (invariant induction over all traces of an LTS, lia) + model/implementation correspondence by vm_compute",
)

FLAGS = {1: "q_newsem_unclamped", 2: "q_grow_release_unchecked", 3: "q_mqtt_connack_fail_leaks"}


def coq_header(kf_open):
    on = {k.get("flag") for k in kf_open}
    pinned = "; ".join("%s := %s" % (f, "true" if f in on else "false") for f in FLAGS.values())
    return ("From EG.lib Require Import Base.\nFrom EG.model Require Import Sem SemCheck.\nOpen Scope Z_scope.\n"
            "Definition pinned : quirks := {| %s |}.\n"
            "Definition check_sem := check_sem_with pinned.\nDefinition check_ll := check_ll_with pinned.\n"
            "Definition check_mq := check_mq_with pinned.\nDefinition check_hs := check_hs_with pinned.\n"
            "Definition explain_hs := explain_hs_with pinned.\n"
            "Definition explain_sem := explain_sem_with pinned.\nDefinition explain_ll := explain_ll_with pinned.\n"
            "Definition explain_mq := explain_mq_with pinned.\n" % pinned)


def _zl(xs):
    return L([Z(x) for x in xs or []])


def encode(c):
    i, o = c["in"], c["obs"]
    g = c["grp"]
    if g == "sem":
        ops = []
        for op in i.get("ops") or []:
            if not op:
                continue
            ops.append({0: "SAcq", 1: "SRel"}.get(op[0]) or C("SSet", Z(op[1])))
        steps = [Rec(o_cur=Z(s["cur"]), o_real=Z(s["real"]), o_held=Z(s["held"]), o_done=Z(s["done"]),
                     o_panics=Z(s["panics"]), o_wq=_zl(s.get("wq")), o_skip=B(s.get("skip"))) for s in o.get("steps") or []]
        return Rec(sc_init=Z(i["init"]), sc_M=Z(i["M"]), sc_ops=L(ops), sc_obs=L(steps),
                   sc_desync=B(o.get("desync")), sc_crash=B(o.get("crash")))
    if g == "ll":
        ops = []
        for op in i.get("ops") or []:
            if not op:
                continue
            k = op[0]
            ops.append("OAccept" if k == 0 else "OOffer" if k == 1 else "OOfferErr" if k == 2 else "OOfferTmp" if k == 5
                       else C("OClose", N(op[1])) if k == 3 else C("ORead", N(op[1])) if k == 6 else C("OSetMax", Z(op[1])))
        steps = [Rec(l_cur=Z(s["cur"]), l_real=Z(s["real"]), l_wq=_zl(s.get("wq")), l_held=Z(s["held"]),
                     l_open=L([N(x) for x in s.get("open") or []]), l_blocked=Z(s["blocked"]), l_shr=Z(s["shr"]),
                     l_panics=Z(s["panics"]), l_dropped=Z(s["dropped"])) for s in o.get("steps") or []]
        return Rec(lc_init=Z(i["init"]), lc_M=Z(i["M"]), lc_ops=L(ops), lc_obs=L(steps), lc_desync=B(o.get("desync")))
    if g == "mq":
        ops = []
        steps_raw = o.get("steps") or []
        for j, op in enumerate(i.get("ops") or []):
            if op[0] == 0:
                ops.append(C("QStart", Z(op[1])))
            elif op[0] == 1:
                ops.append(C("QCommit", Z(op[1]), B(op[2] == 1)))
            elif op[0] == 3:
                ov = j < len(steps_raw) and bool(steps_raw[j].get("overlap"))
                ops.append(C("QDel", Z(op[1]), B(ov)))
            else:
                ops.append(C("QDisc", Z(op[1])))
        steps = [Rec(q_code=Z(s["code"]), q_clients=L([T(Z(a), Z(b)) for a, b in s.get("clients") or []]),
                     q_served=Z(s.get("served", 0)))
                 for s in steps_raw]
        return Rec(qc_cap=Z(i["cap"]), qc_ops=L(ops), qc_obs=L(steps), qc_desync=B(o.get("desync")),
                   qc_alive=Z(o.get("alive", -1)))
    if g == "hs":
        ops = []
        for op in i.get("ops") or []:
            if not op:
                continue
            k = op[0]
            ops.append("HDial" if k == 0 else C("HClose", N(op[1])) if k == 1 else C("HReload", Z(op[1])) if k == 2
                       else "HRestart" if k == 3 else "HFail" if k == 4 else "HRecover" if k == 5
                       else "HDialPark" if k == 6 else C("HUnpark", N(op[1])) if k == 7 else "HRestartIF")
        steps = [Rec(h_decoded=Z(s["decoded"]), h_served=L([N(x) for x in s.get("served") or []]), h_waiting=Z(s["waiting"]),
                     h_cur=Z(s["cur"]), h_real=Z(s["real"]), h_wq=_zl(s.get("wq")), h_shr=Z(s["shr"]), h_skip=B(s.get("skip")), h_running=B(s.get("running")),
                     h_old=Z(s.get("oldOpen", 0)), h_blocked=B(s.get("blocked")))
                 for s in o.get("steps") or []]
        return Rec(hc_init=Z(i["init"]), hc_busy=B(i.get("busyStart")), hc_idle_ok=B((i.get("kat") or "") in ("", "0s", "60s")), hc_M=Z(i["M"]), hc_ops=L(ops), hc_obs=L(steps), hc_desync=B(o.get("desync")),
                   hc_bad=B(bool(o.get("bad"))))
    if g == "storm":
        return Rec(st_caps=_zl(i["caps"]), st_max=_zl(o.get("max")), st_accepted=Z(o["accepted"]), st_closed=Z(o["closed"]),
                   st_panics=Z(o["panics"]), st_dropped=Z(o["dropped"]), st_desync=B(o.get("desync")),
                   st_final_used=Z(o["finalUsed"]))
    if g == "mqstorm":
        return Rec(ms_cap=Z(i["cap"]), ms_unique=B(i["unique"]), ms_max_clients=Z(o["maxClients"]), ms_max_live=Z(o["maxLive"]),
                   ms_accepted=Z(o["accepted"]), ms_refused=Z(o["refused"]), ms_other=Z(o["other"]), ms_final=Z(o["final"]),
                   ms_refill=Z(o["refill"]), ms_samples=Z(o["samples"]))
    raise ValueError(g)


def distribution(cases):
    d = dict(groups={}, ops_hist={}, op_kinds={}, steps=0, queued_steps=0, shrink_queued_steps=0, refusals=0, crashes=0)
    for c in cases:
        g = c["grp"]
        d["groups"][g] = d["groups"].get(g, 0) + 1
        ops = c["in"].get("ops") or []
        b = "%d-%d" % (len(ops) // 10 * 10, len(ops) // 10 * 10 + 9)
        d["ops_hist"][b] = d["ops_hist"].get(b, 0) + 1
        for op in ops:
            if op:
                k = "%s:%d" % (g, op[0])
                d["op_kinds"][k] = d["op_kinds"].get(k, 0) + 1
        for s in c["obs"].get("steps") or []:
            d["steps"] += 1
            wq = s.get("wq") or []
            d["queued_steps"] += bool(wq)
            d["shrink_queued_steps"] += any(w > 1 for w in wq) or bool(s.get("shr"))
            d["refusals"] += s.get("code") == 3
        d["crashes"] += bool(c["obs"].get("crash"))
    return d


def signature(case, result):
    return case.get("grp")


def shrink_candidates(inp, grp):
    if grp not in ("sem", "ll", "mq", "hs"):
        return
    ops = inp.get("ops") or []
    n = len(ops)
    k = n // 2
    while k >= 1:
        for s in range(0, n, k):
            cand = dict(inp)
            cand["ops"] = ops[:s] + ops[s + k:]
            if cand["ops"] != ops:
                yield cand
        k //= 2
