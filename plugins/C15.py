"""C15 MQTT delivery: plugin for ./check (see lib/vf/driver.py for the protocol)."""
from vf.coqterm import Z, N, B, S, L, T, C, Rec, Nat

ID = "C15"
COQ_TARGETS = ["props/C15.vo", "model/BrokerCheck.vo"]
THEOREMS = [
    ("EG.props.C15", "C15_delivery_order_independent"),
    ("EG.props.C15", "C15_delivery_same_set"),
    ("EG.props.C15", "C15_qos0_drop_only_if_full"),
    ("EG.props.C15", "C15_resend_until_ack"),
    ("EG.props.C15", "C15_becomes_oldest"),
    ("EG.props.C15", "C15_pending_until_ack"),
    ("EG.props.C15", "C15_no_resend_after_ack"),
    ("EG.props.C15", "C15_ids_unique_while_pending"),
    ("EG.props.C15", "C15_puback_same_id"),
    ("EG.props.C15", "C15_refuted_lowqos_return"),
    ("EG.props.C15", "C15_refuted_overlap_last_qos"),
]
_FILES = ["harness/mqttproxy/zz_verif_c15_common_test.go", "harness/mqttproxy/zz_verif_c15_test.go",
          "harness/mqttproxy/zz_verif_c15_gen_test.go"]
HARNESSES = [
    dict(name="mqtt", pkg="pkg/object/mqttproxy", files=_FILES, run="TestVerifC15",
         groups=["fan", "sess", "cpub", "gen", "slow"], timeout=420),
]
GROUPS = {"fan": "(check_fan pinned)", "sess": "check_sess", "cpub": "check_cpub", "gen": "check_gen", "slow": "check_slow"}
EXPLAIN = {"fan": "(explain_fan pinned)", "sess": "explain_sess", "cpub": "explain_cpub", "gen": "explain_gen", "slow": "explain_slow"}
CASES = {"quick": 400, "thorough": 4000}
RULE = ("cases: fan = populations of 2-5 raw clients (1-3 subscriptions each over 14 literal/+/# filters, QoS 0/1/2, some "
        "unregistered by the admin endpoint, some unsubscribing or disconnecting before the publish, nested filters below a node whose only subscriber leaves) x 1-3 HTTP publishes (QoS 0/1, rarely 2) on a real loopback broker; "
        "sess = one QoS-1 subscriber x publish/PUBACK/await-retransmission/quiet schedules under the real 200 ms ticker; "
        "cpub = client PUBLISH bursts (QoS 0/1/2, chosen packet ids) x request/byte limiter x pipeline verdict pass/drop/disconnect. "
        "non-trivial = some subscriber matched (fan) / non-empty schedule; classes add (fan) mixed-QoS(+1) overlapping(+2) "
        "unregistered/unsubscribed/left(+4) several-receivers(+8), (sess) retransmission-seen(+1) ack(+2) quiet(+4) qos0-sub(+8), "
        "(cpub) puback(+1) limiter-drop(+2) disconnect(+4) no-pipeline(+8); distinct = distinct (group, input) hashes among non-trivial cases")
TRUSTED_BASE = [
    "models coq/model/Broker.v (fan-out) and coq/model/Session.v (pending/resend, client PUBLISH) are hand-written; tied to "
    "pkg/object/mqttproxy on every run by the correspondence (sampled): real Broker on loopback, raw TCP clients with the paho codec",
    "subscriptions are a finite map (client, filter) -> QoS replayed from the harness' own record of SUBSCRIBE/UNSUBSCRIBE/disconnect; "
    "filter/topic matching is the declarative MQTT matcher of EG.model.Topic (C14), independent of the code; the real TopicManager's "
    "single-subscription verdict is only cross-checked against it",
    "visit order of Go maps is not controllable: correspondence is existential over all visit orders / last-visited choices",
    "group slow (a client that does not read for > 2.5 s while the broker's 50-slot write queue for it is full, then drains) "
    "has no Coq model: SUBACK/PUBACK completeness and QoS 1 delivery are checked on the observations; the stall is a lower bound that can only miss",
    "group gen (MQTTProxy Init/Inherit behind a real admin API server, publish through the registered route) has no Coq model: "
    "only the delivery clause is checked on the observations",
    "the client publish limiter is C09's model (coq/model/RL.v) at elapsed time 0 (period chosen longer than the run)",
    "quiescence of the broker is decided from goroutine dumps (all broker goroutines parked) and PINGREQ/PINGRESP barriers",
]
ASSUMPTIONS = [
    "subscription QoS values are non-negative",
    "fewer than 2^16 messages are published to a session between a message's publication and its acknowledgement (packet ids are uint16)",
    "the subscriber's client object stays registered while its session is published to (otherwise Session.publish returns early)",
    "ticker firings are atomic w.r.t. publish/puback (Session mutex)",
]

MANIFEST = dict(
    design_ref="DESIGN.md section 6 C15",
    level_text=("Theorems over executable models: for EVERY visit order of the subscriber map the ideal fan-out serves exactly the "
                "connected clients with a matching subscription of QoS >= q (refuted for the pinned code's early `return` and for its "
                "last-visited QoS of overlapping subscriptions, both reproduced on a real broker); for EVERY history of "
                "publish/puback/tick the oldest unacknowledged QoS-1 message is re-emitted by every tick with the same id and payload, "
                "every pending message becomes the oldest once its predecessors are acknowledged, nothing carrying an acknowledged id is "
                "emitted afterwards, a QoS-0 copy is dropped only when the queue is full, and an admitted QoS-1 client PUBLISH is handed "
                "to the backend once and PUBACKed with its own id. Models tied to the real broker on every run."),
    level_note=("Trusted: Coq kernel + vm_compute; hand-written models validated only on sampled populations/schedules; matching is an "
                "oracle; socket writes, the 200 ms ticker and channel capacity are runtime (queue-full is an input flag of the model)."),
    technique="Coq proof (list induction, invariants over op histories) + existential correspondence over visit orders by vm_compute",
)


def coq_header(kf_open):
    flags = {k.get("flag") for k in kf_open}
    return ("From EG.lib Require Import Base BrokerMap.\nFrom EG.model Require Import RL Session Broker BrokerCheck.\nOpen Scope Z_scope.\n"
            "Definition pinned : quirks := {| q_mqtt_lowqos_return := %s; q_mqtt_overlap_last_qos := %s; "
            "q_takeover_teardown_unguarded := false |}.\n"
            % (B("q_mqtt_lowqos_return" in flags), B("q_mqtt_overlap_last_qos" in flags)))


_RES = {"ok": 0, "skip": 1, "noresend": 2}


def encode(c):
    i, o = c["in"], c["obs"]
    g = c["grp"]
    if g == "fan":
        pubs = i.get("pubs") or []
        recv = o.get("recv") or []
        match = o.get("match") or []
        filters = o.get("filters") or []
        bad = bool(o.get("bad")) or len(recv) != len(pubs) or len(match) != len(pubs)
        ps = []
        for n, p in enumerate(pubs):
            row = match[n] if n < len(match) else []
            ps.append(Rec(fp_topic=S(p["topic"]), fp_qos=Z(p["qos"]),
                          fp_match=L([T(S(f), B(m)) for f, m in zip(filters, row)]),
                          fp_recv=L([S(x) for x in (recv[n] if n < len(recv) else [])])))
        return Rec(fc_clients=L([Rec(fcl_cid=S(cl["cid"]), fcl_connected=B(not cl.get("gone")),
                                     fcl_subs=L([T(S(s["f"]), Z(s["q"])) for s in (cl.get("subs") or []) + (cl.get("subs2") or [])]),
                                     fcl_unsubs=L([S(f) for f in cl.get("unsubs") or []]), fcl_left=B(cl.get("left", False)))
                                 for cl in i.get("clients") or []]),
                   fc_pubs=L(ps), fc_bad=B(bad))
    if g == "sess":
        ops = i.get("ops") or []
        steps = o.get("steps") or []
        out = []
        for op, st in zip(ops, steps):
            k = op["op"]
            t = C("OPub", Z(op.get("qos", 0))) if k == "pub" else {"ack": "OAck", "await": "OAwait", "seen": "OAwait", "quiet": "OQuiet", "gap": "OQuiet"}[k]
            out.append(Rec(ss_op=t, ss_recv=L([T(Z(a), Z(b), Z(m)) for a, b, m in st.get("recv") or []]),
                           ss_acked=Z(st.get("acked", -1)), ss_res=Z(_RES.get(st.get("res"), 3))))
        return Rec(sc_subqos=Z(i["subqos"]), sc_start=Z(i.get("startid", 0)), sc_steps=L(out), sc_bad=B(bool(o.get("bad")) or len(steps) != len(ops)))
    if g == "cpub":
        pubs = i.get("pubs") or []
        ps = []
        for n, p in enumerate(pubs):
            size = 2 + len(p["topic"].encode()) + (2 if p["qos"] > 0 else 0) + len(p["payload"].encode()) + 8
            v = {"D": "VDrop", "X": "VDisconnect"}.get(p["payload"][:1], "VPass")
            ps.append(T(Rec(cp_qos=Z(p["qos"]), cp_id=Z(p["id"]), cp_size=Z(size), cp_tag=Z(n)), v))
        calls = []
        for cl in o.get("calls") or []:
            tag = -1
            for n, p in enumerate(pubs):
                if (p["payload"] == cl["payload"] and p["topic"] == cl["topic"] and p["qos"] == cl["qos"]
                        and (p["qos"] == 0 or p["id"] == cl["id"])):
                    tag = n
            calls.append(tag)
        return Rec(cc_pipe=B(i["pipe"]), cc_req=Z(i["requestRate"]), cc_bytes=Z(i["bytesRate"]), cc_period=Z(1000000),
                   cc_pubs=L(ps), cc_calls=L([Z(x) for x in calls]), cc_pubacks=L([Z(x) for x in o.get("pubacks") or []]),
                   cc_eof=B(o.get("end") == "eof"), cc_bad=B(bool(o.get("bad")) or o.get("end") not in ("ok", "eof")))
    if g == "slow":
        return Rec(sl_full=B(o.get("full", False)), sl_subs_sent=Z(o.get("subs_sent", 0)), sl_subacks=Z(o.get("subacks", 0)),
                   sl_ids=L([Z(x) for x in o.get("ids") or []]), sl_pubacks=L([Z(x) for x in o.get("pubacks") or []]),
                   sl_http1=Z(o.get("http1", 0)), sl_q1=Z(o.get("q1", 0)),
                   sl_q0sent=Z(o.get("q0sent", 0)), sl_q0recv=Z(o.get("q0recv", 0)), sl_bad=B(bool(o.get("bad"))))
    if g == "gen":
        return Rec(gc_subqos=Z(i["subqos"]),
                   gc_pubs=L([T(Z(p["gen"]), Z(p["qos"]), B(p["delivered"]), Z(p["status"])) for p in o.get("pubs") or []]),
                   gc_expected=Nat((i["updates"] + 1) * len(i.get("qos") or [])),
                   gc_bad=B(bool(o.get("bad"))))
    raise ValueError(g)


def signature(c, r):
    return "%s/%s/%s" % (c["grp"], r.get("attrib"), r.get("corr"))


def distribution(cases):
    d = dict(groups={}, fan_clients={}, fan_pub_qos={}, fan_receivers={}, sess_ops={}, cpub_qos={})
    for c in cases:
        g = c["grp"]
        d["groups"][g] = d["groups"].get(g, 0) + 1
        i, o = c["in"], c["obs"]
        if g == "fan":
            n = str(len(i.get("clients") or []))
            d["fan_clients"][n] = d["fan_clients"].get(n, 0) + 1
            for p, r in zip(i.get("pubs") or [], o.get("recv") or []):
                q = str(p["qos"])
                d["fan_pub_qos"][q] = d["fan_pub_qos"].get(q, 0) + 1
                k = str(len(r))
                d["fan_receivers"][k] = d["fan_receivers"].get(k, 0) + 1
        elif g == "sess":
            for op in i.get("ops") or []:
                d["sess_ops"][op["op"]] = d["sess_ops"].get(op["op"], 0) + 1
        elif g == "cpub":
            for p in i.get("pubs") or []:
                q = str(p["qos"])
                d["cpub_qos"][q] = d["cpub_qos"].get(q, 0) + 1
    return d


def shrink_candidates(inp, grp):
    if grp == "fan":
        cl = inp.get("clients") or []
        pubs = inp.get("pubs") or []
        for n in range(len(pubs)):
            if len(pubs) > 1:
                yield dict(inp, pubs=pubs[:n] + pubs[n + 1:])
        for n in range(len(cl)):
            if len(cl) > 1:
                yield dict(inp, clients=cl[:n] + cl[n + 1:])
        for n, c in enumerate(cl):
            subs = c.get("subs") or []
            for m in range(len(subs)):
                if len(subs) > 1:
                    c2 = dict(c, subs=subs[:m] + subs[m + 1:])
                    yield dict(inp, clients=cl[:n] + [c2] + cl[n + 1:])
    elif grp in ("sess",):
        ops = inp.get("ops") or []
        for n in range(len(ops)):
            yield dict(inp, ops=ops[:n] + ops[n + 1:])
    elif grp == "cpub":
        pubs = inp.get("pubs") or []
        for n in range(len(pubs)):
            yield dict(inp, pubs=pubs[:n] + pubs[n + 1:])
