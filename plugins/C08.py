"""C08 circuit breaker: plugin for ./check (see lib/vf/driver.py for the protocol)."""
from vf.coqterm import Z, N, B, S, L, T, C, Rec, Nat

ID = "C08"
COQ_TARGETS = ["props/C08.vo", "model/CBCheck.vo"]
THEOREMS = [
    ("EG.props.C08", "cb_count_window_refines"),
    ("EG.props.C08", "cb_time_window_refines"),
    ("EG.props.C08", "cb_refines_spec"),
    ("EG.props.C08", "C08_reachable_well_formed"),
    ("EG.props.C08", "C08_closed_passes"),
    ("EG.props.C08", "C08_opens_at_threshold"),
    ("EG.props.C08", "C08_open_short_circuits_until_wait"),
    ("EG.props.C08", "C08_wait_elapsed_enters_half_open"),
    ("EG.props.C08", "C08_half_open_admits_first_permitted"),
    ("EG.props.C08", "C08_trials_decide"),
    ("EG.props.C08", "C08_stale_result_no_effect"),
    ("EG.props.C08", "C08_stale_results_ignored"),
    ("EG.props.C08", "C08_id_tracks_transitions"),
    ("EG.props.C08", "C08_max_wait_reopens"),
    ("EG.props.C08", "C08_checker_accepts_spec"),
    ("EG.props.C08", "C08_checker_accepts_model"),
    ("EG.props.C08", "C08_epoch_split"),
    ("EG.props.C08", "C08_epoch_results_spec"),
    ("EG.props.C08", "C08_checker_sound"),
    ("EG.props.C08", "C08_sound_short_circuit_only_when_open"),
    ("EG.props.C08", "C08_sound_opens_exactly_at_threshold"),
    ("EG.props.C08", "C08_sound_half_open_trials"),
    ("EG.props.C08", "C08_sound_trials_decide"),
    ("EG.props.C08", "C08_sound_stale_results_no_effect"),
    ("EG.props.C08", "C08_checker_sound_nonvacuous"),
    ("EG.props.C08", "C08_burst_fold"),
    ("EG.props.C08", "C08_wrapper_one_record_per_call"),
    ("EG.props.C08", "C08_wrapper_context_independent"),
    ("EG.props.C08", "C08_instances_independent"),
    ("EG.props.C08", "C08_short_circuit_is_503"),
    ("EG.props.C08", "C08_short_circuit_every_shape"),
    ("EG.props.C08", "C08_nonvacuous"),
]
HARNESSES = [
    dict(name="cb", pkg="pkg/util/circuitbreaker", files=["harness/circuitbreaker/zz_verif_c08_test.go"],
         run="TestVerifC08", groups=["cb"], timeout=600),
    dict(name="race", pkg="pkg/util/circuitbreaker", files=["harness/circuitbreaker/zz_verif_c08_test.go",
                                                            "harness/circuitbreaker/zz_verif_c08_race_test.go"],
         run="TestVerifC08Race", groups=["race"], timeout=600, share=0.08),
    dict(name="burst", pkg="pkg/util/circuitbreaker", files=["harness/circuitbreaker/zz_verif_c08_test.go",
                                                             "harness/circuitbreaker/zz_verif_c08_burst_test.go"],
         run="TestVerifC08Burst", groups=["burst"], timeout=600, share=0.004),
    dict(name="lin", pkg="pkg/util/circuitbreaker", files=["harness/circuitbreaker/zz_verif_c08_test.go"],
         run="TestVerifC08Lin", groups=["lin"], timeout=900, share=0.02, thorough_only=True, race=True),
    dict(name="wrap", pkg="pkg/resilience", files=["harness/resilience/zz_verif_c08_wrap_test.go"],
         run="TestVerifC08Wrap", groups=["wrap"], timeout=600, share=0.25,
         extra_overlay={"pkg/util/circuitbreaker/zz_verif_c08_hook.go": "harness/circuitbreaker/zz_verif_c08_hook.go"}),
    dict(name="pool", pkg="pkg/filters/proxy", files=["harness/proxy/zz_verif_c08_proxy_test.go"],
         run="TestVerifC08Proxy", groups=["pool"], timeout=600, share=0.1,
         extra_overlay={"pkg/util/circuitbreaker/zz_verif_c08_hook.go": "harness/circuitbreaker/zz_verif_c08_hook.go"}),
]
GROUPS = {"cb": "check_cb", "wrap": "check_wrapm", "pool": "check_poolm", "lin": "check_lin", "race": "check_lin", "burst": "check_burst"}
EXPLAIN = {"cb": "explain_cb", "wrap": "explain_wrapm", "pool": "explain_poolm", "lin": "explain_lin", "race": "explain_lin", "burst": "explain_burst"}
CASES = {"quick": 1600, "thorough": 20000}
RULE = ("cases: random policies (thresholds 1..100, count/time window 1..12, minimum 0..12, permitted 0..6, wait/maxWait/slow durations) "
        "x histories of acquire / record(success|failure|slow, own, stale or foreign id) / clock advance (none, sub-second, second "
        "boundary, multi-second, beyond window, exact wait/maxWait deadlines); non-trivial = non-empty history; classes add: "
        "reached OPEN(+1) reached HALF_OPEN(+2) stale record(+4) time-based(+8) recovery to CLOSED(+16); "
        "groups wrap (resilience wrapper: handler nil/error/panic) and pool (Proxy: 2xx/transport error/failure code) likewise; "
        "group lin (thorough, -race): 2-5 goroutines, <= 10 stamped operations, linearization search; "
        "group burst (quick): time-based window receiving >= 65536 results within one second (folded arithmetically in the model), "
        "then the clock passes the window and failures follow; wrap handlers also end by panic(nil) and runtime.Goexit; "
        "group race (quick): deterministic forced overlap - operation A parked at its clock reading inside the critical section, "
        "B issued meanwhile (two trial results at the closing/reopening transition, acquire vs transition, record vs max-wait reopen, random); "
        "distinct = distinct (group, input) hashes among non-trivial cases")
TRUSTED_BASE = [
    "model coq/model/CB.v is hand-written; tied to pkg/util/circuitbreaker, pkg/resilience and pkg/filters/proxy by the per-run correspondence (sampled)",
    "virtual clock: package variable nowFunc of pkg/util/circuitbreaker replaced by the harness (one reading per operation)",
]
ASSUMPTIONS = ["non-decreasing clock", "window size and permitted calls < 2^25 (uint32 rate arithmetic), < 2^25 recorded results per epoch for the time-based window",
               "every public operation holds the breaker's mutex for its whole body (atomic step)",
               "stateID does not wrap (fewer than 2^32 transitions)"]

MANIFEST = dict(
    design_ref="DESIGN.md section 6 C08",
    level_text=("Theorems for ALL policies and ALL histories with a non-decreasing clock: the count-based ring buffer and the "
                "time-based bucket ring (evictions included) equal the abstract window views; the concrete breaker (uint32/uint8 rate "
                "arithmetic, stateID) refines the contract automaton step for step; on the automaton: CLOSED passes, OPEN iff "
                ">= minimum results in the window and a rate >= threshold (exact floor boundary), OPEN short-circuits until the wait "
                "elapsed, exactly the first `permitted` half-open acquisitions are admitted, trials decide, stale ids are ignored "
                "(ids change with every transition), maxWait reopens; wrapper records exactly once per admitted call (panic path "
                "included); short-circuit = 503/shortCircuited/no server. The trace checker used as `prop` is proved to accept "
                "every model trace. Model tied to pkg/util/circuitbreaker, pkg/resilience and pkg/filters/proxy on every run by "
                "differential correspondence under a virtual clock."),
    level_note=("Trusted: Coq kernel + vm_compute; hand-written model validated only on sampled histories; each public operation is "
                "one atomic step with ONE clock reading (lock held for the whole body; time passing inside an operation is not "
                "modelled); sizes < 2^25 and, for the time-based window, < 2^25 operations (uint32 overflow of failure*100 beyond "
                "that is in the concrete model but outside the theorems); clock going backwards excluded by hypothesis; listener "
                "goroutines, SetState/Disabled/ForceOpen not modelled; concurrency only through the atomic-step argument."),
    technique="Coq proof (refinement of ring buffers to a log automaton, invariant induction over op histories) + model/implementation correspondence by vm_compute",
)


def coq_header(kf_open):
    return "From EG.lib Require Import Base.\nFrom EG.model Require Import CB CBCheck.\nOpen Scope Z_scope.\n"


def _pol(p):
    return Rec(p_fthr=Z(p["fthr"]), p_sthr=Z(p["sthr"]), p_time=B(p["time"]), p_size=Z(p["size"]), p_perm=Z(p["perm"]),
               p_min=Z(p["min"]), p_slowdur=Z(p["slowdur"]), p_maxwait=Z(p["maxwait"]), p_wait=Z(p["wait"]))


_HOUT = {0: "HOk", 1: "HErr", 2: "HPanic", 3: "HPanicNil", 4: "HGoexit"}
_CX = {0: "CLive", 1: "CCancelledBefore", 2: "CCancelledDuring", 3: "CDeadline"}


def _backend(b):
    k = b["k"]
    if k == 0:
        return C("BOk", Z(b["status"]))
    if k == 1:
        return "BSendErr"
    return C("BFailCode", Z(b["status"]))


def encode(c):
    i, o = c["in"], c["obs"]
    g = c["grp"]
    if g == "cb":
        steps = o["steps"] or []
        ops = []
        now = i["t0"]
        for k, op in enumerate(i["ops"] or []):
            now += op["dt"]
            if op["k"] == 0:
                ops.append(C("OAcq", Z(now)))
            else:
                used = steps[k][3] if k < len(steps) else 0
                ops.append(C("ORec", Z(now), Z(used), B(op["err"]), Z(op["dur"])))
        return Rec(k_pol=_pol(i["pol"]), k_t0=Z(i["t0"]), k_ops=L(ops),
                   k_obs=L([T(Z(s[0]), Z(s[1]), Z(s[2])) for s in steps]))
    if g == "burst":
        steps = o["steps"] or []
        ops = []
        now = i["t0"]
        for k, op in enumerate(i["ops"] or []):
            now += op["dt"]
            used = steps[k][3] if k < len(steps) else 0
            if op["k"] == 0:
                ops.append(C("BOp", C("OAcq", Z(now))))
            elif op["k"] == 1:
                ops.append(C("BOp", C("ORec", Z(now), Z(used), B(op["err"]), Z(op["dur"]))))
            else:
                ops.append(C("BBurst", Z(now), Z(used), Z(op["n"])))
        return Rec(u_pol=_pol(i["pol"]), u_t0=Z(i["t0"]), u_ops=L(ops),
                   u_obs=L([T(Z(s[0]), Z(s[1]), Z(s[2])) for s in steps]))
    if g == "wrap":
        calls, now = [], i["t0"]
        for cl in i["calls"] or []:
            now += cl["dt"]
            calls.append(T(Z(now), _HOUT[cl["h"]], _CX[cl.get("cx", 0)]))
        return Rec(mw=Rec(w_pol=_pol(i["pol"]), w_t0=Z(i["t0"]), w_calls=L(calls),
                          w_obs=L([T(*[Z(x) for x in s]) for s in (o["calls"] or [])])),
                   mw_idx=L([Z(cl.get("w", 0)) for cl in i["calls"] or []]))
    if g == "pool":
        reqs, now = [], i["t0"]
        for rq in i["reqs"] or []:
            now += rq["dt"]
            reqs.append(T(Z(now), _backend(rq), B(rq.get("body", 0) >= 2), _CX[rq.get("cx", 0)]))
        return Rec(mq=Rec(q_pol=_pol(i["pol"]), q_t0=Z(i["t0"]), q_retry=Z(i.get("retry", 0)), q_reqs=L(reqs),
                          q_obs=L([T(Z(s["status"]), S(s["result"]), Z(s["contacted"]), Z(s["state"]), Z(s["id"]), Z(s["total"]))
                                   for s in (o["reqs"] or [])])),
                   mq_idx=L([Z(rq.get("p", 0)) for rq in i["reqs"] or []]))
    if g in ("lin", "race"):
        ops = []
        for op in o["ops"] or []:
            now = op.get("now", 0)
            term = C("OAcq", Z(now)) if op["k"] == 0 else C("ORec", Z(now), Z(op["id"]), B(op["err"]), Z(op.get("dur", 0)))
            ops.append(Rec(l_call=Z(op["call"]), l_ret=Z(op["ret"]), l_op=term, l_flag=B(op["flag"] == 1), l_id=Z(op["id"])))
        return Rec(n_pol=_pol(i["pol"]), n_t0=Z(i.get("t0", 0)), n_ops=L(ops),
                   n_final=T(Z(o["state"]), Z(o["id"]), Z(o.get("total", -1))))
    raise ValueError(g)


def distribution(cases):
    d = dict(groups={}, ops_hist={}, steps=0, acquires=0, admitted=0, records=0, stale_records=0,
             states={"1": 0, "2": 0, "3": 0}, time_based=0, count_based=0, transitions=0)
    for c in cases:
        g = c["grp"]
        d["groups"][g] = d["groups"].get(g, 0) + 1
        if g != "cb":
            continue
        ops = c["in"].get("ops") or []
        n = len(ops)
        b = "%d-%d" % (n // 20 * 20, n // 20 * 20 + 19)
        d["ops_hist"][b] = d["ops_hist"].get(b, 0) + 1
        d["time_based" if c["in"]["pol"]["time"] else "count_based"] += 1
        cur = 1
        for op, s in zip(ops, c["obs"].get("steps") or []):
            d["steps"] += 1
            if op["k"] == 0:
                d["acquires"] += 1
                d["admitted"] += s[0] == 1
            else:
                d["records"] += 1
                d["stale_records"] += s[3] != cur
            d["transitions"] += s[2] != cur
            cur = s[2]
            d["states"][str(s[1])] = d["states"].get(str(s[1]), 0) + 1
    return d


def shrink_candidates(inp, grp):
    if grp in ("lin", "race", "burst"):
        return
    key = {"cb": "ops", "wrap": "calls", "pool": "reqs"}[grp]
    ops = inp.get(key) or []
    n = len(ops)

    def fix(lst, removed):
        # re-index record references after removing the index set `removed`
        out = []
        for j, op in enumerate(lst):
            if j in removed:
                continue
            op = dict(op)
            if grp == "cb" and op.get("k") == 1 and op.get("ref", -1) >= 0:
                r = op["ref"]
                if r in removed:
                    return None
                op["ref"] = r - sum(1 for x in removed if x < r)
            out.append(op)
        return out

    k = n // 2
    while k >= 1:
        for s in range(0, n, k):
            removed = set(range(s, min(n, s + k)))
            # removing an op moves the clock: fold its dt into the next op
            lst = [dict(o) for o in ops]
            carry = sum(lst[j]["dt"] for j in removed)
            nxt = min(n, s + k)
            if nxt < n:
                lst[nxt]["dt"] += carry
            cand_ops = fix(lst, removed)
            if cand_ops is None or cand_ops == ops:
                continue
            cand = dict(inp)
            cand[key] = cand_ops
            yield cand
        k //= 2
