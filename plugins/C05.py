"""C05 IP filter: plugin for ./check (see lib/vf/driver.py for the protocol)."""
from vf.coqterm import N, B, L, T, Opt, Rec, Nat

ID = "C05"
COQ_TARGETS = ["props/C05.vo", "props/C05Mux.vo", "model/IPFilterCheck.vo"]
THEOREMS = [
    ("EG.props.C05", "contains_is_prefix_equality"),
    ("EG.props.C05", "C05_decision_table"),
    ("EG.props.C05", "C05_unparsable_gets_default"),
    ("EG.props.C05", "C05_chain_allow"),
    ("EG.props.C05", "C05_mini_denied_never_dispatched"),
    ("EG.props.C05", "C05_mini_not_denied_unaffected"),
    ("EG.props.C05", "C05_mini_cached_enforced"),
    ("EG.props.C05", "C05_mini_cached_enforced_general"),
    ("EG.props.C05", "C05_refuted_q_mapped_entry_dead"),
    ("EG.props.C05", "C05_refuted_q_hit_skips_visited_rules"),
    # the same two clauses on the full router model (model/Mux.v, tied to mux.go by the C01/C12 correspondence)
    ("EG.props.C05Mux", "C05_denied_never_dispatched"),
    ("EG.props.C05Mux", "C05_not_denied_unaffected"),
]
HARNESSES = [
    dict(name="ipf", pkg="pkg/util/ipfilter", files=["harness/ipfilter/zz_verif_c05_test.go"],
         run="TestVerifC05", groups=["ipf"], timeout=300, share=0.7),
    dict(name="mux", pkg="pkg/object/httpserver", files=["harness/httpserver/zz_verif_c05_test.go"],
         run="TestVerifC05Mux", groups=["mux"], timeout=600, share=0.3),
]
GROUPS = {"ipf": "check_ipf_p", "mux": "check_mux_p"}
EXPLAIN = {"ipf": "explain_ipf_p", "mux": "explain_mux_p"}
CASES = {"quick": 900, "thorough": 16000}
RULE = ("ipf cases: 1-3 filters (allow/block lists of addresses and CIDRs, primary prefix length cycles through 0..32 / 0..128, "
        "overlapping / nested / sibling entries, IPv4, IPv6 (random and sparse addresses; entry text canonical-compressed, full, uncompressed, upper case, "
        "dotted tail, bare or with /len), mixed, IPv4-mapped-IPv6 entries in an exotic stream, malformed stream) "
        "x clients at the prefix boundaries (bit len-1 / len flipped, first/last address, just below/above, neighbours of single addresses in the same /64 /32 /16 (v4: /24 /16 /8), other family, unparsable); "
        "non-trivial = at least one filter and one client; classes add: v6 client(+1) both answers seen(+2) client in allowed and blocked(+4) "
        "unparsable client(+8) mapped entry(+16) chain of several filters(+32) proper CIDR(+64). "
        "mux cases: server/rule/path filters (incl. entry-less ones, blockByDefault true/false), option xForwardedFor on/off x request sequences (client via RemoteAddr in public/private/loopback/link-local ranges / X-Real-IP / X-Forwarded-For single, multiple, private-only chains) on three real mux "
        "instances (cache on, cache off, filter-less twin); non-trivial = non-empty sequence; classes add: some request denied(+1) cache hit(+2) "
        "denied on a hit(+4) denied where a route exists(+8) denied where none exists(+16) twin both dispatches and refuses(+32) sequence with reload steps (identical spec / other option / other filters, "
        "applied to all three instances)(+64) request denied after a reload on a key served before it(+128). "
        "distinct = distinct (group, input) hashes among non-trivial cases")
TRUSTED_BASE = [
    "model coq/model/IPFilter.v is hand-written; tied to pkg/util/ipfilter and to muxInstance.search by the per-run correspondence (sampled)",
    "address parsing (net.ParseIP / net.ParseCIDR / To4) and realip.FromRequest are oracles: their results are supplied per case by the harness",
    "net.IPNet.Contains is the reference for 'standard prefix semantics' in the implementation-side checker; the model's contains is compared with it on every case and proved equal to first-len-bits-agree",
    "mux group: the four match conditions of every rule/path (host, path, method, headers) are oracle bits evaluated by the real methods; "
    "only the control flow of muxInstance.search (where filters are consulted, what is cached, what a hit re-checks) is modelled; "
    "cache presence before each request is read from the real ARC cache (eviction oracle)",
]
ASSUMPTIONS = [
    "well-formed entries (prefix length <= address width, values below 2^width) - what net.ParseCIDR/ParseIP produce",
    "mux group generators keep clear of route-cache defects that do not involve filters (cache-key collisions, header-less route cached behind a "
    "header-conditioned entry: property C12); header-conditioned entries only on paths no other entry matches",
    "a denied request for which no route exists may be refused with any 4xx (403, or a cached 404/405): the statement demands 403 only when the route exists",
]

MANIFEST = dict(
    design_ref="DESIGN.md section 6 C05",
    level_text=("Theorems over the executable model for ALL filters and ALL addresses: contains = first-len-bits-agree (bit-level, both families), "
                "the allow/deny decision table exactly as stated (incl. unparsable address -> default), chain = conjunction; for the cache-less "
                "mini router (match conditions abstract) for ALL servers and requests: refused with 403 and not dispatched iff an applying filter "
                "denies, otherwise identical to the filter-less twin. Model tied to pkg/util/ipfilter (cidranger) and to the real mux "
                "(cache on and off, three filter levels, XFF / X-Real-IP / RemoteAddr) on every run by differential correspondence, plus an "
                "independent checker of the property on the implementation's own observables (decision table over net.IPNet.Contains; "
                "denied => 4xx/403/no handler, not denied => equals filter-less twin)."),
    level_note=("Trusted: Coq kernel + vm_compute; hand-written model validated on sampled cases only; address parsing, realip and the router's "
                "match conditions are per-case oracles; the cached-router clauses for every eviction behaviour and history are proved over model/Mux.v "
                "(C12) - here the cache is covered by correspondence and by the hit lemma under a soundness hypothesis. "
                "Open findings: IPv4-mapped IPv6 entries never match; a cached route skips the filters of earlier host-matching rules."),
    technique="Coq proof (bitwise N lemmas, induction over rule/path lists) + model/implementation correspondence by vm_compute",
)

FLAGS = ["q_mapped_entry_dead", "q_hit_skips_visited_rules"]


def coq_header(kf_open):
    on = {k.get("flag") for k in kf_open}
    pinned = "; ".join("%s := %s" % (f, B(f in on)) for f in FLAGS)
    return ("From EG.lib Require Import Base.\nFrom EG.model Require Import IPFilter IPFilterCheck.\nOpen Scope N_scope.\n"
            "Definition pinned : quirks := {| %s |}.\n"
            "Definition check_ipf_p := check_ipf pinned.\nDefinition check_mux_p := check_mux pinned.\n"
            "Definition explain_ipf_p := explain_ipf pinned.\nDefinition explain_mux_p := explain_mux pinned.\n" % pinned)


def _fam(f):
    return "V4" if f == 4 else "V6"


def _entry(e):
    if not e.get("ok"):
        return None
    return Rec(e_fam=_fam(e["fam"]), e_pre=N(e["pre"]), e_len=N(e["len"]), e_mapped=B(e.get("mapped")))


def _addr(ok, fam, val):
    if not ok:
        return "None"
    return "(Some %s)" % Rec(a_fam=_fam(fam), a_val=N(val))


def _bools(xs):
    return L([B(x) for x in xs or []])


def _ipf(spec, orc):
    """option ipf term from a filter spec and its parsed entries"""
    if spec is None:
        return "None"
    al = [x for x in (_entry(e) for e in orc["allow"] or []) if x]
    bl = [x for x in (_entry(e) for e in orc["block"] or []) if x]
    return "(Some %s)" % Rec(f_block_default=B(spec["def"]), f_allow=L(al), f_block=L(bl))


def _outs(xs, ids):
    r = []
    for o in xs or []:
        b = o.get("backend") or ""
        r.append(T(N(o["status"] if o["status"] >= 0 else 998), N(0 if b == "" else ids.get(b, 999))))
    return L(r)


def encode(c):
    i, o = c["in"], c["obs"]
    orc = i.get("orc") or {}
    if c["grp"] == "ipf":
        fcs = []
        for k, f in enumerate(i["filters"] or []):
            fo = orc["filters"][k]
            fcs.append(Rec(
                fc_default=B(f["def"]),
                fc_allow=L([Opt(_entry(e)) for e in fo["allow"] or []]),
                fc_block=L([Opt(_entry(e)) for e in fo["block"] or []]),
                fc_std_allow=L([_bools(r) for r in fo["std_allow"] or []]),
                fc_std_block=L([_bools(r) for r in fo["std_block"] or []]),
                fc_obs=L([N(x) for x in o["allow"][k] or []])))
        return Rec(ic_filters=L(fcs),
                   ic_clients=L([_addr(x.get("ok"), x.get("fam"), x.get("val")) for x in orc.get("clients") or []]),
                   ic_chain=L([N(x) for x in o["chain"] or []]))
    if c["grp"] == "mux":
        ids = {b: k + 1 for k, b in enumerate(i.get("backends") or [])}
        if o.get("error"):
            # the generated spec was rejected: a harness defect, never a pass
            return Rec(mc_gens="[]", mc_steps="[]",
                       mc_obs_on=L([T(N(999), N(999))]), mc_obs_off="[]", mc_obs_twin="[]")
        def server(sf, so, rfilt, rorc, pfilt, porc):
            rules = []
            for ri, r in enumerate(i["rules"] or []):
                paths = []
                for pi, p in enumerate(r["paths"] or []):
                    paths.append(Rec(mp_filter=_ipf(pfilt(ri, pi), porc(ri, pi)),
                                     mp_has_hdr=B(bool(p.get("headers"))),
                                     mp_backend=N(ids.get(p["backend"], 0))))
                rules.append(Rec(mr_filter=_ipf(rfilt(ri), rorc(ri)), mr_paths=L(paths)))
            return Rec(ms_filter=_ipf(sf, so), ms_rules=L(rules))
        gens = [server(i.get("filter"), orc.get("server"),
                       lambda ri: i["rules"][ri].get("filter"), lambda ri: orc["rules"][ri],
                       lambda ri, pi: i["rules"][ri]["paths"][pi].get("filter"), lambda ri, pi: orc["paths"][ri][pi])]
        for g, go in zip(i.get("gens") or [], orc.get("gens") or []):
            gens.append(server(g.get("filter"), go.get("server"),
                               lambda ri, g=g: g["ruleFilters"][ri], lambda ri, go=go: go["rules"][ri],
                               lambda ri, pi, g=g: g["pathFilters"][ri][pi], lambda ri, pi, go=go: go["paths"][ri][pi]))
        steps = []
        for q, rq in zip(orc.get("reqs") or [], i.get("reqs") or []):
            m = []
            for hm, pbs in zip(q["host"] or [], q["bits"] or []):
                m.append(T(B(hm), L([Rec(pb_path=B(x[0]), pb_method=B(x[1]), pb_hdr=B(x[2])) for x in pbs or []])))
            req = Rec(rq_ip=_addr(q.get("ip_ok"), q.get("fam"), q.get("val")), rq_key=N(q["key"]),
                      rq_hit=B(q["hit"]), rq_m=L(m))
            rl = "(Some %s)" % Nat(rq.get("gen") or 0) if rq.get("reload") else "None"
            steps.append(T(rl, req))
        return Rec(mc_gens=L(gens), mc_steps=L(steps), mc_obs_on=_outs(o.get("on"), ids),
                   mc_obs_off=_outs(o.get("off"), ids), mc_obs_twin=_outs(o.get("twin"), ids))
    raise ValueError(c["grp"])


def distribution(cases):
    d = dict(groups={}, v4_prefix_lengths=set(), v6_prefix_lengths=set(), entries=0, mapped_entries=0, rejected_entries=0,
             bare_v6_entries_by_colons={}, v6_entry_text=dict(upper_case=0, full_form=0, dotted_tail=0),
             clients=0, unparsable_clients=0, v6_clients=0, answers={"0": 0, "1": 0, "2": 0},
             mux_requests=0, mux_cases_xForwardedFor=0, mux_entryless_filters=0, mux_realip_unparsable=0, mux_reloads=0, mux_hits=0, mux_status={}, mux_client_source={"remote": 0, "xrealip": 0, "xff": 0})
    for c in cases:
        g = c["grp"]
        d["groups"][g] = d["groups"].get(g, 0) + 1
        orc = c["in"].get("orc") or {}
        if g == "ipf":
            for f in c["in"].get("filters") or []:
                for e in (f.get("allow") or []) + (f.get("block") or []):
                    if ":" not in e or e.lower().startswith("::ffff:"):
                        continue
                    t = d["v6_entry_text"]
                    t["upper_case"] += e != e.lower()
                    t["full_form"] += len(e.split("/")[0]) == 39
                    t["dotted_tail"] += "." in e
                    if "/" not in e and "%" not in e:
                        k = str(e.count(":"))
                        d["bare_v6_entries_by_colons"][k] = d["bare_v6_entries_by_colons"].get(k, 0) + 1
            for fo in orc.get("filters") or []:
                for e in (fo["allow"] or []) + (fo["block"] or []):
                    d["entries"] += 1
                    if not e.get("ok"):
                        d["rejected_entries"] += 1
                        continue
                    d["mapped_entries"] += bool(e.get("mapped"))
                    (d["v4_prefix_lengths"] if e["fam"] == 4 else d["v6_prefix_lengths"]).add(e["len"])
            for cl in orc.get("clients") or []:
                d["clients"] += 1
                d["unparsable_clients"] += not cl.get("ok")
                d["v6_clients"] += cl.get("fam") == 6
            for row in c["obs"].get("allow") or []:
                for x in row or []:
                    d["answers"][str(x)] = d["answers"].get(str(x), 0) + 1
        else:
            d["mux_cases_xForwardedFor"] += bool(c["in"].get("xForwardedFor"))
            fl = [c["in"].get("filter")] + [r.get("filter") for r in c["in"].get("rules") or []] + \
                 [p.get("filter") for r in c["in"].get("rules") or [] for p in r.get("paths") or []]
            d["mux_entryless_filters"] += sum(1 for f in fl if f is not None and not f.get("allow") and not f.get("block"))
            for q, rq in zip(orc.get("reqs") or [], c["in"].get("reqs") or []):
                d["mux_realip_unparsable"] += not q.get("ip_ok")
                d["mux_requests"] += 1
                if rq.get("reload"):
                    d["mux_reloads"] += 1
                d["mux_hits"] += bool(q.get("hit"))
                src = "xff" if rq.get("xff") else ("xrealip" if rq.get("xrealip") else "remote")
                d["mux_client_source"][src] += 1
            for o in c["obs"].get("on") or []:
                k = str(o["status"])
                d["mux_status"][k] = d["mux_status"].get(k, 0) + 1
    d["v4_prefix_lengths"] = "%d of 33 (%s)" % (len(d["v4_prefix_lengths"]), _ranges(d["v4_prefix_lengths"]))
    d["v6_prefix_lengths"] = "%d of 129 (%s)" % (len(d["v6_prefix_lengths"]), _ranges(d["v6_prefix_lengths"]))
    return d


def _ranges(s):
    xs = sorted(s)
    out, i = [], 0
    while i < len(xs):
        j = i
        while j + 1 < len(xs) and xs[j + 1] == xs[j] + 1:
            j += 1
        out.append(str(xs[i]) if i == j else "%d-%d" % (xs[i], xs[j]))
        i = j + 1
    return ",".join(out)


def signature(c, r):
    return (c["grp"], r.get("corr"))


def shrink_candidates(inp, grp):
    def without(d, key, k):
        e = dict(d)
        e[key] = d[key][:k] + d[key][k + 1:]
        e.pop("orc", None)
        return e
    if grp == "mux":
        reqs = inp.get("reqs") or []
        n = len(reqs)
        k = n // 2
        while k >= 1:
            for s in range(0, n, k):
                cand = dict(inp)
                cand["reqs"] = reqs[:s] + reqs[s + k:]
                cand.pop("orc", None)
                if cand["reqs"] and len(cand["reqs"]) < n:
                    yield cand
            k //= 2
    else:
        for k in range(len(inp.get("filters") or [])):
            if len(inp["filters"]) > 1:
                yield without(inp, "filters", k)
        for k in range(len(inp.get("clients") or [])):
            if len(inp["clients"]) > 1:
                yield without(inp, "clients", k)
        for fi, f in enumerate(inp.get("filters") or []):
            for side in ("allow", "block"):
                for k in range(len(f.get(side) or [])):
                    cand = dict(inp)
                    cand.pop("orc", None)
                    fs = [dict(x) for x in inp["filters"]]
                    fs[fi][side] = f[side][:k] + f[side][k + 1:]
                    cand["filters"] = fs
                    yield cand
