"""C07 body limits: plugin for ./check (see lib/vf/driver.py for the protocol)."""
import base64
import os
import re

from vf.coqterm import Z, N, B, S, L, T, C, Rec, Nat

ID = "C07"
COQ_TARGETS = ["props/C07.vo", "model/BodyCheck.vo", "lib/Pack.vo"]
CHECK_TARGETS = ["model/BodyCheck.vo", "lib/Pack.vo"]  # still evaluated when the proofs no longer build
THEOREMS = [
    ("EG.props.C07", "C07_at_limit_passes"),
    ("EG.props.C07", "C07_over_limit_rejected"),
    ("EG.props.C07", "C07_negative_streams"),
    ("EG.props.C07", "C07_zero_is_default"),
    ("EG.props.C07", "C07_default_is_4MB"),
    ("EG.props.C07", "C07_effective_limit_precedence"),
    ("EG.props.C07", "C07_413_unforwarded"),
    ("EG.props.C07", "C07_within_limit_forwarded_intact"),
    ("EG.props.C07", "C07_short_body_is_error"),
    ("EG.props.C07", "C07_big_response_withheld"),
    ("EG.props.C07", "C07_response_within_limit_delivered"),
    ("EG.props.C07", "C07_limit_in_force_across_reloads"),
    ("EG.props.C07", "C07_checker_sound"),
    ("EG.props.C07", "C07_len_model_agrees"),
]
HARNESSES = [
    dict(name="body", pkg="pkg/object/httpserver",
         files=["harness/httpserver/zz_verif_c07_net_test.go", "harness/httpserver/zz_verif_c07_test.go"],
         run="TestVerifC07", groups=["body", "big", "reload"], timeout=900),
]
GROUPS = {"body": "check_body", "big": "check_big", "reload": "check_reload"}
EXPLAIN = {"body": "explain_body", "big": "explain_big", "reload": "explain_reload"}
CASES = {"quick": 500, "thorough": 6000}
RULE = ("a quarter of the uploads carry Expect: 100-continue; a third of the backend answers have a Content-Type other than octet-stream (text/event-stream, application/grpc, "
        "multipart, text/plain, json, none); pool histories (1 in 200, one processor, GC off): a chunked response of 1.3 MB - withheld by a 1.1 MB limit or delivered under the 4 MB default - followed by small "
        "chunked / close-delimited responses through the same process; slow uploads (1 in 90) through the package's real runtime with keepAliveTimeout 20-50 ms and a "
        "within-limit body sent steadily for 2-3 times that long; reload histories also reload the PIPELINE (Pipeline.Inherit -> Proxy.Inherit) when pool / proxy serverMaxBodySize or the pool's memoryCache spec change between "
        "steps: cacheable GETs answered and cached, the limit lowered / raised / unchanged with the cache spec kept or changed, the same GET again, response bodies at and "
        "around both limits; limits include negative values other than -1 (-2, -1024, MinInt64+1: any negative streams); one case in 10 (and 1 in 5 of the ordinary ones) has a "
        "mirrorPool on a second recording backend whose filter matches requests carrying X-Mirror, with streamed and buffered, announced and chunked uploads up to 70000 bytes; "
        "one case in 10 has a pool retryPolicy (2 attempts) + failureCodes and a backend that fails the first attempt after reading the body, with buffered "
        "and streamed (-1) requests of 0..5000 bytes, announced and chunked; one case in 8 is a reload history: one mux, 2-4 generations of HTTPServer specs that differ only in the server / path limits (0, -1, positive; "
        "most often only the server-level value, path left at 0), 1-3 requests per generation with bodies at limit-1 / limit / limit+1 of EVERY generation, "
        "announced and chunked; one case in 4 has proxy `compression` (minLength 0/20/100) x client Accept-Encoding absent / gzip / list / */* / identity / br "
        "in front of the response limit, incl. backends announcing more than they send; other cases: limits at server/path/proxy/pool level drawn from {0, -1, 8..64, and the internal buffer sizes 512, 4096, 8 pages, 16 pages} x request and response bodies of "
        "0, 1, limit/2, limit-1, limit, limit+1, limit+2, 2x, 10x, 100x the effective limit x framing (Content-Length exact / "
        "announcing more / announcing less, chunked with and without last-chunk, close-delimited responses, no body); thorough adds "
        "the 4 MiB default at 4MiB-1, 4MiB, 4MiB+1 in both directions and both framings; non-trivial = the request carries a body or the "
        "backend was reached; classes add: request over limit(+1) request exactly at limit(+2) streamed request(+4) response over limit(+8) "
        "response exactly at limit(+16) streamed response(+32) lying or truncated framing(+64); distinct = distinct (group, input) hashes "
        "among non-trivial cases")
TRUSTED_BASE = [
    "model coq/model/Body.v is hand-written; tied to httpprot.FetchPayload / mux.serveHTTP / ServerPool.buildResponse by the per-run correspondence over real loopback sockets (sampled)",
    "src_of_wire (what net/http's server and client body readers deliver for a given framing) and the net/http server's write-out are runtime behaviour: observed by the raw client/backend, modelled, not verified",
    "case files carry long byte strings packed 7 bytes per primitive 63-bit integer (coq/lib/Pack.v), unpacked by vm_compute; no registered theorem depends on it",
    "gen/GenBody.v: DefaultMaxPayloadSize is re-extracted from pkg/protocols/httpprot/http.go on every run by plugins/C07.py (product of integer literals)",
]
ASSUMPTIONS = [
    "net/http hands FetchPayload a body reader that yields min(announced, sent) bytes and io.ErrUnexpectedEOF when the peer stops early (src_of_wire)",
    "a streamed (limit -1) response whose backend announces more bytes than it sends cannot be turned into an error status (headers are already written): "
    "the clause 'error status rather than truncated success' is read as 'never a well-framed 2xx': the client observes a Content-Length larger than the bytes received and a closed connection",
]

MANIFEST = dict(
    design_ref="DESIGN.md section 6 C07",
    level_text=("Theorems over the executable model of FetchPayload + mux/pool limit selection for ALL limit settings, body sizes and framings "
                "(at-limit passes intact, over-limit -> 413 undispatched, -1 streams, 0 = default, precedence, oversized response -> 500 with empty body, "
                "short body -> error status / never a well-framed success); model tied to the real mux + Pipeline[Proxy] over loopback sockets on every run, "
                "plus an independent decidable checker of the clauses on the implementation's own observables (proved sound for the model)."),
    level_note=("Trusted: Coq kernel + vm_compute; hand-written model validated on sampled cases only; net/http framing behaviour observed, not verified; "
                "streamed truncated responses are detectable by framing but keep the backend's status."),
    technique="Coq proof (case analysis over the fetch algorithm, lia) + model/implementation correspondence by vm_compute over real loopback traffic",
)


def pregen(repo, coqdir):
    """Re-extract DefaultMaxPayloadSize from the Go source into coq/gen/GenBody.v."""
    src = open(os.path.join(repo, "pkg/protocols/httpprot/http.go")).read()
    m = re.search(r"\bDefaultMaxPayloadSize\s*=\s*([0-9_ \t*]+)", src)
    val = None
    if m:
        val = 1
        for f in m.group(1).split("*"):
            f = f.strip().replace("_", "")
            if not f.isdigit():
                val = None
                break
            val *= int(f)
    body = ("(** GENERATED by plugins/C07.py from pkg/protocols/httpprot/http.go on every run - do not edit. *)\n"
            "From Coq Require Import ZArith.\nOpen Scope Z_scope.\n")
    if val is None:
        # not extractable any more: leave the constant undefined so that every dependent proof breaks
        body += "(* DefaultMaxPayloadSize: literal not found in the source *)\n"
    else:
        body += "Definition default_max_payload : Z := %d.\n" % val
    os.makedirs(os.path.join(coqdir, "gen"), exist_ok=True)
    p = os.path.join(coqdir, "gen", "GenBody.v")
    if not os.path.exists(p) or open(p).read() != body:
        with open(p, "w") as f:
            f.write(body)


def coq_header(kf_open):
    return ("From Coq Require Import Uint63.\nFrom EG.lib Require Import Base Pack.\n"
            "From EG.model Require Import Body BodyCheck.\nOpen Scope Z_scope.\n")


def _b(x):
    return base64.b64decode(x) if x else b""


class _Pool:
    """Per-case pool of byte strings: every distinct long string is bound once by a `let`
    (packed 7 bytes per primitive int, see coq/lib/Pack.v) and referred to by name."""

    def __init__(self):
        self.names = {}
        self.defs = []

    def _packed(self, bs):
        words = [str(int.from_bytes(bs[k:k + 7], "big")) for k in range(0, len(bs), 7)]
        return "unpack [%s]%%uint63 %d%%nat" % (";".join(words), len(bs) % 7 or 7)

    def s(self, bs):
        if len(bs) <= 24:
            return S(bs)
        if bs in self.names:
            return self.names[bs]
        # segments: long runs of one byte are not listed (srep), the rest is packed in pieces
        segs, k, lit = [], 0, bytearray()
        if len(bs) > 4096:
            n = len(bs)
            while k < n:
                j = k
                while j < n and bs[j] == bs[k]:
                    j += 1
                if j - k >= 4096:
                    if lit:
                        segs.append(("lit", bytes(lit)))
                        lit = bytearray()
                    segs.append(("rep", bs[k], j - k))
                else:
                    lit += bs[k:j]
                k = j
            if lit:
                segs.append(("lit", bytes(lit)))
        else:
            segs = [("lit", bs)]
        parts = []
        for sg in segs:
            if sg[0] == "rep":
                parts.append("(srep %d%%N %d%%N)" % (sg[1], sg[2]))
            else:
                for q in range(0, len(sg[1]), 28000):
                    parts.append("(%s)" % self._packed(sg[1][q:q + 28000]))
        term = parts[0] if len(parts) == 1 else "(String.concat EmptyString [%s])" % "; ".join(parts)
        name = "b%d_" % len(self.names)
        self.names[bs] = name
        self.defs.append("let %s := %s in" % (name, term))
        return name

    def wrap(self, term):
        return "(" + " ".join(self.defs) + " " + term + ")" if self.defs else term


def _enc(kind, decl, term):
    if kind == "cl":
        return C("EncCL", Z(decl))
    if kind == "chunked":
        return C("EncChunked", B(term))
    if kind == "none":
        return "EncNone"
    return "EncClose"


def _encode_body(i, o, cfg):
    bad = bool(o.get("panic")) or not o.get("got")
    pool = _Pool()
    S = pool.s
    return pool.wrap(Rec(
        b_cfg=cfg,
        b_req_enc=_enc(i["reqEnc"], i["reqDecl"], i["reqTerm"]), b_req=S(_b(i["reqBody"])),
        b_status=Z(i["respStatus"]),
        b_resp_enc=_enc(i["respEnc"], i["respDecl"], i["respTerm"]),
        b_resp=S(b"z" * i["respFill"] if i.get("respFill") else _b(i["respBody"])),
        b_zip=B(i.get("zip")), b_minlen=Z(i.get("minLen") or 0),
        b_ae=("(Some %s)" % S(i["ae"].encode())) if i.get("ae") else "None", b_gz=S(_b(i.get("respGz"))),
        b_get=B(i.get("method") == "GET"), b_cmax=Z(i.get("cacheMax") or 0),
        b_retry=B(i.get("retry")), b_first_status=Z(i.get("firstStatus") or 0), b_first_body=S(_b(i.get("firstBody"))),
        b_obbody2=S(_b(o.get("bbody2"))),
        b_bad=B(bad), b_ostatus=Z(o["status"]), b_obody=S(_b(o.get("body"))), b_oframe=B(o["frameOK"]),
        b_oheads=Z(o["heads"]), b_ocomplete=Z(o["complete"]), b_obbody=S(_b(o.get("bbody")))))


def _cfg(i):
    return Rec(c_srv=Z(i["srv"]), c_path=Z(i["path"]), c_pool=Z(i["pool"]), c_proxy=Z(i["proxy"]))


def encode(c):
    i, o = c["in"], c["obs"]
    if c["grp"] == "body":
        return _encode_body(i, o, _cfg(i))
    if c["grp"] == "reload":
        si, so = i.get("steps") or [], o.get("steps") or []
        first = si[0] if si else None
        steps = []
        for a, b in zip(si, so):
            # compression / retry / mirror settings of the pipeline are those of step 0 (none in generated histories)
            a = dict(a, zip=first.get("zip"), minLen=first.get("minLen"))
            steps.append(_encode_body(a, b, _cfg(a)))
        return Rec(rl_steps=L(steps), rl_bad=B(bool(o.get("panic")) or len(si) != len(so)))
    cfg = _cfg(i)
    bad = bool(o.get("panic")) or not o.get("got")
    if c["grp"] == "big":
        rl = i["reqBig"] or len(_b(i["reqBody"]))
        pl = i["respBig"] or len(_b(i["respBody"]))
        return Rec(g_cfg=cfg,
                   g_req_enc=_enc(i["reqEnc"], i["reqDecl"], i["reqTerm"]), g_req=Z(rl),
                   g_status=Z(i["respStatus"]),
                   g_resp_enc=_enc(i["respEnc"], i["respDecl"], i["respTerm"]), g_resp=Z(pl),
                   g_bad=B(bad), g_ostatus=Z(o["status"]), g_olen=Z(o["bodyLen"]), g_ointact=B(o["bodyIntact"]),
                   g_oframe=B(o["frameOK"]), g_oheads=Z(o["heads"]), g_ocomplete=Z(o["complete"]),
                   g_oblen=Z(o["bbodyLen"]), g_obintact=B(o["bintact"]))
    raise ValueError(c["grp"])


def distribution(cases):
    d = dict(groups={}, req_enc={}, resp_enc={}, client_status={}, limits={})
    for c in cases:
        i, o = c["in"], c["obs"]
        d["groups"][c["grp"]] = d["groups"].get(c["grp"], 0) + 1
        if c["grp"] == "reload":
            d["reload_steps"] = d.get("reload_steps", 0) + len(i.get("steps") or [])
            continue
        if i.get("zip"):
            d["compression"] = d.get("compression", 0) + 1
        if i.get("retry"):
            d["retry"] = d.get("retry", 0) + 1
        if i.get("mirror"):
            d["mirror"] = d.get("mirror", 0) + 1
            d["mirror_hit"] = d.get("mirror_hit", 0) + bool(i.get("mirrorHit"))
        d["req_enc"][i["reqEnc"]] = d["req_enc"].get(i["reqEnc"], 0) + 1
        d["resp_enc"][i["respEnc"]] = d["resp_enc"].get(i["respEnc"], 0) + 1
        s = str(o.get("status"))
        d["client_status"][s] = d["client_status"].get(s, 0) + 1
        for k in ("srv", "path", "pool", "proxy"):
            v = i[k]
            key = "%s:%s" % (k, "0" if v == 0 else "-1" if v < 0 else "pos")
            d["limits"][key] = d["limits"].get(key, 0) + 1
    return d


def signature(c, r):
    if c["grp"] == "reload":
        return "reload/" + ",".join(str(x.get("status")) for x in (c["obs"].get("steps") or []))
    i, o = c["in"], c["obs"]
    return "%s/%s/%s/%s" % (c["grp"], i["reqEnc"], i["respEnc"], o.get("status"))


def shrink_candidates(inp, grp):
    if os.environ.get("VERIF_NO_SHRINK"):
        return
    if grp == "reload":
        steps = inp.get("steps") or []
        for k in range(len(steps)):
            if len(steps) > 1:
                yield dict(inp, steps=steps[:k] + steps[k + 1:])
        return
    if grp != "body":
        return
    for k in ("reqBody", "respBody"):
        b = _b(inp.get(k))
        if len(b) > 1:
            for nb in (b[:len(b) // 2], b[:-1]):
                cand = dict(inp)
                cand[k] = base64.b64encode(nb).decode()
                dk = "reqDecl" if k == "reqBody" else "respDecl"
                ek = "reqEnc" if k == "reqBody" else "respEnc"
                if cand[ek] == "cl" and inp[dk] == len(b):
                    cand[dk] = len(nb)
                yield cand
    for k in ("srv", "path", "pool", "proxy"):
        if inp[k] != 0:
            cand = dict(inp)
            cand[k] = 0
            yield cand
