"""C02 pipeline flow: plugin for ./check (see lib/vf/driver.py for the protocol)."""
from vf.coqterm import Z, N, B, S, L, T, C, Rec, Nat, Opt

ID = "C02"
COQ_TARGETS = ["props/C02.vo", "model/PipelineCheck.vo"]
THEOREMS = [
    ("EG.props.C02", "C02_run_is_reference_walk"),
    ("EG.props.C02", "C02_successor_is_declarative"),
    ("EG.props.C02", "C02_forward_only"),
    ("EG.props.C02", "C02_nothing_after_end"),
    ("EG.props.C02", "C02_result_is_last_filter_result"),
    ("EG.props.C02", "C02_namespace_per_node"),
    ("EG.props.C02", "C02_before_after"),
    ("EG.props.C02", "C02_before_after_result"),
    ("EG.props.C02", "C02_validate_characterisation"),
    ("EG.props.C02", "C02_validate_sound_for_runtime"),
    ("EG.props.C02", "C02_reuse_ok"),
    ("EG.props.C02", "C02_checker_sound"),
    ("EG.props.C02", "C02_refuted_q_end_alias_target"),
]
_SHARED = {
    "pkg/object/pipeline/zz_verif_c02_shared.go": "harness/pipeline/zz_verif_c02_shared.go",
    "pkg/object/pipeline/zz_verif_c02_gen.go": "harness/pipeline/zz_verif_c02_gen.go",
}
HARNESSES = [
    dict(name="pipeline", pkg="pkg/object/pipeline", files=["harness/pipeline/zz_verif_c02_test.go"],
         run="TestVerifC02", groups=["run", "enum"], timeout=600, share=0.75, extra_overlay=_SHARED),
    dict(name="gf", pkg="pkg/object/globalfilter", files=["harness/globalfilter/zz_verif_c02_gf_test.go"],
         run="TestVerifC02GF", groups=["run"], timeout=600, share=0.25, extra_overlay=_SHARED),
]
GROUPS = {"run": "(check_run pinned)", "enum": "(check_enum pinned)"}
EXPLAIN = {"run": "explain_run pinned", "enum": "explain_enum pinned"}
CASES = {"quick": 1200, "thorough": 24000}
RULE = ("cases: generated pipeline specs (0-6 nodes, aliases, END nodes with and without alias, jumpIf maps incl. backward/"
        "duplicated/unknown targets and undeclared results, namespaces, filter reuse, duplicated/reserved/malformed filter "
        "names, unknown kinds) x result scripts, through Pipeline.Handle, HandleWithBeforeAfter and a real GlobalFilter; "
        "raw cases bypass validation to exercise the loop on rejected flows; thorough adds the exhaustive small-scope "
        "enumeration (group enum: every flow of the bounded universe x every result script). non-trivial = at least one "
        "node or filter; classes add: filter-ran(+1) jump-skipped-nodes(+2) ended-by-END(+4) before/after(+8) "
        "spec-rejected(+16) raw(+32); distinct = distinct (group, input) hashes among non-trivial cases")
TRUSTED_BASE = [
    "model coq/model/Pipeline.v is hand-written; tied to pkg/object/pipeline (+ globalfilter) by the per-run correspondence (sampled)",
    "scripted filter kinds VfC02K* registered by the harness stand for arbitrary filters: a filter is modelled as the result it returns",
    "generic meta validation of a filter entry (name/kind required, urlname) is an oracle bit computed with the real library",
]
ASSUMPTIONS = [
    "a filter influences the flow only through the result string it returns (results scripted by invocation number, all scripts quantified)",
    "one request is handled by one goroutine (doHandle is sequential)",
    "jumpIf is a finite map (association list with first-match lookup in the model)",
]

MANIFEST = dict(
    design_ref="DESIGN.md section 6 C02",
    level_text=("Theorems over the executable transcription of Pipeline.doHandle / HandleWithBeforeAfter / Spec.Validate for ALL flows "
                "and ALL assignments of results to invocations: the run is the iteration of the declarative successor (first later node "
                "named by jumpIf, forward only, everything in between skipped), nothing after END, result of the last filter, namespace "
                "per node, before/after composition, validation characterised and sound for the run time; model tied to the code on "
                "every run by differential correspondence and an independent declarative checker on the implementation's own trace."),
    level_note=("Trusted: Coq kernel + vm_compute; hand-written model validated on sampled and small-scope-exhaustive flows; filters are "
                "abstracted to their result strings; jsonschema/meta validation of filter entries is an oracle."),
    technique="Coq proof (structural induction over the flow, refinement to a declarative walk) + model/implementation correspondence by vm_compute",
)

FLAGS = ["q_end_alias_target"]


def coq_header(kf_open):
    on = {k.get("flag") for k in kf_open}
    fields = "; ".join("%s := %s" % (f, "true" if f in on else "false") for f in FLAGS)
    return ("From EG.lib Require Import Base.\nFrom EG.model Require Import Pipeline PipelineCheck.\n"
            "Open Scope string_scope.\nDefinition pinned : quirks := {| %s |}.\n" % fields)


def _node(n):
    ji = sorted((n.get("jumpIf") or {}).items())
    return Rec(fname=S(n["filter"]), falias=S(n["alias"]), fns=S(n["ns"]),
               jumpif=L([T(S(k), S(v)) for k, v in ji]))


def _spec(s):
    return Rec(s_decls=L([Rec(dname=S(d["name"]), dkind=S(d["kind"]), dwf=B(d["wf"])) for d in s["decls"] or []]),
               s_flow=L([_node(n) for n in s["flow"] or []]))


def _kinds(k):
    return L([T(S(name), L([S(r) for r in rs or []])) for name, rs in sorted((k or {}).items())])


_MODE = {"handle": 0, "hba": 1, "gf": 2}


def _obs(o):
    return Rec(o_valid=L([Opt(None if x < 0 else B(x == 1)) for x in o["valid"]]),
               o_newspec=B(o["newspec"]), o_ran=B(o["ran"]), o_panic=B(o["panic"]),
               o_calls=L([T(S(a), S(b), S(c), S(d)) for a, b, c, d in o["calls"] or []]),
               o_stats=L([T(S(a), S(b)) for a, b in o["stats"] or []]),
               o_tagok=B(o["tag_ok"]),
               o_result=Opt(S(o["result"]) if o["has_result"] else None),
               o_life=L([S(x) for x in o.get("life") or []]))


def encode(c):
    i, o = c["in"], c["obs"]
    if c["grp"] == "run":
        return Rec(c_kinds=_kinds(i["kinds"]), c_main=_spec(i["main"]),
                   c_before=Opt(_spec(i["before"]) if i.get("before") else None),
                   c_after=Opt(_spec(i["after"]) if i.get("after") else None),
                   c_mode=N(_MODE[i["mode"]]), c_raw=B(i["raw"]),
                   c_script=L([S(x) for x in i["script"] or []]),
                   c_gfprev=B(bool(i.get("gfprev"))),
                   c_prevb=Opt(_spec(i["prev_before"]) if i.get("prev_before") else None),
                   c_preva=Opt(_spec(i["prev_after"]) if i.get("prev_after") else None),
                   c_obs=_obs(o))
    if c["grp"] == "enum":
        return Rec(e_kinds=_kinds(i["kinds"]), e_spec=_spec(i["spec"]), e_results=L([S(x) for x in i["results"]]),
                   e_len=Nat(i["len"]), e_valid=B(o["valid"]), e_newspec=B(o["newspec"]),
                   e_runs=L([T(L([S(a) for a in run["names"]]), S(run["result"])) for run in o["runs"] or []]))
    raise ValueError(c["grp"])


def distribution(cases):
    d = dict(groups={}, modes={}, generations={}, raw=0, nodes_hist={}, calls_hist={}, accepted=0, rejected_some=0, ran=0, enum_scripts=0)
    for c in cases:
        d["groups"][c["grp"]] = d["groups"].get(c["grp"], 0) + 1
        i, o = c["in"], c["obs"]
        g = str(i.get("gen", 0))
        d["generations"][g] = d["generations"].get(g, 0) + 1
        if c["grp"] == "run":
            d["modes"][i["mode"]] = d["modes"].get(i["mode"], 0) + 1
            d["raw"] += bool(i["raw"])
            n = len(i["main"]["flow"] or [])
            d["nodes_hist"][str(n)] = d["nodes_hist"].get(str(n), 0) + 1
            k = len(o["calls"] or [])
            d["calls_hist"][str(k)] = d["calls_hist"].get(str(k), 0) + 1
            if 0 in o["valid"]:
                d["rejected_some"] += 1
            else:
                d["accepted"] += 1
            d["ran"] += bool(o["ran"])
        else:
            n = len(i["spec"]["flow"] or [])
            d["nodes_hist"]["enum%d" % n] = d["nodes_hist"].get("enum%d" % n, 0) + 1
            d["enum_scripts"] += len(o.get("runs") or [])
    return d


def signature(case, result):
    # one report per kind of failure (keeps shrinking time bounded)
    if case["grp"] != "run":
        return "enum"
    o = case["obs"]
    return "run/panic" if o["panic"] else ("run/ran" if o["ran"] else "run/validation")


def shrink_candidates(inp, grp):
    if grp != "run":
        return
    import copy
    if inp.get("gfprev"):
        for side in ("prev_before", "prev_after"):
            if inp.get(side):
                c = copy.deepcopy(inp)
                c[side] = None
                yield c
    if inp.get("gen"):
        c = copy.deepcopy(inp)
        c["gen"] = 0
        yield c
    # drop before / after, shorten the script, drop flow nodes, drop jumpIf entries, drop aliases/namespaces
    for side in ("before", "after"):
        if inp.get(side):
            c = copy.deepcopy(inp)
            c[side] = None
            yield c
    sc = inp.get("script") or []
    if sc:
        c = copy.deepcopy(inp)
        c["script"] = sc[:-1]
        yield c
    for side in ("main", "before", "after"):
        sp = inp.get(side)
        if not sp:
            continue
        fl = sp.get("flow") or []
        for k in range(len(fl) - 1, -1, -1):
            c = copy.deepcopy(inp)
            del c[side]["flow"][k]
            if c[side]["flow"]:
                yield c
        for k, nd in enumerate(fl):
            for key in sorted((nd.get("jumpIf") or {}).keys()):
                c = copy.deepcopy(inp)
                del c[side]["flow"][k]["jumpIf"][key]
                yield c
            if nd.get("ns"):
                c = copy.deepcopy(inp)
                c[side]["flow"][k]["ns"] = ""
                yield c
        ds = sp.get("decls") or []
        used = {nd["filter"] for nd in fl}
        for k in range(len(ds) - 1, -1, -1):
            if ds[k]["name"] not in used and len(ds) > 1:
                c = copy.deepcopy(inp)
                del c[side]["decls"][k]
                yield c
