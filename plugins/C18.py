"""C18 cluster mutex + admin-API versions: plugin for ./check (see lib/vf/driver.py for the protocol)."""
from vf.coqterm import Z, N, B, S, L, T, C, Rec, Nat

ID = "C18"
COQ_TARGETS = ["props/C18.vo", "model/MutexCheck.vo"]
THEOREMS = [
    ("EG.props.C18", "C18_mutual_exclusion"),
    ("EG.props.C18", "C18_failed_lock_leaves_free"),
    ("EG.props.C18", "C18_failed_thread_holds_nothing"),
    ("EG.props.C18", "C18_quiescent_lock_is_free"),
    ("EG.props.C18", "C18_versions_gap_free"),
    ("EG.props.C18", "C18_failures_modify_nothing"),
    ("EG.props.C18", "C18_failure_is_identity_in_spec"),
    ("EG.props.C18", "C18_store_is_sequential_replay"),
    ("EG.props.C18", "C18_store_is_replay_of_successes"),
    ("EG.props.C18", "C18_refuted_local_per_handle"),
    ("EG.props.C18", "C18_refuted_regrant_revokes"),
]
HARNESSES = [
    dict(name="mx", pkg="pkg/cluster", files=["harness/cluster/zz_verif_c18_test.go"],
         run="TestVerifC18Mutex", groups=["mx"], timeout=1500, share=0.125, race=True),
    dict(name="api", pkg="pkg/api", files=["harness/api/zz_verif_c18_test.go"],
         run="TestVerifC18Api", groups=["api"], timeout=1500, share=0.875, race=True),
]
GROUPS = {"mx": "(check_mx pinned)", "api": "(check_api pinned)"}
EXPLAIN = {"mx": "(explain_mx pinned)", "api": "(explain_api pinned)"}
CASES = {"quick": 480, "thorough": 4800}
RULE = ("mx: goroutines on 1-3 members of a real embedded-etcd cluster contend for one lock name (random think/hold times, "
        "shared or separate handles, hold-phases with short-timeout contenders followed by a free phase, fault phases: the holder "
        "re-grants its member's lease (keepAlive recovery path) and creates a fresh handle while other members contend); class adds "
        "lease-regrant(+16) "
        "multi-member(+1) has-failed-Lock(+2) separate-handles(+4) >=3 attempts(+8). "
        "api: create/update/delete/get on 1-4 overlapping names through the real handlers, sequential (in-memory cluster), "
        "concurrent (in-memory cluster with yields) and concurrent on two members of the real cluster, malformed requests, "
        "object names that are string prefixes of each other, one injected failure of the k-th cluster operation of a "
        "request (cluster double); "
        "class adds 409(+1) kind-change-400(+2) 404(+4) concurrent(+8) second-member(+16) fault-hit(+32) cut-short-after-object-write(+64). "
        "non-trivial = at least one attempt / request; distinct = distinct (group, input) hashes among non-trivial cases")
TRUSTED_BASE = [
    "model coq/model/Mutex.v is hand-written; tied to pkg/cluster/mutex.go and pkg/api/{server,object,cluster}.go by the per-run "
    "correspondence (sampled histories of real goroutines; the log must be a visible trace of the model)",
    "etcd (server, clientv3, concurrency.Session/Mutex) is MODELLED, not verified: linearizable KV; lock = keys name/<lease> "
    "ordered by create revision, owner = oldest key, one lease per member",
    "Go scheduler / timers not modelled: timeouts are a nondeterministic step of threads marked short-timeout",
    "the harness' event order (its own mutex / atomic counter) is the observation of real-time order",
]
ASSUMPTIONS = [
    "etcd is linearizable and keys of a live lease are not lost (lease expiry / partition while holding the lock is outside the model)",
    "a Lock() whose tryAcquire Txn times out AFTER the server applied it (leaked key) is not modelled",
    "each cluster.Get/Put/Delete of a handler is one atomic step; the process-local sync.Mutex is atomic",
    "a failing cluster operation inside a handler (LFault) ends it with ClusterPanic -> 5xx: an object write already done stays, no version is written "
    "(the code is not transactional there; the theorems state exactly this)",
    "distinct members have distinct names (leases); every attempt is one thread (a goroutine's attempts are sequentially ordered threads)",
]

MANIFEST = dict(
    design_ref="DESIGN.md section 6 C18",
    level_text=("Theorems over a labelled transition system (atomic steps of mutex.Lock/Unlock and of the create/update/delete "
                "handlers; any number of threads on any number of members; ALL schedules): mutual exclusion, failed/timed-out "
                "Lock leaves lock and store untouched and the lock free, versions of successes are v0+1.. each once, failures "
                "modify nothing, decided results form a legal sequential history whose replay in version order is the store. "
                "Tied to the code on every run: real goroutines on a real multi-member embedded-etcd cluster and real admin "
                "handlers; an independent history/overlap checker (prop) and model-trace inclusion (corr) evaluated in Coq."),
    level_note=("Trusted: Coq kernel + vm_compute; etcd and clientv3/concurrency are modelled (linearizable KV, revision-ordered "
                "lock keys), not verified; model validated only on sampled histories; scheduler/timers outside the model. "
                "Open finding KF-C18-handle-local-lock: two handles from cluster.Mutex(name) on one member are not exclusive."),
    technique="Coq proof (invariants of an interleaving transition system, refinement to a sequential spec) + history checking of real executions by vm_compute",
)


def coq_header(kf_open):
    flags = {k.get("flag") for k in kf_open}
    return ("From EG.lib Require Import Base.\nFrom EG.model Require Import Mutex MutexCheck.\nOpen Scope Z_scope.\n"
            "Definition pinned : quirks := {| q_local_per_handle := %s; q_regrant_revokes := false |}.\n"
            % B("q_local_per_handle" in flags))


def _attempts(inp):
    out = []
    for ph in inp.get("phases") or []:
        for g in ph.get("gs") or []:
            for _ in g.get("its") or []:
                out.append((g["m"], g["h"], g.get("to_ms", 0) > 0))
    return out


def _req(op):
    o = op["op"]
    if o == "create":
        return C("RCreate", S(op["name"]), S(op["kind"]), S(op["body"]))
    if o == "update":
        return C("RUpdate", S(op["name"]), S(op["kind"]), S(op["body"]))
    if o == "delete":
        return C("RDelete", S(op["name"]))
    return C("RGet", S(op["name"]))


def _objs(xs):
    return L([T(S(o["name"]), T(S(o["kind"]), S(o["body"]))) for o in (xs or [])])


def encode(c):
    i, o = c["in"], c["obs"]
    if c["grp"] == "mx":
        thr = _attempts(i)
        ev = []
        for code, x in (o.get("ev") or []):
            ev.append(T(Z(code), Nat(min(int(x), 4000))))
        return Rec(x_thr=L([T(T(Nat(m), Nat(h)), B(sh)) for m, h, sh in thr]),
                   x_ev=L(ev), x_maxov=Z(o.get("max_overlap", 0)))
    if c["grp"] == "api":
        obs = {(x["g"], x["i"]): x for x in (o.get("ops") or [])}
        ops = []
        for g, lst in enumerate(i.get("gs") or []):
            for k, op in enumerate(lst):
                x = obs.get((g, k)) or dict(call=0, ret=0, status=-1, ver=-1, kind="", body="", hit=False)
                ops.append(Rec(o_mem=Nat(op["m"] % max(1, i.get("members", 1))), o_req=_req(op), o_bad=B(bool(op.get("bad"))),
                               o_fk=Nat(min(int(op.get("fault") or 0), 9)), o_hit=B(bool(x.get("hit"))),
                               o_call=Z(x["call"]), o_ret=Z(x["ret"]), o_status=Z(x["status"]), o_ver=Z(x["ver"]),
                               o_rkind=S(x.get("kind") or ""), o_rbody=S(x.get("body") or "")))
        fin = o.get("final") or []
        finver = o.get("final_ver", -1)
        if o.get("err"):
            finver = -999  # the harness could not complete the case: never a pass
        return Rec(a_v0=Z(i["v0"]), a_init=_objs(i.get("init")), a_ops=L(ops), a_final=_objs(fin),
                   a_finalver=Z(finver), a_conc=B(i.get("mode") != "seq"))
    raise ValueError(c["grp"])


def distribution(cases):
    d = dict(groups={}, api_modes={}, api_status={}, api_ops={}, mx_members={}, mx_attempts=0, mx_failed_locks=0,
             mx_sep_handle_cases=0, mx_hold_phases=0, mx_regrant_phases=0, api_requests=0, api_faults_injected=0, api_faults_hit=0,
             api_prefix_name_cases=0)
    for c in cases:
        d["groups"][c["grp"]] = d["groups"].get(c["grp"], 0) + 1
        i, o = c["in"], c["obs"]
        if c["grp"] == "mx":
            k = str(i.get("members"))
            d["mx_members"][k] = d["mx_members"].get(k, 0) + 1
            at = _attempts(i)
            d["mx_attempts"] += len(at)
            d["mx_failed_locks"] += sum(1 for e in (o.get("ev") or []) if e[0] == 2)
            d["mx_sep_handle_cases"] += any(h for _, h, _ in at)
            d["mx_hold_phases"] += sum(1 for ph in i.get("phases") or [] if ph.get("kind") == "hold")
            d["mx_regrant_phases"] += sum(1 for ph in i.get("phases") or [] if ph.get("regrant"))
        else:
            m = i.get("mode")
            d["api_modes"][m] = d["api_modes"].get(m, 0) + 1
            for lst in i.get("gs") or []:
                for op in lst:
                    k = op["op"] + ("!" + op["bad"] if op.get("bad") else "")
                    d["api_ops"][k] = d["api_ops"].get(k, 0) + 1
            names = {op["name"] for lst in i.get("gs") or [] for op in lst} | {x["name"] for x in i.get("init") or []}
            d["api_prefix_name_cases"] += any(a != b and b.startswith(a) for a in names for b in names)
            d["api_faults_injected"] += sum(1 for lst in i.get("gs") or [] for op in lst if op.get("fault"))
            for x in o.get("ops") or []:
                d["api_faults_hit"] += bool(x.get("hit"))
                d["api_requests"] += 1
                k = str(x["status"])
                d["api_status"][k] = d["api_status"].get(k, 0) + 1
    return d


def signature(c, r):
    return c.get("grp") + ("/" + c["in"].get("mode", "") if c.get("grp") == "api" else "")


def shrink_candidates(inp, grp):
    if grp == "api":
        gs = inp.get("gs") or []
        # drop whole clients, then single requests, then initial objects
        for g in range(len(gs)):
            if len(gs) > 1:
                cand = dict(inp)
                cand["gs"] = gs[:g] + gs[g + 1:]
                yield cand
        for g in range(len(gs)):
            for k in range(len(gs[g])):
                cand = dict(inp)
                ng = gs[g][:k] + gs[g][k + 1:]
                cand["gs"] = [x for x in gs[:g] + [ng] + gs[g + 1:] if x]
                if cand["gs"]:
                    yield cand
        init = inp.get("init") or []
        for k in range(len(init)):
            cand = dict(inp)
            cand["init"] = init[:k] + init[k + 1:]
            yield cand
    elif grp == "mx":
        phs = inp.get("phases") or []
        for p in range(len(phs)):
            if len(phs) > 1:
                cand = dict(inp)
                cand["phases"] = phs[:p] + phs[p + 1:]
                yield cand
        for p in range(len(phs)):
            gs = phs[p].get("gs") or []
            start = 1 if phs[p].get("kind") == "hold" else 0
            for g in range(start, len(gs)):
                if len(gs) > 1:
                    cand = dict(inp)
                    np_ = dict(phs[p])
                    np_["gs"] = gs[:g] + gs[g + 1:]
                    cand["phases"] = phs[:p] + [np_] + phs[p + 1:]
                    yield cand
            for g in range(len(gs)):
                its = gs[g].get("its") or []
                if len(its) > 1:
                    cand = dict(inp)
                    ng = dict(gs[g])
                    ng["its"] = its[:1]
                    np_ = dict(phs[p])
                    np_["gs"] = gs[:g] + [ng] + gs[g + 1:]
                    cand["phases"] = phs[:p] + [np_] + phs[p + 1:]
                    yield cand
