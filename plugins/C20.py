"""C20 object lifecycle: plugin for ./check (see lib/vf/driver.py for the protocol)."""
import re
import zlib
from vf.coqterm import N, B, L, T, C, Rec

ID = "C20"
COQ_TARGETS = ["props/C20.vo", "model/RegistryCheck.vo"]
THEOREMS = [
    ("EG.props.C20", "C20_exactly_once"),
    ("EG.props.C20", "C20_live_equals_snapshot"),
    ("EG.props.C20", "C20_live_generation"),
    ("EG.props.C20", "C20_panic_isolated"),
    ("EG.props.C20", "C20_kind_change_is_close_then_init"),
    ("EG.props.C20", "C20_kind_change_across_consumers"),
    ("EG.props.C20", "C20_refuted_kind_change"),
    ("EG.props.C20", "C20_order_independent"),
    ("EG.props.C20", "C20_untouched_when_unchanged"),
    ("EG.props.C20", "C20_model_is_per_name"),
    ("EG.props.C20", "C20_late_watcher_equals_snapshot"),
    ("EG.props.C20", "C20_apply_exactly_once"),
    ("EG.props.C20", "C20_checker_sound"),
    ("EG.props.C20", "C20_checker_sound_any_group"),
    ("EG.props.C20", "C20_spec_word_sound"),
    ("EG.props.C20", "C20_run_start_spec"),
    ("EG.props.C20", "C20_checker_reappears"),
]
HARNESSES = [
    dict(name="sup", pkg="pkg/supervisor", files=["harness/supervisor/zz_verif_c20_test.go"],
         run="TestVerifC20", groups=["sup", "join", "backlog"], timeout=600, share=0.7),
    dict(name="tc", pkg="pkg/object/rawconfigtrafficcontroller", pkgname="rawconfigtrafficcontroller",
        files=["harness/rawconfigtrafficcontroller/zz_verif_c20_test.go"],
        run="TestVerifC20TC", groups=["tc", "apply"], timeout=600, share=0.3),
]
GROUPS = {"sup": "check_sup", "tc": "check_tc", "join": "check_join", "apply": "check_tc", "backlog": "check_backlog"}
EXPLAIN = {"sup": "explain_sup", "tc": "explain_tc", "join": "explain_join", "apply": "explain_tc", "backlog": "explain_backlog"}
CASES = {"quick": 500, "thorough": 12000}
RULE = ("cases: snapshot sequences over 1-4 names x 7 kinds (2 business controllers, 2 traffic gates, 2 pipeline-category kinds, "
        "1 unwatched system kind) x 3 contents (appear, change, unchanged, disappear, reappear, kind change inside and across "
        "categories, repeated snapshot) x panic oracle over (snapshot, callback, name); "
        "non-trivial = at least one lifecycle callback observed; classes add: has-Inherit(+1) has-Close(+2) has-panic(+4) "
        "kind-change-in-input(+8) traffic-watcher/traffic-controller involved(+16) traffic-controller harness(+32); "
        "distinct = distinct (group, input) hashes among non-trivial cases")
TRUSTED_BASE = [
    "model coq/model/Registry.v is hand-written; tied to pkg/supervisor (applyConfig, handleEvent, *WithRecovery) and to "
    "rawconfigtrafficcontroller + trafficcontroller by the per-run correspondence (sampled)",
    "test-only object kinds registered by the harness stand in for real controllers / traffic gates; their Inherit does the "
    "same previousGeneration.(*T) assertion real kinds do",
    "mode 0 of the supervisor harness calls applyConfig / handleEvent synchronously; mode 1 and the traffic-controller harness "
    "run the real goroutines behind clustertest's mocked syncer with a barrier object for synchronisation",
]
ASSUMPTIONS = [
    "every spec in a snapshot is valid (NewObjectEntityFromConfig succeeds): the API validates before writing to the store",
    "the config key equals the spec's name; one snapshot holds a name at most once (it is a map)",
    "each range loop visits every key of its map exactly once (iteration order arbitrary: quantified)",
    "the two consumers (supervisor, traffic controller) touch disjoint maps, so their concurrent event handling is modelled in either order",
]

MANIFEST = dict(
    design_ref="DESIGN.md section 6 C20",
    level_text=("Theorems over the executable model of ObjectRegistry.applyConfig + Supervisor.handleEvent + "
                "RawConfigTrafficController/TrafficController for ALL snapshot sequences, ALL panic oracles and ALL map iteration "
                "orders: the per-name log of each consumer is exactly the word of the lifecycle automaton (one Init on appearance, "
                "one Inherit with the previous live generation per spec change, one Close on disappearance, nothing when unchanged, "
                "kind change = Close then Init), live set = latest snapshot filtered by the consumer's categories, panic isolation, "
                "order independence; refutation of the kind-change clause for the pinned code. Model tied to the code on every run "
                "by differential correspondence and an independent automaton check of the implementation's own log."),
    level_note=("Trusted: Coq kernel + vm_compute; hand-written model validated only on sampled snapshot sequences; test-only kinds "
                "instead of real controllers; invalid specs in the store and goroutine scheduling are outside the model."),
    technique="Coq proof (per-name decomposition of keyed loops, lifecycle-automaton refinement) + model/implementation correspondence by vm_compute",
)

NEG = 4000000000


def _n(x):
    x = int(x)
    return N(x if x >= 0 else NEG)


def coq_header(kf_open):
    on = any(k.get("flag") == "q_kind_change_as_update" for k in kf_open)
    return ("From EG.lib Require Import Base.\nFrom EG.model Require Import Registry RegistryCheck.\nOpen Scope N_scope.\n"
            "Definition pinned : quirks := {| q_kind_change_as_update := %s |}.\n"
            "Definition check_sup := check_with pinned.\nDefinition check_tc := check_with pinned.\n"
            "Definition explain_sup := explain_with pinned.\nDefinition explain_tc := explain_with pinned.\n"
            "Definition check_join := check_join_with pinned.\nDefinition explain_join := explain_join_with pinned.\n"
            "Definition check_backlog := check_backlog_with pinned.\nDefinition explain_backlog := explain_backlog_with pinned.\n" % B(on))


def _spec(cats, kind, v):
    return Rec(s_kind=_n(kind), s_cat=N(cats.get(kind, 99)), s_v=_n(v))


def _ent(cats, kind, v, born):
    return Rec(e_spec=_spec(cats, kind, v), e_born=_n(born))


def _inst(cats, row):
    return T(_n(row[0]), Rec(i_ent=_ent(cats, row[1], row[2], row[3]), i_gen=B(row[4] == 1)))


def _entry(cats, r):
    t, op, name, k, v, born, pk, pv, pb, flag = r
    g = _ent(cats, k, v, born)
    if op == 0:
        call = C("Init", _n(name), g)
    elif op == 1:
        call = C("Inherit", _n(name), g, _ent(cats, pk, pv, pb))
    else:
        call = C("Close", _n(name), g)
    who = 0 if cats.get(k) == 1 else 1
    return Rec(l_who=N(who), l_step=_n(t), l_call=call, l_pan=B(flag == 1))


def _rows(cats, rows):
    return L([T(_n(r[0]), _spec(cats, r[1], r[2])) for r in rows or []])


# the rule for object names (MetaSpec.Name, format urlname), stated independently of pkg/v:
# 1..253 characters out of letters, digits and - _ . ~   An entry whose name breaks the rule is
# not a valid spec: applyConfig skips it, so for the model it is simply not in the snapshot.
_NAME_OK = re.compile(r"[A-Za-z0-9\-_.~]{1,253}")


def _valid_names(i):
    tbl = i.get("namestr") or []
    ok = set()
    for n in range(int(i["names"])):
        s = tbl[n] if n < len(tbl) and tbl[n] else "n%d" % n
        if _NAME_OK.fullmatch(s):
            ok.add(n)
    return ok


# kind ids this binary does not know (the harness registers no such kind): an entry of such a kind
# cannot be turned into an entity either
_UNKNOWN_KINDS = {7}


def _effective_steps(i):
    """What applyConfig can act on. An entry that cannot be decoded (invalid name, unknown kind)
    is skipped by applyConfig while its key is still in the config map: the name keeps whatever
    it had (nothing, or its previous entity, untouched). Snapshots reached by Clean are empty."""
    ok = _valid_names(i)
    clean = set(i.get("clean") or [])
    prev, out = {}, []
    for t, st in enumerate(i["steps"] or []):
        cur = {}
        for e in ([] if t in clean else st or []):
            if e[0] in ok and e[1] not in _UNKNOWN_KINDS:
                cur[e[0]] = (e[1], e[2])
            elif e[0] in prev:
                cur[e[0]] = prev[e[0]]
        out.append([[n, k, v] for n, (k, v) in sorted(cur.items())])
        prev = cur
    return out


def _steps(i, cats):
    return L([L([T(N(e[0]), _spec(cats, e[1], e[2])) for e in st]) for st in _effective_steps(i)])


def _evrows(cats, rows):
    return L([T(N(r[0]), _n(r[1]), _spec(cats, r[2], r[3])) for r in rows or []])


def _encode_join(c, cats):
    i, o = c["in"], c["obs"]
    steps = _steps(i, cats)
    return Rec(
        j_names=L([N(x) for x in range(int(i["names"]))]),
        j_steps=steps,
        j_join="%d%%nat" % min(int(i["join"]), len(i["steps"] or [])),
        j_w=N(i["w"]),
        j_sched=N(zlib.crc32(str(c.get("id")).encode()) % 32),
        jo_first=_evrows(cats, o.get("first")),
        jo_steps=L([Rec(jo_ev=_evrows(cats, s.get("ev")), jo_ents=_rows(cats, s.get("ents"))) for s in o.get("steps") or []]))


def encode(c):
    i, o = c["in"], c["obs"]
    cats = {int(k): int(ct) for k, ct in i["kinds"]}
    if c["grp"] == "join":
        return _encode_join(c, cats)
    steps = _steps(i, cats)
    obs = []
    for so in o.get("steps") or []:
        obs.append(Rec(
            so_reg=_rows(cats, so.get("reg")), so_w0=_rows(cats, so.get("w0")), so_w1=_rows(cats, so.get("w1")),
            so_ev1=L([T(N(r[0]), _n(r[1]), _spec(cats, r[2], r[3])) for r in so.get("ev1") or []]),
            so_sup=L([_inst(cats, r) for r in so.get("sup") or []]),
            so_gate=L([_inst(cats, r) for r in so.get("gate") or []]),
            so_pipe=L([_inst(cats, r) for r in so.get("pipe") or []])))
    return Rec(
        k_grp=N({"sup": 0, "tc": 1, "apply": 2, "backlog": 0}[c["grp"]]),
        k_names=L([N(x) for x in range(int(i["names"]))]),
        k_steps=steps,
        k_pan=L([T(N(p[0]), N(p[1]), N(p[2])) for p in i.get("panics") or []]),
        k_sched=N(zlib.crc32(str(c.get("id")).encode()) % 32),
        o_crash=B(o.get("crash", -1) >= 0),
        o_log=L([_entry(cats, r) for r in o.get("log") or []]),
        o_steps=L(obs))


def _kind_change(steps):
    prev = {}
    for st in steps or []:
        cur = {e[0]: e[1] for e in st or []}
        if any(n in prev and prev[n] != k for n, k in cur.items()):
            return True
        prev = cur
    return False


def distribution(cases):
    d = dict(groups={}, modes={}, names={}, steps_hist={}, callbacks=dict(init=0, inherit=0, close=0, panicking=0),
             cases_with_kind_change=0, cases_with_panic_oracle=0)
    for c in cases:
        i, o = c["in"], c["obs"]
        d["groups"][c["grp"]] = d["groups"].get(c["grp"], 0) + 1
        m = c["grp"] if c["grp"] in ("join", "apply", "backlog") else ("direct" if i.get("mode", 0) == 0 and c["grp"] == "sup" else "e2e")
        if c["grp"] == "backlog":
            d.setdefault("backlog", dict(handler_parked=0, applier_had_to_wait=0))
            d["backlog"]["handler_parked"] += bool(o.get("parked"))
            d["backlog"]["applier_had_to_wait"] += bool(o.get("stalled"))
        if c["grp"] == "join":
            d.setdefault("join", dict(parked=0, overlap_requested=0, snapshot_inside_window=0, traffic_filter=0))
            d["join"]["parked"] += bool(o.get("parked"))
            d["join"]["overlap_requested"] += bool(i.get("overlap"))
            d["join"]["snapshot_inside_window"] += bool(o.get("inwindow"))
            d["join"]["traffic_filter"] += i.get("w") == 1
        d["modes"][m] = d["modes"].get(m, 0) + 1
        d["names"][str(i["names"])] = d["names"].get(str(i["names"]), 0) + 1
        n = len(i["steps"] or [])
        b = "%d-%d" % (n // 4 * 4, n // 4 * 4 + 3)
        d["steps_hist"][b] = d["steps_hist"].get(b, 0) + 1
        for r in o.get("log") or []:
            d["callbacks"][("init", "inherit", "close")[r[1]]] += 1
            d["callbacks"]["panicking"] += r[9]
        d["cases_with_kind_change"] += _kind_change(i["steps"])
        d["cases_with_panic_oracle"] += bool(i.get("panics"))
    return d


def signature(case, result):
    return "%s-%s" % (case.get("grp"), "kc" if _kind_change(case["in"]["steps"]) else "plain")


def shrink_candidates(inp, grp):
    steps = inp.get("steps") or []
    # drop one snapshot, then one name from all snapshots, then all panics, then single panics
    for k in range(len(steps)):
        if len(steps) > 1:
            cand = dict(inp)
            cand["steps"] = steps[:k] + steps[k + 1:]
            cand["panics"] = [[t - (t > k), op, n] for t, op, n in inp.get("panics") or [] if t != k]
            if grp == "join":
                cand["join"] = int(inp.get("join", 0)) - (k < int(inp.get("join", 0)))
            if inp.get("block"):
                if k == inp["block"][0]:
                    continue
                cand["block"] = [inp["block"][0] - (k < inp["block"][0]), inp["block"][1]]
            yield cand
    for name in range(int(inp["names"])):
        if any(e[0] == name for st in steps for e in st or []) and not (inp.get("block") and inp["block"][1] == name):
            cand = dict(inp)
            cand["steps"] = [[e for e in st or [] if e[0] != name] for st in steps]
            cand["panics"] = [p for p in inp.get("panics") or [] if p[2] != name]
            yield cand
    if inp.get("panics"):
        cand = dict(inp)
        cand["panics"] = []
        yield cand
    if inp.get("mode"):
        cand = dict(inp)
        cand["mode"] = 0
        yield cand
