"""C09 rate limiter: plugin for ./check (see lib/vf/driver.py for the protocol)."""
from vf.coqterm import Z, N, B, S, L, T, C, Rec, Nat

ID = "C09"
COQ_TARGETS = ["props/C09.vo", "model/RLCheck.vo"]
THEOREMS = [
    ("EG.props.C09", "C09_wait_bound"),
    ("EG.props.C09", "C09_spare_permit_immediate"),
    ("EG.props.C09", "C09_release_bound"),
    ("EG.props.C09", "C09_reject_only_when_horizon_full"),
    ("EG.props.C09", "C09_release_period_is_slot_block"),
    ("EG.props.C09", "C09_model_passes_checker"),
    ("EG.props.C09", "C09_trace_checker_sound"),
    ("EG.props.C09", "C09_mqtt_single"),
    ("EG.props.C09", "C09_mqtt_multi"),
    ("EG.props.C09", "C09_unmatched_url_unlimited"),
    ("EG.props.C09", "C09_url_rule_match_spec"),
    ("EG.props.C09", "C09_unmatched_request_unlimited"),
    ("EG.props.C09", "C09_reload_keeps_state"),
    ("EG.props.C09", "C09_refuted_rl_inherit_steals_limiter"),
]
HARNESSES = [
    dict(name="rl", pkg="pkg/util/ratelimiter", files=["harness/ratelimiter/zz_verif_c09_test.go"],
         run="TestVerifC09", groups=["rl", "multi"], timeout=300, share=0.6),
    dict(name="race", pkg="pkg/util/ratelimiter",
         files=["harness/ratelimiter/zz_verif_c09_test.go", "harness/ratelimiter/zz_verif_c09_race_test.go"],
         run="TestVerifC09Race", groups=["rl"], timeout=300, share=0.02),
    dict(name="conc", pkg="pkg/util/ratelimiter",
         files=["harness/ratelimiter/zz_verif_c09_test.go", "harness/ratelimiter/zz_verif_c09_conc_test.go"],
         run="TestVerifC09Conc", groups=["rl"], timeout=600, share=0.01, thorough_only=True, race=True),
    dict(name="flt", pkg="pkg/filters/ratelimiter", files=["harness/filters_ratelimiter/zz_verif_c09_flt_test.go"],
         run="TestVerifC09Filter", groups=["flt"], timeout=300, share=0.25,
         extra_overlay={"pkg/util/ratelimiter/zz_verif_hook.go": "harness/ratelimiter/zz_verif_hook.go"}),
    dict(name="mqtt", pkg="pkg/object/mqttproxy", files=["harness/mqttproxy/zz_verif_c09_mqtt_test.go"],
         run="TestVerifC09Mqtt", groups=["mqtt"], timeout=300, share=0.15,
         extra_overlay={"pkg/util/ratelimiter/zz_verif_hook.go": "harness/ratelimiter/zz_verif_hook.go"}),
]
GROUPS = {"rl": "check_rl", "multi": "check_multi", "flt": "(check_flt_with pinned)", "mqtt": "check_mqtt"}
EXPLAIN = {"rl": "explain_rl", "multi": "explain_multi", "flt": "(explain_flt pinned)", "mqtt": "explain_mqtt"}
CASES = {"quick": 600, "thorough": 20000}
RULE = ("cases: random policies (T<P, T=0, T=kP, L=1..50) x arrival sequences (bursts, boundary hits, idle gaps); "
        "non-trivial = valid policy and non-empty history; classes add: has-reject(+1) has-wait(+2) non-unit-counts(+4) T<P(+8); "
        "distinct = distinct (group, input) hashes among non-trivial cases")
TRUSTED_BASE = [
    "model coq/model/RL.v is hand-written; tied to pkg/util/ratelimiter by the per-run correspondence (sampled)",
    "virtual clock: package variable nowFunc replaced by the harness; real time.Sleep/timers not exercised",
    "filter group: URL-rule matching is modelled (url_match); only the verdict of Go's regexp on the rule's own pattern is an oracle bit; "
    "net/url's decoding of the request path is an oracle (the model sees URL.Path)",
    "mqtt group: the limiter and the glue Client.checkPublishLimit are driven in-package (no broker, no sockets); "
    "DUP/QoS flags of the PUBLISH are inputs the model ignores (every PUBLISH is charged)",
    "trace checker prop_unit is proved sound and complete (C09_trace_checker_sound, C09_model_passes_checker); "
    "the filter-history checker flt_prop and the multi-limiter wait checker are trusted as written",
]
ASSUMPTIONS = ["non-decreasing clock (now >= limiter start)", "validated policy: period > 0, limit > 0, timeout >= 0",
               "every public operation holds the limiter's mutex for its whole body (atomic step)"]


MANIFEST = dict(
    design_ref="DESIGN.md section 6 C09",
    level_text=("Theorems over the executable model of acquirePermission for ALL policies and ALL arrival sequences "
                "(release bound per grid period, wait bound, immediate when spare, reject only when horizon full); "
                "model tied to pkg/util/ratelimiter on every run by differential correspondence under a virtual clock "
                "and an independent decidable checker of the four clauses on the implementation's own trace."),
    level_note=("Trusted: Coq kernel + vm_compute; hand-written model validated only on sampled histories; "
                "lock atomicity of acquirePermission assumed (each call is one atomic step); real sleeping/timers not modelled."),
    technique="Coq proof (invariant induction over arrival histories, lia/nia) + model/implementation correspondence by vm_compute",
)


def coq_header(kf_open):
    steal = any(k.get("flag") == "q_rl_inherit_steals_limiter" for k in kf_open)
    return ("From EG.lib Require Import Base.\nFrom EG.model Require Import RL RLCheck.\nOpen Scope Z_scope.\n"
            "Definition pinned : quirks := {| q_rl_inherit_steals_limiter := %s |}.\n" % B(steal))


def _pairs(xs):
    return L([T(Z(a), Z(b)) for a, b in xs])


def encode(c):
    i, o = c["in"], c["obs"]
    if c["grp"] == "rl":
        return Rec(c_pol=Rec(pT=Z(i["T"]), pP=Z(i["P"]), pL=Z(i["L"])),
                   c_ops=_pairs(i["ops"] or []), c_obs=_pairs(o["outs"] or []))
    if c["grp"] == "multi":
        return Rec(m_pol=Rec(mT=Z(i["T"]), mP=Z(i["P"]), mL=L([Z(x) for x in i["L"]])),
                   m_ops=L([T(Z(op["dt"]), L([Z(x) for x in op["count"] or []])) for op in i["ops"] or []]),
                   m_obs=_pairs(o["outs"] or []))
    if c["grp"] == "mqtt":
        return Rec(q_req=Z(i["requestRate"]), q_bytes=Z(i["bytesRate"]), q_period=Z(i["timePeriod"]),
                   q_ops=_pairs(i["ops"] or []), q_obs=L([Z(x) for x in o["outs"] or []]))
    if c["grp"] == "flt":
        specs = L([_fspec(s) for s in i["specs"]])
        steps = o.get("steps") or []
        ops = []
        rows = []
        for op, st in zip(i["ops"], steps):
            if op["op"] == "init":
                ops.append(C("IInit", Nat(op["spec"]), Z(op["dt"]), L([Z(x) for x in st.get("refs") or []])))
            elif op["op"] == "close":
                ops.append(C("IClose", Z(op["dt"]), Z(st.get("code", 0))))
            elif op["op"] == "inherit":
                refs = [-2] if st.get("code") == 2 else (st.get("refs") or [])
                ops.append(C("IInherit", Nat(op["spec"]), Nat(st["gen"]), Z(op["dt"]), L([Z(x) for x in refs])))
            else:
                ops.append(C("IHandle", Nat(st["gen"]), Z(op["dt"]), L([B(x) for x in st.get("matches") or []]), Z(st["code"])))
                rows.append(Rec(ur_spec=Nat(st.get("sidx", 0)), ur_method=S(op["method"]), ur_path=S(st.get("upath", op["path"])),
                                ur_rx=L([B(x) for x in st.get("rx") or []]), ur_obs=L([B(x) for x in st.get("matches") or []])))
        bad = bool(o.get("bad")) or len(steps) != len(i["ops"])
        return Rec(fc_specs=specs, fc_ops=L(ops), fc_bad=B(bad), fc_rows=L(rows))
    raise ValueError(c["grp"])


def _fspec(s):
    return Rec(
        fs_policies=L([Rec(fp_name=S(p["name"]), fp_T=S(p["T"]), fp_P=S(p["P"]), fp_L=Z(p["L"]),
                           fp_Tns=Z(p["Tns"]), fp_Pns=Z(p["Pns"])) for p in s["policies"] or []]),
        fs_default=S(s["default"]),
        fs_urls=L([Rec(fu_methods=L([S(m) for m in u["methods"] or []]), fu_exact=S(u["exact"]), fu_prefix=S(u["prefix"]),
                       fu_regex=S(u["regex"]), fu_ref=S(u["ref"])) for u in s["urls"] or []]))


def distribution(cases):
    d = dict(groups={}, ops_hist={}, rejects=0, waits=0, arrivals=0)
    for c in cases:
        d["groups"][c["grp"]] = d["groups"].get(c["grp"], 0) + 1
        n = len(c["in"].get("ops") or [])
        b = "%d-%d" % (n // 10 * 10, n // 10 * 10 + 9)
        d["ops_hist"][b] = d["ops_hist"].get(b, 0) + 1
        if c["grp"] in ("rl", "multi"):
            for code, w in (c["obs"].get("outs") or []):
                d["arrivals"] += 1
                d["rejects"] += code == 0
                d["waits"] += (code == 1 and w > 0)
    return d


def shrink_candidates(inp, grp):
    ops = inp.get("ops") or []
    n = len(ops)
    # drop suffix halves, then single ops
    k = n // 2
    while k >= 1:
        for s in range(0, n, k):
            cand = dict(inp)
            cand["ops"] = ops[:s] + ops[s + k:]
            if cand["ops"] != ops:
                yield cand
        k //= 2
