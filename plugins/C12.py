"""C12 route cache transparency: plugin for ./check. Shares model (coq/model/Mux.v),
harness helpers and case encoder with C01."""
import importlib.util
import os

from vf.coqterm import Z, N, B, S, L, T, C, Rec, Nat, Opt

_spec = importlib.util.spec_from_file_location("plugin_C01_shared", os.path.join(os.path.dirname(os.path.abspath(__file__)), "C01.py"))
_c01 = importlib.util.module_from_spec(_spec)
_spec.loader.exec_module(_c01)

ID = "C12"
COQ_TARGETS = ["props/C12.vo", "model/MuxCheck.vo"]
THEOREMS = [
    ("EG.props.C12", "C12_key_injective"),
    ("EG.props.C12", "C12_cache_sound_invariant"),
    ("EG.props.C12", "C12_hit_equals_miss"),
    ("EG.props.C12", "C12_transparent"),
    ("EG.props.C12", "C12_no_cross_request_influence"),
    ("EG.props.C12", "C12_transparent_across_reloads"),
    ("EG.props.C12", "C12_refuted_q_cache_key_concat"),
    ("EG.props.C12", "C12_refuted_q_cache_headerless_after_header"),
    ("EG.props.C12", "C12_refuted_q_cache_status_before_ipfilter"),
    ("EG.props.C12", "C12_refuted_q_cache_rule_filter_skipped"),
]
HARNESSES = [
    dict(name="cache", pkg="pkg/object/httpserver",
         files=["harness/httpserver/zz_verif_c01_test.go", "harness/httpserver/zz_verif_c12_test.go"],
         run="TestVerifC12", groups=["cache"], timeout=600),
]
GROUPS = {"cache": "(check_cache pinned)"}
EXPLAIN = {"cache": "(explain_cache pinned)"}
CASES = {"quick": 300, "thorough": 8000}
RULE = ("case = one HTTPServer spec (as C01, IP filters at the three levels in most cases, header-conditioned entries ahead of "
        "header-less ones sharing the path condition) with cacheSize in {1,2,8,100} x a pool of requests with variants sharing or "
        "colliding in host+method+path (other client IP, other/absent headers, host byte moved into the method) x a sequence of 5-50 "
        "draws from the pool interleaved with reload steps applied to both twins (identical spec, same rules with other cacheSize / "
        "filters, changed or different rules), run on twin muxes (cache on / off); non-trivial = spec accepted and >=1 step; class = 1 + bit set of "
        "(some cache hit, some eviction, transparency violated, twin saw 403, 200, 404/405, 400, history has a reload, twin saw 413); distinct = distinct (group, input) hashes")
TRUSTED_BASE = [
    "model coq/model/Mux.v is hand-written; tied to pkg/object/httpserver/mux.go by the per-run correspondence (sampled), "
    "including the cache's key set after every request",
    "golang-lru ARC abstracted to arbitrary eviction (the observed key set after each request is fed back as the eviction oracle)",
    "oracles computed by the harness with the real libraries: Go regexp, IPFilter.Allow, realip.FromRequest, header canonicalisation",
    "requests are injected at mux.ServeHTTP sequentially (no concurrent requests); quic-go replaced by a compile-only stub",
]
ASSUMPTIONS = ["spec accepted by the real validation; regexps compile",
               "requests are served one after another (the ARC cache is internally locked; search itself holds no lock)",
               "routing depends on the request only through host, method, path, first header values and client IP"]

MANIFEST = dict(
    design_ref="DESIGN.md section 6 C12",
    level_text=("Theorem C12_transparent over the executable model of muxInstance.search with its cache: for ALL servers, ALL request "
                "sequences and ALL eviction behaviours (cache = arbitrary partial map, arbitrary keys dropped before every request) the "
                "outcomes equal those of the cache-less router, for the defect-free flag set; one refutation theorem per defect flag of "
                "the unchanged code; model (with the flags of the open findings pinned) tied to pkg/object/httpserver on every run by "
                "differential correspondence incl. cache key sets; the property itself is checked model-free on twin muxes."),
    level_note=("Trusted: Coq kernel + vm_compute; hand-written model validated only on sampled rule sets/sequences; ARC replaced by an "
                "eviction oracle; regexp / realip / IP-filter decisions are per-case oracle tables; no concurrent requests."),
    technique="Coq proof (cache-soundness invariant, induction over request sequences with arbitrary eviction) + twin-mux differential check + model/implementation correspondence by vm_compute",
)

FLAGS = ["q_cache_key_concat", "q_cache_headerless_after_header", "q_cache_status_before_ipfilter", "q_cache_rule_filter_skipped"]


def coq_header(kf_open):
    on = {k.get("flag") for k in kf_open}
    fields = "; ".join("%s := %s" % (f, "true" if f in on else "false") for f in FLAGS)
    return ("From EG.lib Require Import Base.\nFrom EG.model Require Import Mux MuxCheck.\n"
            "Open Scope string_scope.\nDefinition pinned : quirks := {| %s |}.\n" % fields)


def encode(c):
    i, o = c["in"], c["obs"]
    if c["grp"] == "cache":
        outs = list(o.get("outs") or [])
        ops, k = [], 0
        seq = (i.get("seq") or []) if o["accepted"] else []
        ms = _c01.mappers(i, len(seq))
        for step, v in enumerate(seq):
            if v < 0:
                ops.append(C("CReload", Nat(-(v + 1))))
            elif k < len(outs):
                x = outs[k]
                k += 1
                ops.append(C("CReq", Nat(v), _c01.enc_mapper(ms[step]), T(_c01.enc_obs(x["cached"]), _c01.enc_obs(x["twin"]),
                                             L([T(S(y[0]), S(y[1]), S(y[2])) for y in x.get("keys") or []]))))
            else:
                break
        svs = [_c01.enc_server(i, sv, si) for si, sv in enumerate(_c01.servers(i))]
        return Rec(cc_svs=L(svs), cc_tabs=_c01.enc_tabs(i), cc_pool=_c01.enc_reqs(i),
                   cc_hostnames=_c01.enc_hostnames(i), cc_ops=L(ops), cc_accepted=B(o["accepted"]))
    raise ValueError(c["grp"])


def distribution(cases):
    d = _c01.distribution(cases)
    d["cache_sizes"], d["steps"], d["pool"], d["diverging_steps"], d["reloads"], d["cases_with_reload"] = {}, 0, 0, 0, 0, 0
    for c in cases:
        cs = str(c["in"]["server"].get("cacheSize"))
        d["cache_sizes"][cs] = d["cache_sizes"].get(cs, 0) + 1
        d["pool"] += len(c["in"].get("reqs") or [])
        nr = sum(1 for v in c["in"].get("seq") or [] if v < 0)
        d["reloads"] += nr
        d["cases_with_reload"] += nr > 0
        for x in c["obs"].get("outs") or []:
            d["steps"] += 1
            d["diverging_steps"] += x["cached"] != x["twin"]
    return d


def shrink_candidates(inp, grp):
    import copy
    seq = inp.get("seq") or []
    n = len(seq)
    k = n // 2
    while k >= 1:
        for s in range(0, n, k):
            cand = copy.deepcopy(inp)
            cand["seq"] = seq[:s] + seq[s + k:]
            if inp.get("mappers"):
                ms = inp["mappers"]
                cand["mappers"] = ms[:s] + ms[s + k:]
            if cand["seq"] and cand["seq"] != seq:
                yield cand
        k //= 2
    for cand in _c01.shrink_candidates(inp, grp):
        yield cand


def signature(case, result):
    return case["grp"]          # one shrunk report per run is enough
