"""C06 Validator (JWT / API signature / Basic auth / header rules): plugin for ./check."""
from vf.coqterm import Z, N, B, S, L, T, C, Rec, Opt

ID = "C06"
COQ_TARGETS = ["props/C06.vo", "model/ValidatorCheck.vo"]
THEOREMS = [
    ("EG.props.C06", "canonical_request_injective"),
    ("EG.props.C06", "C06_covered_parts"),
    ("EG.props.C06", "C06_sig_complete"),
    ("EG.props.C06", "C06_sig_sound"),
    ("EG.props.C06", "C06_sig_mutation_rejected"),
    ("EG.props.C06", "C06_sig_body_hash_is_payload"),
    ("EG.props.C06", "C06_jwt_sound_complete"),
    ("EG.props.C06", "C06_jwt_token_source"),
    ("EG.props.C06", "C06_jwt_mutation_rejected"),
    ("EG.props.C06", "C06_basic_exact"),
    ("EG.props.C06", "C06_headers_exact"),
    ("EG.props.C06", "C06_basic_latest_users"),
    ("EG.props.C06", "C06_instances_independent"),
    ("EG.props.C06", "C06_all_methods_must_pass"),
    ("EG.props.C06", "C06_reject_is_invalid_4xx"),
    ("EG.props.C06", "C06_refuted_sig_verifies_drained_body"),
    ("EG.props.C06", "C06_refuted_basic_split_all_colons"),
    ("EG.props.C06", "C06_refuted_jwt_sig_lenient_b64"),
]
HARNESSES = [
    dict(name="validator", pkg="pkg/filters/validator",
         files=["harness/validator/zz_verif_c06_test.go", "harness/validator/zz_verif_c06_ref_test.go",
                "harness/validator/zz_verif_c06_gen_test.go", "harness/validator/zz_verif_c06_etcd_test.go",
                "harness/validator/zz_verif_c06_multi_test.go"],
         run="TestVerifC06", groups=["v"], timeout=600, share=0.8),
    dict(name="etcd", pkg="pkg/filters/validator",
         files=["harness/validator/zz_verif_c06_test.go", "harness/validator/zz_verif_c06_ref_test.go",
                "harness/validator/zz_verif_c06_gen_test.go", "harness/validator/zz_verif_c06_etcd_test.go",
                "harness/validator/zz_verif_c06_multi_test.go"],
         run="TestVerifC06Etcd", groups=["etcd"], timeout=600, share=0.1),
    dict(name="multi", pkg="pkg/filters/validator",
         files=["harness/validator/zz_verif_c06_test.go", "harness/validator/zz_verif_c06_ref_test.go",
                "harness/validator/zz_verif_c06_gen_test.go", "harness/validator/zz_verif_c06_etcd_test.go",
                "harness/validator/zz_verif_c06_multi_test.go"],
         run="TestVerifC06Multi", groups=["x"], timeout=600, share=0.1),
]
GROUPS = {"v": "(check_v pinned)", "etcd": "(check_etcd pinned)", "x": "(check_x pinned)"}
EXPLAIN = {"v": "(explain_v pinned)", "etcd": "(explain_etcd pinned)", "x": "(explain_x pinned)"}
CASES = {"quick": 700, "thorough": 12000}
RULE = ("cases: random Validator configurations (header rules, jwt HS256/384/512 via header or cookie, signature with 1-4 access keys / ttl / "
        "excludeBody / custom literals in header and presign mode, basic auth users incl. ':' and non-ASCII passwords, combinations) x requests "
        "built by an independent signer/issuer and then mutated in one covered or uncovered part; delivered as net/http parse -> "
        "ByteCountReader -> httpprot.NewRequest -> FetchPayload -> Handle; non-trivial = delivered to the filter; "
        "class = 1 + 2*shape label + accepted; group x: 2-3 Validator instances (rotated secret / algorithm / users / keys) and reload generations in one process, the same "
        "credentials presented to each in sequence (first to the one that accepts them) and again after Inherit with rotated configuration; "
        "group etcd: ETCD-mode basic auth on a mocked cluster, histories of user-set updates "
        "(add, change password, remove one, remove ALL incl. nil map, re-add) through the mocked syncer interleaved with requests by current, former "
        "and unknown users; distinct = distinct (group, input) hashes among non-trivial cases")
TRUSTED_BASE = [
    "model coq/model/Validator.v is hand-written; tied to pkg/filters/validator + pkg/util/signer + httpheader.Validator by the per-run correspondence (sampled)",
    "idealised cryptography: SHA-256, HMAC (signer key chain, JWT HS256/384/512) are oracle fields with injectivity hypotheses; per case the harness "
    "supplies their finite tables computed with Go crypto and checks the tables are injective",
    "library functions taken as oracles (tables from the real Go library): regexp.MatchString, base64 decoding, jwt segment/JSON decoding, "
    "textproto.CanonicalMIMEHeaderKey, time.ParseInLocation/Format, strconv.ParseUint, net/http request parsing (EscapedPath, Query, Header, Cookie), "
    "go-htpasswd {SHA} matching (model: exact password equality)",
    "harness reference verifier (own canonicalisation, own signer and JWT issuer) defines the expected decision; the ideal model must agree with it on every case",
    "OAuth2 (token introspection server / self-encoded tokens) is NOT modelled and not exercised",
    "ETCD-mode basic auth runs on clustertest mocks (GetPrefix, Syncer.SyncPrefix); the real etcd syncer is C19's subject; "
    "each update is sent twice on the unbuffered channel so that the first is applied before the next request",
    "jwt time: most cases run on a virtual jwt.TimeFunc (saved and restored, never reset to time.Now); real-clock cases leave jwt.TimeFunc alone, "
    "record the clock before and after Handle and are re-issued until the reference verdict is the same at both ends",
    "a share of the signature cases runs behind req.SetPath(req.Path()) or a real RequestAdaptor whose path rule does not apply; the expected "
    "verdict and the model see the request as delivered by the server (before that filter)",
    "a share of the signature cases runs with time.Local set to a fixed non-UTC zone for the duration of the case (single goroutine, restored)",
    "FILE-mode histories (group etcd, mode=file): the user file is rewritten in place or replaced by rename; the harness polls (<= 3 s) for a marker "
    "user of the new version; the code watches the inode, so per generation at most one replacement is played (after it only a reload re-watches)",
    "group x also asks the PREVIOUS (closed) generation after a reload: it must answer as before its close",
    "instances with an oauth2.jwt section are only constructed (group x), never asked",
    "signature time checks use the real clock (signer.go calls time.Now): cases keep >= 20 s distance from every ttl/expiry boundary",
]
ASSUMPTIONS = [
    "HMAC and SHA-256 are injective on the strings that occur (no collisions); hex/base64 texts of a MAC are canonical",
    "requests reach the filter with the body buffered by FetchPayload (not the stream mode maxPayloadSize < 0); origin-form request targets (URL.Scheme/Host/Opaque empty)",
    "the signature method has a non-empty accessKeys store (an empty store panics in Verify: that is C13's finding)",
    "header rules: the first value of a multi-valued header decides (as the code does); strings.TrimSpace modelled for ASCII white space only",
    "JWT time claims: a claim that is absent, not a JSON number, or whose whole second is 0 does not restrict (library semantics); a numeric claim "
    "counts with its value truncated toward zero to a whole second (fractions and exponent forms are legal NumericDates); values outside int64 are not generated",
    "etcd user sets have distinct effective user names (otherwise Go map order decides which entry wins)",
    "the signature-carrying parameters (credential date prefix, scope suffix, X-Me-Expires spelling) are covered by their parsed meaning, not byte-wise",
]
MANIFEST = dict(
    design_ref="DESIGN.md section 6 C06",
    level_text=("Theorems over the executable model of Validator.Handle for ALL configurations, requests and oracles: injectivity of the canonical request "
                "encoding, completeness and soundness of signature verification incl. the forwarded body, rejection of every change of a covered part under "
                "injective MAC/hash, exact characterisation of JWT, Basic (password = everything after the first ':') and header rules, all methods must pass, "
                "rejection = invalid + 400/401; refutation witnesses for the three defect flags; model tied to the real filter on every run by differential "
                "correspondence on independently signed and mutated requests delivered as the HTTP server delivers them."),
    level_note=("Trusted: Coq kernel + vm_compute; idealised cryptography (injectivity hypotheses); library functions as oracle tables; hand-written model validated "
                "only on sampled requests; OAuth2 not modelled; stream-mode payloads out of scope."),
    technique="Coq proof (string-encoding injectivity by decoder left-inverses, case analysis of the decision logic) + model/implementation correspondence by vm_compute",
)

FLAGS = ["q_sig_verifies_drained_body", "q_basic_split_all_colons", "q_jwt_sig_lenient_b64"]


def coq_header(kf_open):
    on = {k.get("flag") for k in kf_open}
    fields = "; ".join("%s := %s" % (f, "true" if f in on else "false") for f in FLAGS)
    return ("From EG.lib Require Import Base.\nFrom EG.model Require Import Validator ValidatorCheck.\n"
            "Open Scope string_scope.\nDefinition pinned : quirks := {| %s |}.\n" % fields)


def SX(h):
    return S(bytes.fromhex(h))


def _mmap(kvs):
    return L([T(S(kv["k"]), L([S(x) for x in kv["v"] or []])) for kv in kvs or []])


def _optz(x):
    return "None" if x is None else "(Some %s)" % Z(x)


def _jnum(n):
    if not n or not n.get("num"):
        return "JAbsent"
    return "(JNum %s %s)" % (Z(int(n["m"])), Z(n["e"]))


def _group2(triples, fv):
    """[(k1, k2, v)] -> list (k1 * list (k2 * v)) grouped by k1 (order kept)"""
    order, d = [], {}
    for k1, k2, v in triples:
        if k1 not in d:
            d[k1] = []
            order.append(k1)
        d[k1].append((k2, v))
    return order, d


def _lit(l):
    if l is None:
        return "default_literal"
    return Rec(l_suffix=S(l["scopeSuffix"]), l_algname=S(l["algorithmName"]), l_algvalue=S(l["algorithmValue"]),
               l_signedheaders=S(l["signedHeaders"]), l_signature=S(l["signature"]), l_date=S(l["date"]),
               l_expires=S(l["expires"]), l_credential=S(l["credential"]), l_contentsha=S(l["contentSha256"]),
               l_keyprefix=S(l["signingKeyPrefix"]))


_UNIT = {"ns": 1, "us": 10**3, "\u00b5s": 10**3, "\u03bcs": 10**3, "ms": 10**6, "s": 10**9, "m": 60 * 10**9, "h": 3600 * 10**9}


def _dur(s):
    """time.ParseDuration, exact (fractions included): the model's ttl is the configured duration in ns;
    unparsable = 0 (no ttl), as CreateFromSpec does. Cross-checked against Go's value in encode()."""
    import re
    from fractions import Fraction
    s = s or ""
    if s == "0":
        return 0
    sign = 1
    if s[:1] in ("+", "-"):
        sign, s = (-1 if s[0] == "-" else 1), s[1:]
    tok = r"(\d+\.?\d*|\.\d+)(ns|us|\u00b5s|\u03bcs|ms|s|m|h)"
    if not s or not re.fullmatch("(%s)+" % tok, s):
        return 0
    total = sum(Fraction(n) * _UNIT[u] for n, u in re.findall(tok, s))
    return sign * int(total)


def _cfg(c):
    hd = "None"
    if c.get("headers") is not None:
        hd = "(Some %s)" % L([Rec(h_key=S(r["key"]), h_values=L([S(x) for x in r.get("values") or []]), h_regexp=S(r.get("regexp") or ""))
                              for r in c["headers"]])
    jw = "None"
    if c.get("jwt"):
        j = c["jwt"]
        jw = "(Some %s)" % Rec(j_alg=S(j["alg"]), j_secret=S(j["secret"]), j_cookie=S(j["cookie"]))
    sg = "None"
    if c.get("sig"):
        s = c["sig"]
        sg = "(Some %s)" % Rec(s_lit=_lit(s.get("literal")), s_exclude_body=B(s["excludeBody"]), s_ttl=Z(_dur(s["ttl"])),
                               s_keys=L([T(S(k), S(v)) for k, v in s.get("keys") or []]))
    ba = "None"
    if c.get("basic") is not None:
        ba = "(Some %s)" % L([T(S(u), S(p)) for u, p in c["basic"]])
    return Rec(c_headers=hd, c_jwt=jw, c_sig=sg, c_basic=ba)


def _tables(t):
    t = t or {}
    re_o, re_d = _group2([(e["p"], e["v"], e["m"]) for e in t.get("re") or []], None)
    jm_o, jm_d = _group2([(a, m, x) for a, m, x in t.get("jmac") or []], None)
    mc_o, mc_d = _group2([(k, d, o) for k, d, o in t.get("mac") or []], None)

    def ostr(e, conv=S):
        return T(S(e["k"]), "(Some %s)" % conv(e["v"]) if e["ok"] else "None")

    def claims(e):
        c = e["c"]
        if not c["ok"]:
            return T(S(e["k"]), "None")
        return T(S(e["k"]), "(Some (%s, %s, %s))" % (_jnum(c.get("exp")), _jnum(c.get("iat")), _jnum(c.get("nbf"))))

    def ptime(e):
        if not e["ok"]:
            return T(S(e["k"]), "None")
        return T(S(e["k"]), "(Some (%s, %s, %s))" % (Z(e["sec"] * 10**9 + e["nsec"]), S(e["ftime"]), S(e["fdate"])))

    return Rec(
        t_ck=L([T(S(a), S(b)) for a, b in t.get("ck") or []]),
        t_re=L([T(S(p), L([T(S(v), B(m)) for v, m in re_d[p]])) for p in re_o]),
        t_b64std=L([ostr(e, SX) for e in t.get("b64") or []]),
        t_jhdr=L([ostr(e) for e in t.get("jhdr") or []]),
        t_jclaims=L([claims(e) for e in t.get("jclaims") or []]),
        t_b64canon=L([ostr(e) for e in t.get("b64canon") or []]),
        t_jmac=L([T(S(a), L([T(S(m), S(x)) for m, x in jm_d[a]])) for a in jm_o]),
        t_ptime=L([ptime(e) for e in t.get("ptime") or []]),
        t_puint=L([ostr(e, Z) for e in t.get("puint") or []]),
        t_sha=L([T(SX(a), S(b)) for a, b in t.get("sha") or []]),
        t_mac=L([T(SX(k), L([T(SX(d), SX(o)) for d, o in mc_d[k]])) for k in mc_o]),
    )


def _ecreds(us):
    return L([Rec(e_key=S(u["key"]), e_user=S(u["username"]), e_pass=S(u["password"]), e_stored=B(not u["noPass"])) for u in us or []])


def _observed(res):
    return Rec(ob_invalid=B(res.get("res") == "invalid"), ob_other=B(res.get("res", "") not in ("", "invalid")),
               ob_status=Z(res.get("status", 0)), ob_by=N(res.get("by", 0)), ob_panic=B(res.get("panic", False)))


def _encode_etcd(i, o):
    steps, k = [], 0
    obs_steps = o.get("steps") or []
    short = False
    for op in i["ops"] or []:
        if op["op"] == "update":
            steps.append(C("SUpdate", _ecreds([] if op.get("nil") else op.get("users"))))
        elif op["op"] == "reload":
            steps.append("SReload")
        else:
            if k >= len(obs_steps):
                short = True
                break
            st = obs_steps[k]
            k += 1
            req = Rec(r_method=S("GET"), r_escpath=S("/"), r_query="[]", r_host=S("example.com"),
                      r_headers=L([T(S("Authorization"), L([S("Basic " + st["b64"])]))]), r_payload=S(""), r_cookie="None")
            steps.append(C("SReq", req, _observed(st["result"]), B(st["expect"])))
    return Rec(ec_alive=B(not i["initErr"]), ec_init=_ecreds(i["initial"]), ec_steps=L(steps),
               ec_b64=L([T(S(a), "(Some %s)" % SX(h)) for a, h in o.get("b64tab") or []]),
               ec_stuck=B(bool(o.get("stuck")) or short))


def _encode_x(i, o):
    cfgs = list(i["cfgs"])
    olds = [None] * len(cfgs)
    steps, k = [], 0
    obs = o.get("steps") or []
    for st in i["steps"]:
        if st.get("reload") is not None:
            olds[st["inst"]] = cfgs[st["inst"]]
            cfgs[st["inst"]] = st["reload"]
            continue
        if k >= len(obs):
            break
        rec = dict(i["cases"][st["case"]])
        rec["cfg"] = olds[st["inst"]] if st.get("old") else cfgs[st["inst"]]
        if rec["cfg"].get("oauth2"):
            raise ValueError("a request was presented to an oauth2 instance: that method is not modelled")
        steps.append(_encode_v(rec, obs[k]))
        k += 1
    return Rec(x_steps=L(steps))


def encode(c):
    i, o = c["in"], c["obs"]
    if c["grp"] == "etcd":
        return _encode_etcd(i, o)
    if c["grp"] == "x":
        return _encode_x(i, o)
    return _encode_v(i, o)


def _encode_v(i, o):
    v = o.get("view")
    res = o.get("result") or {}
    if not o.get("delivered") or v is None:
        req = Rec(r_method=S(""), r_escpath=S(""), r_query="[]", r_host=S(""), r_headers="[]", r_payload=S(""), r_cookie="None")
    else:
        req = Rec(r_method=S(v["method"]), r_escpath=S(v["escPath"]), r_query=_mmap(v["query"]), r_host=S(v["host"]),
                  r_headers=_mmap(v["headers"]), r_payload=SX(v["payload"]),
                  r_cookie="None" if v.get("cookie") is None else "(Some %s)" % S(v["cookie"]))
    if o.get("delivered") and i["cfg"].get("sig") and _dur(i["cfg"]["sig"]["ttl"]) != o.get("ttlNs"):
        raise ValueError("ttl %r: encoder parses %d ns, time.ParseDuration %r ns" % (i["cfg"]["sig"]["ttl"], _dur(i["cfg"]["sig"]["ttl"]), o.get("ttlNs")))
    ob = Rec(ob_invalid=B(res.get("res") == "invalid"), ob_other=B(res.get("res", "") not in ("", "invalid")),
             ob_status=Z(res.get("status", 0)), ob_by=N(res.get("by", 0)), ob_panic=B(res.get("panic", False)))
    return Rec(v_cfg=_cfg(i["cfg"]), v_req=req, v_now=Z(o.get("nowNs", 0)), v_jnow=Z(o.get("jnow") or i["jnow"]), v_tabs=_tables(o.get("tabs")),
               v_delivered=B(bool(o.get("delivered"))), v_obs=ob, v_expect=B(bool(o.get("expect"))), v_kind=N(i.get("kind", 0)))


def distribution(cases):
    d = dict(delivered=0, accepted=0, rejected_by={}, kinds={}, methods={}, bodied=0, presign=0, muts={})
    d["etcd_histories"] = d["etcd_updates"] = d["etcd_empty_updates"] = d["etcd_requests"] = 0
    for c in cases:
        i, o = c["in"], c["obs"]
        if c["grp"] == "x":
            d["multi_instance_cases"] = d.get("multi_instance_cases", 0) + 1
            d["multi_instance_steps"] = d.get("multi_instance_steps", 0) + len(o.get("steps") or [])
            continue
        if c["grp"] == "etcd":
            d["etcd_histories"] += 1
            for op in i["ops"] or []:
                d["etcd_updates"] += op["op"] == "update"
                d["etcd_empty_updates"] += op["op"] == "update" and not op.get("users")
                d["etcd_requests"] += op["op"] == "req"
            continue
        d["delivered"] += bool(o.get("delivered"))
        r = o.get("result") or {}
        if o.get("delivered"):
            if r.get("res") == "":
                d["accepted"] += 1
            else:
                k = str(r.get("by"))
                d["rejected_by"][k] = d["rejected_by"].get(k, 0) + 1
        k = str(i.get("kind"))
        d["kinds"][k] = d["kinds"].get(k, 0) + 1
        ms = "+".join(m for m in ("headers", "jwt", "sig", "basic") if i["cfg"].get(m) is not None)
        d["methods"][ms] = d["methods"].get(ms, 0) + 1
        d["bodied"] += bool(i["req"].get("body"))
        d["presign"] += bool(i.get("plan") and i["plan"]["mode"] == "query")
        for m in i.get("muts") or []:
            d["muts"][m["op"]] = d["muts"].get(m["op"], 0) + 1
    return d


def signature(c, r):
    if c["grp"] in ("etcd", "x"):
        return c["grp"]
    return "%s-%s" % (c["in"].get("kind"), (c["obs"].get("result") or {}).get("by"))


def shrink_candidates(inp, grp):
    import copy
    if grp in ("x", "etcd"):
        key = "steps" if grp == "x" else "ops"
        xs = inp.get(key) or []
        n = len(xs)
        k = max(1, n // 2)
        while k >= 1:  # drop chunks (halves, quarters, ...) before single steps
            for st in range(0, n, k):
                cand = copy.deepcopy(inp)
                del cand[key][st:st + k]
                if cand[key]:
                    yield cand
            if k == 1:
                break
            k //= 2
        return
    # drop methods that are not needed, then headers / query parameters / scopes
    for m in ("headers", "jwt", "basic"):
        if inp["cfg"].get(m) is not None and sum(inp["cfg"].get(x) is not None for x in ("headers", "jwt", "sig", "basic")) > 1:
            cand = copy.deepcopy(inp)
            cand["cfg"][m] = None
            yield cand
    for key in ("headers", "query"):
        xs = inp["req"].get(key) or []
        for k in range(len(xs)):
            cand = copy.deepcopy(inp)
            del cand["req"][key][k]
            yield cand
    if inp.get("plan") and inp["plan"].get("scopes"):
        cand = copy.deepcopy(inp)
        cand["plan"]["scopes"] = []
        yield cand
